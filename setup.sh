#!/bin/sh
# Offline build of the framework from files on disk (MANIFEST.setup_cmd).
set -e
cd "$(dirname "$0")"
export GOFLAGS=-mod=mod GOPROXY=off GOSUMDB=off GOTOOLCHAIN=local
mkdir -p .cache evidence replays
(cd extract && go build -o ../.cache/verifx .)
(cd extract/rangesites && go build -o ../../.cache/verifrs .)
./.cache/verifx --repo "${VERIF_REPO:-/repo}"
./.cache/verifrs "${VERIF_REPO:-/repo}" "$PWD/lean/SyslModel/Gen/RangeSites.lean"
(cd lean && lake build)
cp "${VERIF_REPO:-/repo}/go.sum" harness/go.sum
(cd harness && go build -tags verif -o ../.cache/verifh .)
echo setup-ok
