package main

// C13 — sequence diagrams terminate, are well-formed and follow the call tree.
// Real code: sequencediagram.GenerateSequenceDiag on generated call graphs, every endpoint as
// the start.  Model: SyslModel.SeqDiag (oracle op sd.gen).  Direct oracle: a PlantUML
// sequence reader + an independent reference walk of the call tree.

import (
	"fmt"
	"regexp"
	"sort"
	"strings"
	"time"

	"github.com/anz-bank/sysl/pkg/cmdutils"
	"github.com/anz-bank/sysl/pkg/sequencediagram"
	"github.com/anz-bank/sysl/pkg/sysl"
	"github.com/sirupsen/logrus"
)

type sdModel struct {
	Apps []sdApp `json:"apps"`
}
type sdApp struct {
	Name  string `json:"name"`
	Human bool   `json:"human,omitempty"`
	Cron  bool   `json:"cron,omitempty"`
	Eps   []gEp  `json:"eps"`
}

func genSdModel(r *Rand, nApps int) *sdModel {
	names := []string{"Alpha", "Beta", "Gamma", "Delta", "Eps", "Zeta"}
	m := &sdModel{}
	var plain []gApp
	for i := 0; i < nApps; i++ {
		a := sdApp{Name: names[i], Human: r.Chance(1, 9), Cron: r.Chance(1, 14)}
		ne := 1 + r.Intn(3)
		for e := 0; e < ne; e++ {
			a.Eps = append(a.Eps, gEp{Name: fmt.Sprintf("%sOp%d", strings.ToLower(names[i][:1]), e), Hidden: r.Chance(1, 10)})
		}
		m.Apps = append(m.Apps, a)
		plain = append(plain, gApp{Name: a.Name, Eps: a.Eps})
	}
	for i := range m.Apps {
		for e := range m.Apps[i].Eps {
			ss := genStmts(r, plain, 3, 1+r.Intn(4))
			ss = sdAddReturns(r, ss, 2)
			m.Apps[i].Eps[e].Stmts = ss
		}
	}
	return m
}

// sprinkle return statements (primitive payload = formatted empty; named payload = shown)
func sdAddReturns(r *Rand, ss []gStmt, depth int) []gStmt {
	var out []gStmt
	for _, s := range ss {
		if len(s.Body) > 0 && depth > 0 {
			s.Body = sdAddReturns(r, s.Body, depth-1)
		}
		for i := range s.Alts {
			if depth > 0 {
				s.Alts[i] = sdAddReturns(r, s.Alts[i], depth-1)
			}
		}
		out = append(out, s)
		if r.Chance(1, 7) {
			out = append(out, gStmt{Kind: "ret", Text: Pick(r, []string{"ok <: Thing", "ok <: string", "error <: Problem", "ok <: int"})})
		}
	}
	return out
}

func sdFmtPayload(raw string) string {
	p := raw
	if i := strings.Index(raw, "<:"); i >= 0 {
		p = strings.TrimSpace(raw[i+2:])
	}
	switch strings.ToLower(p) {
	case "string", "int", "bool", "float", "decimal", "date", "datetime", "any", "bytes", "uuid", "xml", "empty", "no_primitive":
		return ""
	}
	return p
}

func (m *sdModel) text() string {
	var b strings.Builder
	for _, a := range m.Apps {
		var at []string
		if a.Human {
			at = append(at, "~human")
		}
		if a.Cron {
			at = append(at, "~cron")
		}
		as := ""
		if len(at) > 0 {
			as = " [" + strings.Join(at, ", ") + "]"
		}
		fmt.Fprintf(&b, "%s%s:\n", a.Name, as)
		for _, e := range a.Eps {
			at := ""
			if e.Hidden {
				at = " [~hidden]"
			}
			fmt.Fprintf(&b, "    %s%s:\n", e.Name, at)
			renderBody(&b, e.Stmts, "        ")
		}
	}
	return b.String()
}

func sdStmtJSON(ss []gStmt) []any {
	out := []any{}
	for i := 0; i < len(ss); i++ {
		s := ss[i]
		switch s.Kind {
		case "call":
			out = append(out, map[string]any{"kind": "call", "app": s.App, "ep": s.Ep})
		case "action":
			out = append(out, map[string]any{"kind": "action", "text": s.Text})
		case "ret":
			out = append(out, map[string]any{"kind": "ret", "raw": s.Text, "fmt": sdFmtPayload(s.Text)})
		case "alt":
			var alts []any
			for _, a := range s.Alts {
				alts = append(alts, sdStmtJSON(a))
			}
			out = append(out, map[string]any{"kind": "alt", "alts": alts})
		case "if", "else":
			out = append(out, map[string]any{"kind": "opt", "body": sdStmtJSON(s.Body)})
		case "foreach", "loop":
			out = append(out, map[string]any{"kind": "loop", "body": sdStmtJSON(s.Body)})
		case "group":
			out = append(out, map[string]any{"kind": "group", "body": sdStmtJSON(s.Body)})
		}
	}
	return out
}

func (m *sdModel) oracleModule() []any {
	var out []any
	for _, a := range m.Apps {
		var eps []any
		for _, e := range a.Eps {
			eps = append(eps, map[string]any{"name": e.Name, "hidden": e.Hidden, "stmts": sdStmtJSON(e.Stmts)})
		}
		out = append(out, map[string]any{"name": a.Name, "human": a.Human, "cron": a.Cron, "eps": eps})
	}
	return out
}

// ---------- PlantUML sequence reader ----------

type sdEv struct {
	Kind string // arrow self ret act deact open else end
	A, B string
}

var (
	reSdArrow = regexp.MustCompile(`^(\[|_\d+)->(_\d+) :`)
	reSdSelf  = regexp.MustCompile(`^(_\d+) -> (_\d+) :`)
	reSdRet   = regexp.MustCompile(`^(\[|_\d+)<--(_\d+) :`)
	reSdAct   = regexp.MustCompile(`^(activate|deactivate) (_\d+)$`)
	reSdHead  = regexp.MustCompile(`^(actor|boundary|control|database|collections|queue|participant) "(.*)" as (_\d+)$`)
)

func parseSd(text string) (evs []sdEv, head map[string]string, headCount map[string]int, unknown []string) {
	head = map[string]string{}
	headCount = map[string]int{}
	for _, ln := range strings.Split(text, "\n") {
		l := strings.TrimSpace(ln)
		switch {
		case l == "" || strings.HasPrefix(l, "'") || l == "@startuml" || l == "@enduml" || strings.HasPrefix(l, "skinparam") ||
			strings.HasPrefix(l, "title") || strings.HasPrefix(l, "=="):
		case reSdHead.MatchString(l):
			m := reSdHead.FindStringSubmatch(l)
			head[m[3]] = m[2]
			headCount[m[3]]++
		case reSdArrow.MatchString(l):
			m := reSdArrow.FindStringSubmatch(l)
			evs = append(evs, sdEv{"arrow", m[1], m[2]})
		case reSdSelf.MatchString(l):
			m := reSdSelf.FindStringSubmatch(l)
			evs = append(evs, sdEv{"self", m[1], m[2]})
		case reSdRet.MatchString(l):
			m := reSdRet.FindStringSubmatch(l)
			evs = append(evs, sdEv{"ret", m[1], m[2]})
		case reSdAct.MatchString(l):
			m := reSdAct.FindStringSubmatch(l)
			k := "act"
			if m[1] == "deactivate" {
				k = "deact"
			}
			evs = append(evs, sdEv{k, m[2], ""})
		case strings.HasPrefix(l, "opt "), l == "opt":
			evs = append(evs, sdEv{"open", "opt", ""})
		case strings.HasPrefix(l, "loop "), l == "loop":
			evs = append(evs, sdEv{"open", "loop", ""})
		case strings.HasPrefix(l, "group "), l == "group":
			evs = append(evs, sdEv{"open", "group", ""})
		case strings.HasPrefix(l, "alt "), l == "alt":
			evs = append(evs, sdEv{"open", "alt", ""})
		case strings.HasPrefix(l, "else "), l == "else":
			evs = append(evs, sdEv{"else", "", ""})
		case l == "end":
			evs = append(evs, sdEv{"end", "", ""})
		case strings.HasPrefix(l, "note over "):
			f := strings.Fields(strings.TrimSuffix(strings.SplitN(l, ":", 2)[0], ":"))
			evs = append(evs, sdEv{"note", f[len(f)-1], ""})
		case strings.HasPrefix(l, "note right") || strings.HasPrefix(l, "note left"):
			evs = append(evs, sdEv{"noteside", "", ""})
		case strings.HasPrefix(l, "note "):
		default:
			unknown = append(unknown, l)
		}
	}
	return
}

// ---------- independent reference walk: the call arrows reachable from the start ----------

func (m *sdModel) app(n string) *sdApp {
	for i := range m.Apps {
		if m.Apps[i].Name == n {
			return &m.Apps[i]
		}
	}
	return nil
}
func (a *sdApp) ep(n string) *gEp {
	for i := range a.Eps {
		if a.Eps[i].Name == n {
			return &a.Eps[i]
		}
	}
	return nil
}

// refArrows: [from app or "[", to app] in order; missing = a dangling target was reached
func (m *sdModel) refArrows(app, ep string, bb map[string]string) (arrows [][2]string, missing bool) {
	inProgress := map[string]bool{}
	var visit func(from, app, ep string)
	var walk func(app string, ss []gStmt)
	visit = func(from, app, ep string) {
		if missing {
			return
		}
		a := m.app(app)
		if a == nil || a.ep(ep) == nil {
			missing = true
			return
		}
		e := a.ep(ep)
		if !((a.Human && from == "[") || a.Cron) && !e.Hidden {
			arrows = append(arrows, [2]string{from, app})
		}
		key := app + " <- " + ep
		if len(e.Stmts) == 0 || inProgress[key] {
			return // shown, not expanded again
		}
		if c, isBB := bb[key]; isBB && c != "" {
			return // a black box (an empty comment means the option is ignored)
		}
		inProgress[key] = true
		walk(app, e.Stmts)
		delete(inProgress, key)
	}
	walk = func(app string, ss []gStmt) {
		for _, s := range ss {
			if s.Kind == "call" {
				visit(app, s.App, s.Ep)
			}
			walk(app, s.Body)
			for _, a := range s.Alts {
				walk(app, a)
			}
		}
	}
	visit("[", app, ep)
	return
}

func init() { runners["C13"] = runC13 }

type c13Case struct {
	Model *sdModel          `json:"model"`
	App   string            `json:"app"`
	Ep    string            `json:"ep"`
	BB    map[string]string `json:"blackboxes,omitempty"` // "App <- Ep" -> comment: shown, never expanded
}

// c13BlackBoxes picks endpoints other than the start to be black boxes, with comments of one
// character (the placeholder of "no note"), a few words, or empty (ignored)
func c13BlackBoxes(r *Rand, m *sdModel, app, ep string) map[string]string {
	bb := map[string]string{}
	for _, a := range m.Apps {
		for _, e := range a.Eps {
			if (a.Name == app && e.Name == ep) || !r.Chance(1, 4) {
				continue
			}
			bb[a.Name+" <- "+e.Name] = Pick(r, []string{"x", "see the other diagram", "-", "", "external system"})
		}
	}
	return bb
}

func runC13(res *Result, tier string, rnd *Rand, replay string) {
	res.Rule = "generated models: 1..6 applications (human / cron patterns), 1..3 endpoints (hidden sometimes), statements nested to depth 3 over call/action/return/if/else/for each/while/group/one of, arbitrary call graphs (cycles, self calls, diamonds, calls to missing endpoints), returns with primitive or named payloads anywhere; every endpoint of every model as the start; non-trivial = the walk reaches an endpoint already in progress or a nested block contains a call; distinct by (model text, start)"
	n := 120
	if tier == "thorough" {
		n = 4000
	}
	var cases []c13Case
	if replay != "" {
		var rp struct {
			Input c13Case `json:"input"`
		}
		readJSON(replay, &rp)
		cases = []c13Case{rp.Input}
	} else {
		for _, m := range c13Corpus() {
			for _, a := range m.Apps {
				for _, e := range a.Eps {
					cases = append(cases, c13Case{Model: m, App: a.Name, Ep: e.Name})
				}
			}
		}
		for i := 0; i < n; i++ {
			m := genSdModel(rnd, 1+rnd.Intn(6))
			for _, a := range m.Apps {
				for _, e := range a.Eps {
					cases = append(cases, c13Case{Model: m, App: a.Name, Ep: e.Name})
					if rnd.Chance(1, 2) {
						if bb := c13BlackBoxes(rnd, m, a.Name, e.Name); len(bb) > 0 {
							cases = append(cases, c13Case{Model: m, App: a.Name, Ep: e.Name, BB: bb})
						}
					}
				}
			}
		}
	}
	logger := logrus.New()
	logger.SetLevel(logrus.PanicLevel)
	type obs struct {
		c    c13Case
		text string
		err  string
	}
	var all []obs
	var reqs []any
	compiled := map[*sdModel]*sysl.Module{}
	for _, c := range cases {
		c := c
		if _, ok := compiled[c.Model]; !ok {
			mod, err := compileFiles(map[string]string{"main.sysl": c.Model.text()}, "main.sysl")
			if err != nil {
				res.Count("generated-not-compiling")
				res.Note("not compiling: %v\n%s", err, c.Model.text())
				compiled[c.Model] = nil
			} else {
				compiled[c.Model] = mod
			}
		}
		if compiled[c.Model] == nil {
			continue
		}
		mod := compiled[c.Model]
		type out struct {
			text, err, panicv string
		}
		ch := make(chan out, 1)
		done := Track(c)
		go func() {
			var r out
			defer func() {
				if x := recover(); x != nil {
					r.panicv = fmt.Sprint(x)
				}
				ch <- r
			}()
			l := &cmdutils.Labeler{}
			bbs := map[string]*cmdutils.Upto{}
			for k, cm := range c.BB {
				bbs[k] = &cmdutils.Upto{Comment: cm, ValueType: cmdutils.BBCommandLine}
			}
			p := &sequencediagram.SequenceDiagParam{AppLabeler: l, EndpointLabeler: l,
				Endpoints: []string{c.App + " <- " + c.Ep}, Title: "", Blackboxes: bbs, AppName: c.App}
			t, err := sequencediagram.GenerateSequenceDiag(mod, p, logger)
			r.text = t
			if err != nil {
				r.err = err.Error()
			}
		}()
		var r out
		select {
		case r = <-ch:
			done()
		case <-time.After(30 * time.Second):
			res.Violate(Violation{Sig: "diverges", What: "sequence diagram generation did not return within 30 s", Input: c})
			continue
		}
		if r.panicv != "" {
			sig := "panic:" + firstLine(r.panicv)
			if strings.Contains(r.panicv, "not found") {
				sig = "panic:call-target-not-found"
			}
			res.Violate(Violation{Sig: sig, What: "sequence diagram generation panicked: " + firstLine(r.panicv), Input: c})
			continue
		}
		all = append(all, obs{c, r.text, r.err})
		// the option handling keeps a black box whose comment is not empty and blanks a one-character comment
		var mbb []map[string]string
		for _, k := range sortedKeys(c.BB) {
			cm := c.BB[k]
			if cm == "" {
				continue
			}
			if len(cm) == 1 {
				cm = ""
			}
			mbb = append(mbb, map[string]string{"key": k, "comment": cm})
		}
		reqs = append(reqs, map[string]any{"op": "sd.gen", "module": c.Model.oracleModule(), "app": c.App, "ep": c.Ep, "blackboxes": mbb})
	}
	reps, err := RunOracleChunks(reqs, 8)
	if err != nil {
		res.Disagree(Disagreement{What: "oracle failed: " + err.Error()})
		return
	}
	for i, o := range all {
		rep := reps[i]
		res.Traces++
		evs, head, headCount, unknown := parseSd(o.text)
		for _, u := range unknown {
			res.Disagree(Disagreement{Input: o.c, What: "PlantUML line outside the modelled subset", Impl: u})
		}
		ref, missing := o.c.Model.refArrows(o.c.App, o.c.Ep, o.c.BB)
		txt := o.c.Model.text()
		nontrivial := strings.Contains(txt, "            ") && len(ref) > 1
		res.Eval(txt+"|"+o.c.App+"|"+o.c.Ep, nontrivial)
		// ---- correspondence ----
		if mstr(rep, "error") != "" {
			if o.err == "" {
				res.Disagree(Disagreement{Input: o.c, What: "model reports a missing call target, implementation returned a diagram", Model: rep})
				// whatever is returned as a diagram has to be one: participants, blocks and activations are checked
				// on it all the same (the arrows are not: the call tree has no arrow for a target that is not there)
				c13Direct(res, o.c, evs, head, headCount, ref, true)
			}
			res.Count("missing-target-error")
			continue
		}
		if mbool(rep, "diverges") {
			res.Disagree(Disagreement{Input: o.c, What: "model ran out of fuel"})
			continue
		}
		if o.err != "" {
			res.Disagree(Disagreement{Input: o.c, What: "implementation returned an error, model a diagram", Impl: o.err})
			continue
		}
		if mbool(rep, "wf") {
			res.Count("hypothesis-wfNodes-holds")
		} else {
			res.Disagree(Disagreement{Input: o.c, What: "model output tree is not well formed (hypothesis of sd_blocks_balanced)"})
		}
		var mev []string
		if l, ok := rep["events"].([]any); ok {
			for _, e := range l {
				mev = append(mev, fmt.Sprint(e))
			}
		}
		var iev []string
		for _, e := range evs {
			switch e.Kind {
			case "arrow", "ret":
				iev = append(iev, fmt.Sprintf("[%s %s %s]", e.Kind, e.A, e.B))
			case "self", "act", "deact", "note":
				iev = append(iev, fmt.Sprintf("[%s %s]", e.Kind, e.A))
			case "open":
				iev = append(iev, fmt.Sprintf("[open %s]", e.A))
			default:
				iev = append(iev, fmt.Sprintf("[%s]", e.Kind))
			}
		}
		if strings.Join(mev, " ") != strings.Join(iev, " ") {
			res.Disagree(Disagreement{Input: o.c, What: "event sequence differs", Model: mev, Impl: iev})
		}
		// participants: model allocation order vs head labels
		mp := mstrs(rep, "participants")
		for k, name := range mp {
			if head[fmt.Sprintf("_%d", k)] != name {
				res.Disagree(Disagreement{Input: o.c, What: "participant table differs", Model: mp, Impl: head})
				break
			}
		}
		// ---- direct oracle on the real text ----
		c13Direct(res, o.c, evs, head, headCount, ref, missing)
		if i%(len(all)/4+1) == 0 {
			res.Sample(map[string]any{"start": o.c.App + " <- " + o.c.Ep, "events": iev, "participants": head})
		}
	}
}

func c13Direct(res *Result, c c13Case, evs []sdEv, head map[string]string, headCount map[string]int, ref [][2]string, missing bool) {
	// participants declared exactly once, every used alias declared
	used := map[string]bool{}
	for _, e := range evs {
		for _, x := range []string{e.A, e.B} {
			if strings.HasPrefix(x, "_") {
				used[x] = true
			}
		}
	}
	for a := range used {
		if headCount[a] != 1 {
			res.Violate(Violation{Sig: "participant-not-declared-once", What: fmt.Sprintf("participant %s is declared %d times", a, headCount[a]), Input: c})
		}
	}
	// blocks
	depth := 0
	var kinds []string
	for _, e := range evs {
		switch e.Kind {
		case "open":
			depth++
			kinds = append(kinds, e.A)
		case "else":
			if depth == 0 || kinds[len(kinds)-1] != "alt" {
				res.Violate(Violation{Sig: "else-outside-alt", What: "an else line outside an alt block", Input: c})
			}
		case "end":
			if depth == 0 {
				res.Violate(Violation{Sig: "end-without-block", What: "an end line with no open block", Input: c})
			} else {
				depth--
				kinds = kinds[:len(kinds)-1]
			}
		}
	}
	if depth != 0 {
		res.Violate(Violation{Sig: "block-not-closed", What: "an opened block is never closed", Input: c})
	}
	// activations
	suppressed := map[string]bool{}
	for al, name := range head {
		if a := c.Model.app(name); a != nil && (a.Human || a.Cron) {
			suppressed[al] = true
		}
	}
	active := map[string]int{}
	recursionWithPayload := c.Model.hasInProgressCallWithPayload(c.App, c.Ep)
	for _, e := range evs {
		switch e.Kind {
		case "act":
			active[e.A]++
		case "deact":
			active[e.A]--
			if active[e.A] < 0 {
				res.Violate(Violation{Sig: "deactivate-below-zero", What: "deactivate of a participant that is not active", Input: c})
			}
		case "arrow":
			if e.A != "[" && !suppressed[e.A] && active[e.A] <= 0 {
				sig := "sender-not-active"
				if recursionWithPayload {
					sig = "sender-not-active:after-call-to-endpoint-in-progress-with-return-payload"
				}
				res.Violate(Violation{Sig: sig, What: fmt.Sprintf("%s sends a call while it is not active", head[e.A]), Input: c})
			}
		}
	}
	for a, n := range active {
		if n != 0 {
			sig := "activation-unbalanced"
			if recursionWithPayload {
				sig = "activation-unbalanced:after-call-to-endpoint-in-progress-with-return-payload"
			}
			res.Violate(Violation{Sig: sig, What: fmt.Sprintf("activations and deactivations of %s do not pair up (%+d)", head[a], n), Input: c})
		}
	}
	// arrows = reference walk
	if !missing {
		var got [][2]string
		for _, e := range evs {
			if e.Kind == "arrow" {
				from := "["
				if e.A != "[" {
					from = head[e.A]
				}
				got = append(got, [2]string{from, head[e.B]})
			}
		}
		if fmt.Sprint(got) != fmt.Sprint(ref) {
			res.Violate(Violation{Sig: "arrows-differ-from-call-tree", What: "the call arrows are not the calls reachable from the start in source order (in-progress calls shown once, not expanded)", Input: c, Got: got, Want: ref})
		}
	}
}

// hasInProgressCallWithPayload: does the walk from the start reach a call to an endpoint that is
// in progress and whose formatted return payload is non-empty?
func (m *sdModel) hasInProgressCallWithPayload(app, ep string) bool {
	found := false
	inProgress := map[string]bool{}
	var firstRet func(ss []gStmt) (string, bool)
	firstRet = func(ss []gStmt) (string, bool) {
		for _, s := range ss {
			switch s.Kind {
			case "ret":
				return s.Text, true
			case "call", "action":
				continue
			case "alt":
				for _, a := range s.Alts {
					if p, _ := firstRet(a); p != "" {
						return p, true
					}
				}
			default:
				if p, _ := firstRet(s.Body); p != "" {
					return p, true
				}
			}
		}
		return "", false
	}
	var visit func(app, ep string, depth int)
	var walk func(app string, ss []gStmt, depth int)
	visit = func(app, ep string, depth int) {
		a := m.app(app)
		if a == nil || a.ep(ep) == nil || depth > 40 {
			return
		}
		e := a.ep(ep)
		key := app + " <- " + ep
		if len(e.Stmts) == 0 {
			return
		}
		if inProgress[key] {
			if p, _ := firstRet(e.Stmts); sdFmtPayload(p) != "" {
				found = true
			}
			return
		}
		inProgress[key] = true
		walk(app, e.Stmts, depth+1)
		delete(inProgress, key)
	}
	walk = func(app string, ss []gStmt, depth int) {
		for _, s := range ss {
			if s.Kind == "call" {
				visit(s.App, s.Ep, depth)
			}
			walk(app, s.Body, depth)
			for _, a := range s.Alts {
				walk(app, a, depth)
			}
		}
	}
	visit(app, ep, 0)
	return found
}

func c13Corpus() []*sdModel {
	call := func(a, e string) gStmt { return gStmt{Kind: "call", App: a, Ep: e} }
	return []*sdModel{
		// DESIGN §11 C13: recursive call to an in-progress endpoint with a return payload
		{Apps: []sdApp{
			{Name: "Alpha", Eps: []gEp{{Name: "aOp0", Stmts: []gStmt{call("Beta", "bOp0"), call("Beta", "bOp1"), {Kind: "ret", Text: "ok <: Thing"}}}}},
			{Name: "Beta", Eps: []gEp{
				{Name: "bOp0", Stmts: []gStmt{call("Alpha", "aOp0")}},
				{Name: "bOp1", Stmts: []gStmt{{Kind: "action", Text: "work"}}}}},
		}},
	}
}

var _ = sort.Strings
