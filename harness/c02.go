package main

// C02 — the compiled model says exactly what the specification text declares.
// An abstract description of a system (dFile) is generated, rendered to Sysl text with
// randomised but legal surface choices, compiled by the real parser, and the resulting module,
// dumped generically as (path, value) rows, is compared with the rows the Lean model
// `SyslModel.Compile.compile` derives from the description alone (oracle op compile.rows).
// A direct, model-free census (every declared name is present; counts match) decides whether a
// disagreement is the implementation's or the model's.

import (
	"bytes"
	"encoding/json"
	"fmt"
	"os"
	"sort"
	"strings"

	"github.com/anz-bank/sysl/pkg/sysl"
	"google.golang.org/protobuf/proto"
)

// ---------- abstract description ----------

type dAttrVal struct {
	S   string     `json:"s"`
	A   []dAttrVal `json:"a"`
	Arr bool       `json:"arr"`
}
type dKV struct {
	K string   `json:"k"`
	V dAttrVal `json:"v"`
}
type dAttrs struct {
	Tags []string `json:"tags"`
	KV   []dKV    `json:"kv"`
	// ForceAnno: the named values are written as annotation lines (`@k = v`) whatever the layout would choose
	ForceAnno bool `json:"-"`
}
type dType struct {
	Wrap    string   `json:"wrap"` // "", "set", "seq"
	Prim    string   `json:"prim"` // "" = reference
	Size    string   `json:"size"` // "", "max", "range", "dec"
	N1      int      `json:"n1"`
	N2      int      `json:"n2"`
	RefApp  []string `json:"refapp"`
	RefPath []string `json:"refpath"`
	Opt     bool     `json:"opt"`
}
type dField struct {
	Name  string `json:"name"`
	Ty    dType  `json:"ty"`
	Attrs dAttrs `json:"attrs"`
}
type dEnumItem struct {
	Name string `json:"name"`
	Val  int64  `json:"val"`
}
type dTypeDecl struct {
	Name        string      `json:"name"`
	Kind        string      `json:"kind"` // type table enum alias union
	Attrs       dAttrs      `json:"attrs"`
	Fields      []dField    `json:"fields"`
	Items       []dEnumItem `json:"items"`
	Alias       dType       `json:"alias"`
	Members     []dType     `json:"members"`
	Nested      []dTypeDecl `json:"-"` // types declared inside this one (the model sees them flattened: Outer.Inner)
	Placeholder bool        `json:"-"` // written `!type Name: ...` (a further declaration of a type declared in full elsewhere)
}
type dChoice struct {
	Cond string  `json:"cond"`
	Body []dStmt `json:"body"`
}
type dStmt struct {
	K       string    `json:"k"` // action call ret cond group loop foreach alt
	T       string    `json:"t"`
	Target  []string  `json:"target"` // call: application parts; empty = the application itself
	Mode    string    `json:"mode"`   // loop: UNTIL WHILE
	Body    []dStmt   `json:"body"`
	Choices []dChoice `json:"choices"`
	Attrs   dAttrs    `json:"attrs"`
	kw      string    // surface keyword for group: "", "for", "loop", "alt"
	doc     []string  // a doc-string: the lines written as `| line`
}
type dParam struct {
	Name  string `json:"name"`
	Ty    dType  `json:"ty"`
	Attrs dAttrs `json:"attrs"`
}
type dEp struct {
	shortcut bool     // written `Name: ...` on one line (no statement)
	Name     string   `json:"name"`
	Long     string   `json:"long"`
	Params   []dParam `json:"params"`
	Attrs    dAttrs   `json:"attrs"`
	Stmts    []dStmt  `json:"stmts"`
	Event    bool     `json:"event"`
}
type dSeg struct {
	Lit string `json:"lit"` // unescaped literal text
	Var string `json:"var"`
	Ty  dType  `json:"ty"`
	src string // escaped surface form of Lit
}
type dQ struct {
	Name string `json:"name"`
	Ty   dType  `json:"ty"`
}
type dMethod struct {
	Verb   string   `json:"verb"`
	Query  []dQ     `json:"query"`
	Params []dParam `json:"params"`
	Attrs  dAttrs   `json:"attrs"`
	Stmts  []dStmt  `json:"stmts"`
}
type dRest struct {
	Segs     []dSeg    `json:"segs"`
	Attrs    dAttrs    `json:"attrs"`
	Methods  []dMethod `json:"methods"`
	Children []dRest   `json:"children"`
}
type dTemplate struct {
	K      string   `json:"k"` // call | endpoint
	T      string   `json:"t"`
	Target []string `json:"target"`
	Attrs  dAttrs   `json:"attrs"`
}
type dSub struct {
	Pub   []string `json:"pub"`
	Event string   `json:"event"`
	Attrs dAttrs   `json:"attrs"`
	Stmts []dStmt  `json:"stmts"`
}
type dApp struct {
	Collector []dTemplate `json:"collector"`
	Subs      []dSub      `json:"subs"`
	Parts     []string    `json:"parts"`
	Long      string      `json:"long"`
	Attrs     dAttrs      `json:"attrs"`
	Mixins    [][]string  `json:"mixins"`
	Types     []dTypeDecl `json:"types"`
	Eps       []dEp       `json:"eps"`
	Rest      []dRest     `json:"rest"`
}
type dFile struct {
	Apps []dApp `json:"apps"`
}

// ---------- generator ----------

// the native data types of the grammar (SyslLexer.g4 NativeDataTypes)
var c02Prims = []string{"int", "int32", "int64", "float", "float32", "float64", "string", "bool", "date", "datetime", "decimal", "any", "bytes"}

type c02Gen struct {
	r        *Rand
	apps     [][]string          // application names (parts)
	types    map[string][]string // app key -> tuple/table type names
	fields   map[string][]string // app key + "." + type -> field names
	maxDepth int
}

func appKey(parts []string) string { return strings.Join(parts, " :: ") }

func (g *c02Gen) attrs(allowKV bool) dAttrs {
	r := g.r
	a := dAttrs{Tags: []string{}, KV: []dKV{}}
	tagPool := []string{"web", "db", "internal", "beta", "pii", "v1", "human_x", "abstract_x"}
	if r.Chance(1, 3) {
		n := 1 + r.Intn(3)
		seen := map[string]bool{}
		for i := 0; i < n; i++ {
			t := Pick(r, tagPool)
			if !seen[t] {
				seen[t] = true
				a.Tags = append(a.Tags, t)
			}
		}
	}
	if allowKV && r.Chance(1, 3) {
		keys := []string{"owner", "team", "labels", "matrix", "note"}
		Shuffle(r, keys)
		n := 1 + r.Intn(3)
		for _, k := range keys[:n] {
			var v dAttrVal
			switch k {
			case "labels":
				v = dAttrVal{Arr: true, A: []dAttrVal{{S: "x"}, {S: "y z"}}}
				if r.Chance(1, 4) {
					v.A = []dAttrVal{}
				}
			case "matrix":
				v = dAttrVal{Arr: true, A: []dAttrVal{{Arr: true, A: []dAttrVal{{S: "a"}, {S: "b"}}}, {Arr: true, A: []dAttrVal{{S: "c"}}}}}
			default:
				v = dAttrVal{S: Pick(r, []string{"team a", "x", "a, b: c", "it's", "100%", "[x]", "a # b"})}
			}
			a.KV = append(a.KV, dKV{k, v})
		}
	}
	return a
}

func (g *c02Gen) ty(app []string, allowWrap bool) dType {
	r := g.r
	t := dType{RefApp: []string{}, RefPath: []string{}}
	if allowWrap {
		switch r.Intn(5) {
		case 0:
			t.Wrap = "set"
		case 1:
			t.Wrap = "seq"
		}
	}
	t.Opt = r.Chance(1, 3)
	if r.Chance(2, 5) {
		// reference
		own := g.types[appKey(app)]
		switch k := r.Intn(5); {
		case k == 0 && len(own) > 0: // local field reference T.f
			tn := Pick(r, own)
			if fs := g.fields[appKey(app)+"."+tn]; len(fs) > 0 {
				t.RefPath = []string{tn, Pick(r, fs)}
				return t
			}
			t.RefPath = []string{tn}
		case k <= 2 && len(g.apps) > 1: // another application's type
			o := Pick(r, g.apps)
			if ts := g.types[appKey(o)]; len(ts) > 0 && appKey(o) != appKey(app) {
				t.RefApp = append([]string{}, o...)
				t.RefPath = []string{Pick(r, ts)}
				return t
			}
			fallthrough
		default:
			if len(own) > 0 {
				t.RefPath = []string{Pick(r, own)}
			} else {
				t.RefPath = []string{"Missing"}
			}
		}
		return t
	}
	t.Prim = Pick(r, c02Prims)
	{
		switch t.Prim {
		case "string", "int", "bytes", "int32", "int64", "date", "datetime":
			switch r.Intn(5) {
			case 0:
				t.Size, t.N1 = "max", 1+r.Intn(300)
			case 1:
				// a range spec; on int32/int64 the bit width must survive it
				if t.Prim == "string" || t.Prim == "int" || t.Prim == "int32" || t.Prim == "int64" {
					lo := r.Intn(5)
					t.Size, t.N1, t.N2 = "range", lo, lo+1+r.Intn(50)
				}
			}
		case "decimal":
			if r.Chance(1, 2) {
				p := 2 + r.Intn(16)
				t.Size, t.N1, t.N2 = "dec", p, r.Intn(p)
			}
		}
	}
	return t
}

var c02Words = []string{"validate input", "save it", "notify", "compute total", "log", "retry later", "check stock", "x1", "do 2 things"}

func (g *c02Gen) stmts(app []string, depth, n int) []dStmt {
	r := g.r
	var out []dStmt
	for i := 0; i < n; i++ {
		k := r.Intn(14)
		if depth >= g.maxDepth && k >= 5 {
			k = r.Intn(5)
		}
		body := func() []dStmt { return g.stmts(app, depth+1, 1+r.Intn(3)) }
		switch k {
		case 0, 1:
			out = append(out, dStmt{K: "action", T: Pick(r, c02Words)})
		case 2, 3:
			s := dStmt{K: "call", T: Pick(r, c02EpNames)}
			if r.Chance(1, 4) {
				s.Target = []string{} // self call written ". <- Op"
			} else {
				s.Target = append([]string{}, Pick(r, g.apps)...)
			}
			if r.Chance(1, 5) {
				s.Attrs = g.attrs(false)
			}
			out = append(out, s)
		case 4:
			out = append(out, dStmt{K: "ret", T: Pick(r, []string{"ok <: Order", "error", "200 <: string", "ok <: sequence of Item", "404"})})
		case 5:
			out = append(out, dStmt{K: "cond", T: "if " + Pick(r, []string{"a > 1", "found", "x == \"y\"", "not done"}), Body: body()})
			// else-branches of any length
			ne := r.Intn(3)
			for e := 0; e < ne; e++ {
				if e < ne-1 || r.Bool() {
					out = append(out, dStmt{K: "cond", T: "else if " + Pick(r, []string{"b", "c < 3"}), Body: g.stmts(app, depth+1, 1+r.Intn(6))})
				} else {
					out = append(out, dStmt{K: "cond", T: "else", Body: g.stmts(app, depth+1, 1+r.Intn(7))})
				}
			}
		case 6:
			out = append(out, dStmt{K: "group", T: "for " + Pick(r, []string{"i in 1..3", "b in batches"}), Body: body(), kw: "for"})
		case 7:
			out = append(out, dStmt{K: "group", T: "loop " + Pick(r, []string{"n times", "forever"}), Body: body(), kw: "loop"})
		case 8:
			out = append(out, dStmt{K: "group", T: "alt " + Pick(r, []string{"first", "cached"}), Body: body(), kw: "alt"})
		case 9:
			out = append(out, dStmt{K: "loop", Mode: Pick(r, []string{"UNTIL", "WHILE"}), T: Pick(r, []string{"done", "more items"}), Body: body()})
		case 10:
			out = append(out, dStmt{K: "foreach", T: Pick(r, []string{"item in items", "o in orders"}), Body: body()})
		case 11:
			nc := 1 + r.Intn(3)
			s := dStmt{K: "alt"}
			for c := 0; c < nc; c++ {
				s.Choices = append(s.Choices, dChoice{Cond: fmt.Sprintf("case %d", c), Body: body()})
			}
			out = append(out, s)
		case 12:
			out = append(out, dStmt{K: "group", T: Pick(r, []string{"grp", "phase two"}), Body: body()})
		default:
			// a doc-string of one or more lines (never directly after another one: they would join)
			if len(out) == 0 || out[len(out)-1].doc == nil {
				lines := []string{"what this does"}
				if r.Bool() {
					lines = append(lines, "second line: details")
				}
				out = append(out, dStmt{K: "action", T: "| " + strings.Join(lines, " "), doc: lines})
			} else {
				out = append(out, dStmt{K: "action", T: Pick(r, c02Words)})
			}
		}
	}
	return out
}

var c02EpNames = []string{"Op0", "Op1", "Op 2"}

func genDFile(r *Rand, tier string) *dFile {
	g := &c02Gen{r: r, types: map[string][]string{}, fields: map[string][]string{}, maxDepth: 3}
	if tier == "thorough" {
		g.maxDepth = 5
	}
	pool := [][]string{{"Shop"}, {"Ns", "Billing"}, {"Ledger"}, {"My App", "Sub-One"}, {"Ns", "Deep", "Bank"}, {"Base"}}
	Shuffle(r, pool)
	n := 1 + r.Intn(4)
	g.apps = pool[:n]
	// decide names first so that references can be drawn
	nTypes := make([]int, n)
	// a chain of mixins through an application that declares no type itself (a grouping application)
	emptyMiddle := n >= 3 && r.Chance(1, 5)
	for i, a := range g.apps {
		nTypes[i] = r.Intn(5)
		if emptyMiddle && i == 1 {
			nTypes[i] = 0
		}
		if emptyMiddle && i == 2 && nTypes[i] == 0 {
			nTypes[i] = 2
		}
		for t := 0; t < nTypes[i]; t++ {
			tn := fmt.Sprintf("T%d", t)
			if r.Chance(1, 6) {
				tn = fmt.Sprintf("Order-%d", t)
			}
			g.types[appKey(a)] = append(g.types[appKey(a)], tn)
			nf := 1 + r.Intn(5)
			for f := 0; f < nf; f++ {
				fname := fmt.Sprintf("f%d", f)
				if r.Chance(1, 8) {
					fname = fmt.Sprintf("f-%d", f)
				}
				g.fields[appKey(a)+"."+tn] = append(g.fields[appKey(a)+"."+tn], fname)
			}
		}
	}
	f := &dFile{}
	var events []struct {
		app  []string
		name string
	}
	for i, parts := range g.apps {
		a := dApp{Parts: parts, Attrs: g.attrs(true), Mixins: [][]string{}, Collector: []dTemplate{}, Subs: []dSub{}}
		if r.Chance(1, 4) {
			a.Long = Pick(r, []string{"Long Name", "The shop (v2)"})
		}
		// mixins: any other application, chains and cycles included (what is mixed in is what the
		// applications reached declare themselves, first met first)
		if n > 1 && r.Chance(1, 3) {
			others := []int{}
			for j := 0; j < n; j++ {
				if j != i {
					others = append(others, j)
				}
			}
			Shuffle(r, others)
			for _, j := range others[:1+r.Intn(min(2, len(others)))] {
				a.Mixins = append(a.Mixins, g.apps[j])
			}
		}
		if emptyMiddle && i < 2 {
			a.Mixins = [][]string{g.apps[i+1]}
		}
		for t, tn := range g.types[appKey(parts)] {
			td := dTypeDecl{Name: tn, Attrs: g.attrs(true), Fields: []dField{}, Items: []dEnumItem{}, Members: []dType{}}
			switch k := r.Intn(8); {
			case k <= 3:
				td.Kind = "type"
			case k == 4:
				td.Kind = "table"
			default:
				td.Kind = "type"
			}
			compositePK := r.Chance(1, 3)
			for fi, fn := range g.fields[appKey(parts)+"."+tn] {
				fd := dField{Name: fn, Ty: g.ty(parts, true), Attrs: g.attrs(true)}
				if td.Kind == "table" && (fi == 0 || (fi == 1 && compositePK)) {
					fd.Attrs.Tags = append([]string{"pk"}, fd.Attrs.Tags...)
				}
				td.Fields = append(td.Fields, fd)
			}
			if (td.Kind == "type" || td.Kind == "table") && r.Chance(1, 5) {
				// a type declared inside this one
				in := dTypeDecl{Name: "In", Kind: Pick(r, []string{"type", "type", "table"}), Attrs: g.attrs(false), Items: []dEnumItem{}, Members: []dType{}}
				for k := 0; k < 1+r.Intn(3); k++ {
					nf := dField{Name: fmt.Sprintf("n%d", k), Ty: dType{Prim: Pick(r, c02Prims), RefApp: []string{}, RefPath: []string{}, Opt: r.Chance(1, 3)}, Attrs: emptyAttrs()}
					if in.Kind == "table" && k == 0 {
						nf.Attrs.Tags = []string{"pk"}
					}
					in.Fields = append(in.Fields, nf)
				}
				td.Nested = append(td.Nested, in)
			}
			a.Types = append(a.Types, td)
			_ = t
		}
		// enums, aliases, unions beside the tuple types
		if r.Chance(1, 2) && !(emptyMiddle && i == 1) {
			td := dTypeDecl{Name: "Status", Kind: "enum", Attrs: g.attrs(false), Fields: []dField{}, Members: []dType{}}
			vals := []int64{1, 2, 3, 65536, 4294967296, 9007199254740993, 0}
			Shuffle(r, vals)
			for k := 0; k < 1+r.Intn(4); k++ {
				td.Items = append(td.Items, dEnumItem{fmt.Sprintf("V%d", k), vals[k]})
			}
			a.Types = append(a.Types, td)
		}
		if r.Chance(1, 3) && !(emptyMiddle && i == 1) {
			a.Types = append(a.Types, dTypeDecl{Name: "Alias1", Kind: "alias", Attrs: g.attrs(false), Alias: g.aliasTy(parts), Fields: []dField{}, Items: []dEnumItem{}, Members: []dType{}})
		}
		if r.Chance(1, 3) && !(emptyMiddle && i == 1) {
			td := dTypeDecl{Name: "Union1", Kind: "union", Attrs: g.attrs(false), Fields: []dField{}, Items: []dEnumItem{}}
			seenM := map[string]bool{}
			for k := 0; k < 1+r.Intn(3); k++ {
				m := g.ty(parts, false)
				m.Opt, m.Size = false, ""
				if key := renderType(m); !seenM[key] { // a union lists each member once
					seenM[key] = true
					td.Members = append(td.Members, m)
				}
			}
			a.Types = append(a.Types, td)
		}
		// endpoints
		ne := 1 + r.Intn(3)
		for e := 0; e < ne; e++ {
			ep := dEp{Name: c02EpNames[e], Attrs: g.attrs(true), Params: []dParam{}}
			if r.Chance(1, 5) {
				ep.Long = "does things"
			}
			for p := 0; p < r.Intn(4); p++ {
				pn := fmt.Sprintf("p%d", p)
				if r.Chance(1, 8) {
					pn = fmt.Sprintf("p-%d", p)
				} else if r.Chance(1, 3) {
					pn = fmt.Sprintf("f%d", p) // parameters often carry the name of a column (`id`)
				}
				ep.Params = append(ep.Params, dParam{Name: pn, Ty: g.ty(parts, true), Attrs: dAttrs{Tags: []string{}, KV: []dKV{}}})
			}
			ep.Stmts = g.stmts(parts, 0, 1+r.Intn(5))
			a.Eps = append(a.Eps, ep)
		}
		// subscriptions to events of applications written earlier
		for _, pe := range events {
			if r.Chance(1, 2) {
				a.Subs = append(a.Subs, dSub{Pub: pe.app, Event: pe.name, Attrs: g.attrs(true), Stmts: g.stmts(parts, 2, 1+r.Intn(2))})
			}
		}
		// a collector block: attributes for calls and for endpoints, declared apart from them
		if r.Chance(1, 3) {
			for k := 0; k < 1+r.Intn(3); k++ {
				// the grammar wants attributes on every collector statement
				ta := g.attrs(true)
				if len(ta.Tags) == 0 && len(ta.KV) == 0 {
					ta.Tags = []string{Pick(r, []string{"traced", "audited"})}
				}
				if n := len(a.Collector); n > 0 && a.Collector[n-1].K == "call" && r.Chance(1, 2) {
					// a second template for the same call, adding to the same array attributes
					prev := a.Collector[n-1]
					a.Collector = append(a.Collector, dTemplate{K: "call", T: prev.T, Target: prev.Target, Attrs: dAttrs{Tags: []string{Pick(r, []string{"second", "extra"})}, KV: []dKV{}}})
				} else if r.Chance(2, 3) {
					a.Collector = append(a.Collector, dTemplate{K: "call", T: Pick(r, c02EpNames), Target: append([]string{}, Pick(r, g.apps)...), Attrs: ta})
				} else {
					ep := a.Eps[r.Intn(len(a.Eps))]
					if n := len(ep.Attrs.Tags); n > 0 && r.Bool() {
						// the template's tags begin with the tag the endpoint's own list ends on
						ta.Tags = append([]string{ep.Attrs.Tags[n-1]}, Pick(r, [][]string{{"audited"}, {"audited", "traced"}, {ep.Attrs.Tags[n-1], "audited"}})...)
					}
					a.Collector = append(a.Collector, dTemplate{K: "endpoint", T: ep.Name, Target: []string{}, Attrs: ta})
				}
			}
		}
		if r.Chance(1, 3) {
			events = append(events, struct {
				app  []string
				name string
			}{parts, fmt.Sprintf("Evt%d", i)})
			ev := dEp{Name: fmt.Sprintf("Evt%d", i), Event: true, Attrs: g.attrs(false), Params: []dParam{}, Stmts: []dStmt{{K: "action", T: "..."}}}
			if r.Bool() {
				ev.Params = append(ev.Params, dParam{Name: "e", Ty: g.ty(parts, false), Attrs: dAttrs{Tags: []string{}, KV: []dKV{}}})
			}
			a.Eps = append(a.Eps, ev)
		}
		if r.Chance(1, 2) {
			a.Rest = append(a.Rest, g.rest(parts, 0, fmt.Sprintf("r%d", i)))
		}
		f.Apps = append(f.Apps, a)
	}
	if r.Bool() {
		// any order of the applications: a subscriber may be written before the application that publishes
		Shuffle(r, f.Apps)
	}
	return f
}

func (g *c02Gen) aliasTy(app []string) dType {
	t := g.ty(app, true)
	t.Opt = false
	t.Size = ""
	return t
}

var c02Verbs = []string{"GET", "POST", "PUT", "DELETE", "PATCH"}

func (g *c02Gen) rest(app []string, depth int, stem string) dRest {
	r := g.r
	n := dRest{Attrs: g.attrs(depth == 0 && r.Bool()), Segs: []dSeg{}, Methods: []dMethod{}, Children: []dRest{}}
	lits := []struct{ lit, src string }{{"orders", "orders"}, {"v1", "v1"}, {"a b", "a%20b"}, {"x-y", "x-y"}, {"items", "items"}, {"q?x", "q%3Fx"}}
	// the first segment is unique to the node, so that no two methods share an endpoint name
	n.Segs = append(n.Segs, dSeg{Lit: "n" + stem, src: "n" + stem})
	ns := r.Intn(3)
	for s := 0; s < ns; s++ {
		if r.Chance(1, 3) {
			vt := dType{Prim: Pick(r, []string{"int", "string", "int32", "int64"}), RefApp: []string{}, RefPath: []string{}}
			n.Segs = append(n.Segs, dSeg{Var: fmt.Sprintf("%s_%d_%d", stem, depth, s), Ty: vt})
		} else {
			l := Pick(r, lits)
			n.Segs = append(n.Segs, dSeg{Lit: l.lit, src: l.src})
		}
	}
	verbs := append([]string{}, c02Verbs...)
	Shuffle(r, verbs)
	nm := r.Intn(3)
	if depth >= 2 && nm == 0 {
		nm = 1
	}
	for m := 0; m < nm; m++ {
		md := dMethod{Verb: verbs[m], Attrs: g.attrs(r.Bool()), Query: []dQ{}, Params: []dParam{}}
		for q := 0; q < r.Intn(4); q++ {
			qt := dType{Prim: Pick(r, []string{"int", "string", "bool", "int32", "date"}), RefApp: []string{}, RefPath: []string{}, Opt: r.Chance(1, 3)}
			if r.Chance(1, 5) {
				if own := g.types[appKey(app)]; len(own) > 0 {
					qt = dType{RefPath: []string{Pick(r, own)}, RefApp: []string{}, Opt: r.Chance(1, 3)}
				}
			}
			md.Query = append(md.Query, dQ{fmt.Sprintf("q%d", q), qt})
		}
		if (md.Verb == "POST" || md.Verb == "PUT") && r.Bool() {
			md.Params = append(md.Params, dParam{Name: "body", Ty: g.ty(app, false), Attrs: dAttrs{Tags: []string{"body"}, KV: []dKV{}}})
		}
		md.Stmts = g.stmts(app, 1, 1+r.Intn(3))
		n.Methods = append(n.Methods, md)
	}
	if depth < 2 {
		nc := r.Intn(3)
		if nm == 0 && nc == 0 {
			nc = 1
		}
		for c := 0; c < nc; c++ {
			n.Children = append(n.Children, g.rest(app, depth+1, fmt.Sprintf("%s%d", stem, c)))
		}
	}
	return n
}

// esc writes a name the way the grammar wants it: characters that are not name characters are
// URL-escaped (the compiler unescapes them)
func esc(name string) string {
	return strings.NewReplacer("-", "%2D", " ", "%20", ":", "%3A", "\"", "%22", "\\", "%5C").Replace(name)
}

func escParts(parts []string) string {
	out := make([]string, len(parts))
	for i, p := range parts {
		out[i] = esc(p)
	}
	return strings.Join(out, " :: ")
}

// ---------- renderer: legal surface syntax with randomised choices ----------

// c08Mark: where the renderer wrote the first character of an element's own declaration
type c08Mark struct {
	Path string `json:"path"` // path of the element in the generic dump of the module
	File string `json:"file"`
	Line int    `json:"line"` // zero-based
	Col  int    `json:"col"`
	Tok  string `json:"tok"` // the text written there (self-check of the oracle)
}

type c02Layout struct {
	path     []string
	marks    *[]c08Mark
	file     string
	stmtBase map[string]int // endpoint path -> number of statements written by earlier declarations
	r        *Rand
	unit     string
	quote    byte
	annoBody bool // write key="value" attributes as @key = "value" lines where the grammar allows
}

func (l *c02Layout) push(seg string) { l.path = append(l.path, seg) }
func (l *c02Layout) pop()            { l.path = l.path[:len(l.path)-1] }
func (l *c02Layout) cur() string     { return strings.Join(l.path, "") }

// mark records that the element at the current path is about to be written after `ind` on the
// line the builder is at
func (l *c02Layout) mark(b *strings.Builder, ind string, tok string) {
	if l.marks == nil {
		return
	}
	*l.marks = append(*l.marks, c08Mark{Path: l.cur(), File: l.file, Line: strings.Count(b.String(), "\n"), Col: len(ind), Tok: tok})
}

func (l *c02Layout) q(s string) string {
	if c09EscapeMode {
		// a double-quoted string is read as a JSON string: any text can be written
		var jb bytes.Buffer
		enc := json.NewEncoder(&jb)
		enc.SetEscapeHTML(false)
		_ = enc.Encode(s)
		return strings.TrimSuffix(jb.String(), "\n")
	}
	qc := l.quote
	if strings.ContainsRune(s, rune(qc)) {
		if qc == '"' {
			qc = '\''
		} else {
			qc = '"'
		}
	}
	return string(qc) + s + string(qc)
}

func (l *c02Layout) attrVal(v dAttrVal) string {
	if !v.Arr {
		return l.q(v.S)
	}
	var parts []string
	for _, e := range v.A {
		parts = append(parts, l.attrVal(e))
	}
	sep := ", "
	if l.r.Chance(1, 4) {
		sep = ","
	}
	return "[" + strings.Join(parts, sep) + "]"
}

// inline renders [~a, ~b, k="v"]; when body is true the key/value entries are left for annotation lines
func (l *c02Layout) inline(a dAttrs, kvInline bool) string {
	var parts []string
	for _, t := range a.Tags {
		parts = append(parts, "~"+t)
	}
	if kvInline {
		for _, kv := range a.KV {
			parts = append(parts, kv.K+"="+l.attrVal(kv.V))
		}
	}
	if len(parts) == 0 {
		return ""
	}
	sep := ", "
	if l.r.Chance(1, 4) {
		sep = ","
	}
	return " [" + strings.Join(parts, sep) + "]"
}

func (l *c02Layout) annoLines(b *strings.Builder, ind string, a dAttrs) {
	for _, kv := range a.KV {
		l.push(fmt.Sprintf(".attrs[%q]", kv.K))
		l.mark(b, ind, "@"+kv.K)
		l.pop()
		fmt.Fprintf(b, "%s@%s = %s\n", ind, kv.K, l.attrVal(kv.V))
	}
}

func (l *c02Layout) filler(b *strings.Builder, ind string) {
	switch l.r.Intn(8) {
	case 0:
		b.WriteString("\n")
	case 1:
		b.WriteString(ind + "# a comment: with [brackets] and <: symbols\n")
	case 2:
		b.WriteString("\n\n")
	}
}

func renderType(t dType) string {
	var s string
	if t.Prim != "" {
		s = t.Prim
		switch t.Size {
		case "max":
			s += fmt.Sprintf("(%d)", t.N1)
		case "range":
			s += fmt.Sprintf("(%d..%d)", t.N1, t.N2)
		case "dec":
			s += fmt.Sprintf("(%d.%d)", t.N1, t.N2)
		}
	} else {
		rp := make([]string, len(t.RefPath))
		for i, x := range t.RefPath {
			rp[i] = esc(x)
		}
		s = strings.Join(rp, ".")
		if len(t.RefApp) > 0 {
			s = escParts(t.RefApp) + "." + s
		}
	}
	switch t.Wrap {
	case "set":
		s = "set of " + s
	case "seq":
		s = "sequence of " + s
	}
	if t.Opt {
		s += "?"
	}
	return s
}

func (l *c02Layout) stmts(b *strings.Builder, ind string, ss []dStmt) {
	l.stmtsFrom(b, ind, ss, 0)
}

func (l *c02Layout) stmtsFrom(b *strings.Builder, ind string, ss []dStmt, base int) {
	for i, s := range ss {
		if l.r.Chance(1, 10) {
			l.filler(b, ind)
		}
		l.push(fmt.Sprintf(".stmt[%d]", base+i))
		if s.doc == nil {
			l.mark(b, ind, "")
		}
		l.c08Stmt(b, ind, s)
		l.pop()
	}
}

func (l *c02Layout) c08Stmt(b *strings.Builder, ind string, s dStmt) {
	{
		switch s.K {
		case "action":
			if s.doc != nil {
				for _, d := range s.doc {
					b.WriteString(ind + "| " + d + "\n")
				}
			} else {
				b.WriteString(ind + s.T + "\n")
			}
		case "call":
			tgt := escParts(s.Target)
			if len(s.Target) == 0 {
				b.WriteString(ind + ". <- " + esc(s.T) + l.inline(s.Attrs, true) + "\n")
			} else {
				b.WriteString(ind + tgt + " <- " + esc(s.T) + l.inline(s.Attrs, true) + "\n")
			}
		case "ret":
			b.WriteString(ind + "return " + s.T + "\n")
		case "cond", "group", "foreach":
			head := s.T
			if s.K == "foreach" {
				head = "for each " + s.T
			}
			b.WriteString(ind + head + ":\n")
			l.push("." + s.K)
			l.stmts(b, ind+l.unit, s.Body)
			l.pop()
		case "loop":
			b.WriteString(ind + strings.ToLower(s.Mode) + " " + s.T + ":\n")
			l.push(".loop")
			l.stmts(b, ind+l.unit, s.Body)
			l.pop()
		case "alt":
			b.WriteString(ind + "one of:\n")
			for ci, c := range s.Choices {
				b.WriteString(ind + l.unit + c.Cond + ":\n")
				l.push(fmt.Sprintf(".alt.choice[%d]", ci))
				l.stmts(b, ind+l.unit+l.unit, c.Body)
				l.pop()
			}
		}
	}
}

func (l *c02Layout) params(ps []dParam) string {
	if len(ps) == 0 {
		return ""
	}
	var parts []string
	for _, p := range ps {
		parts = append(parts, esc(p.Name)+" <: "+renderType(p.Ty)+l.inline(p.Attrs, true))
	}
	return " (" + strings.Join(parts, ", ") + ")"
}

func (l *c02Layout) rest(b *strings.Builder, ind string, n dRest) { l.restAt(b, ind, n, "") }

func (l *c02Layout) restAt(b *strings.Builder, ind string, n dRest, prefix string) {
	var path strings.Builder
	modelPath := prefix
	for _, s := range n.Segs {
		if s.Var != "" {
			modelPath += "/{" + s.Var + "}"
		} else {
			modelPath += "/" + s.Lit
		}
		if s.Var != "" {
			fmt.Fprintf(&path, "/{%s <: %s}", esc(s.Var), renderType(s.Ty))
		} else {
			src := s.src
			if src == "" {
				src = s.Lit
			}
			path.WriteString("/" + src)
		}
	}
	kvInline := !l.annoBody || l.r.Bool()
	b.WriteString(ind + path.String() + l.inline(n.Attrs, kvInline) + ":\n")
	if !kvInline {
		// inherited by every method below: not an element of its own in the module
		saved := l.marks
		l.marks = nil
		l.annoLines(b, ind+l.unit, n.Attrs)
		l.marks = saved
	}
	for _, m := range n.Methods {
		l.filler(b, ind+l.unit)
		q := ""
		if len(m.Query) > 0 {
			var qs []string
			for _, qp := range m.Query {
				t := qp.Ty.Prim
				if t == "" {
					t = "{" + esc(qp.Ty.RefPath[0]) + "}"
				}
				if qp.Ty.Opt {
					t += "?"
				}
				qs = append(qs, esc(qp.Name)+"="+t)
			}
			q = " ?" + strings.Join(qs, "&")
		}
		l.push(fmt.Sprintf(".endpoints[%q]", m.Verb+" "+modelPath))
		l.mark(b, ind+l.unit, m.Verb)
		b.WriteString(ind + l.unit + m.Verb + l.params(m.Params) + q + l.inline(m.Attrs, true) + ":\n")
		// a doc-string that opens the body is the endpoint's docstring, not a statement
		if len(m.Stmts) > 0 && m.Stmts[0].doc != nil {
			l.c08Stmt(b, ind+l.unit+l.unit, m.Stmts[0])
			l.stmtsFrom(b, ind+l.unit+l.unit, m.Stmts[1:], 0)
		} else {
			l.stmts(b, ind+l.unit+l.unit, m.Stmts)
		}
		l.pop()
	}
	for _, c := range n.Children {
		l.restAt(b, ind+l.unit, c, modelPath)
	}
}

func (l *c02Layout) typeDecl(bp *strings.Builder, u string, t dTypeDecl) {
	l.typeDeclAt(bp, u, t, t.Name)
}

// typeDeclAt writes a type at indentation ind; full is its name in the module (Outer.Inner for a nested type)
func (l *c02Layout) typeDeclAt(bp *strings.Builder, ind string, t dTypeDecl, full string) {
	u := ind
	uu := ind + l.unit
	uuu := ind + l.unit + l.unit
	b := bp
	r := l.r
	tkv := !l.annoBody || r.Bool() || t.Kind == "union"
	if t.Attrs.ForceAnno && t.Kind != "union" {
		tkv = false
	}
	l.push(fmt.Sprintf(".types[%q]", full))
	defer l.pop()
	l.mark(b, u, "!")
	switch t.Kind {
	case "type", "table":
		kw := "!type"
		if t.Kind == "table" {
			kw = "!table"
		}
		if t.Placeholder {
			// `!type Name: ...` - a declaration that says nothing about the fields
			b.WriteString(u + kw + " " + esc(t.Name) + ": ...\n")
			return
		}
		b.WriteString(u + kw + " " + esc(t.Name) + l.inline(t.Attrs, tkv) + ":\n")
		if !tkv {
			l.annoLines(b, uu, t.Attrs)
		}
		nestedAt := -1
		if len(t.Nested) > 0 {
			nestedAt = r.Intn(len(t.Fields) + 1) // before, between or after the fields
		}
		writeNested := func() {
			saved := l.path
			l.path = append([]string{}, saved[:len(saved)-1]...)
			for _, nt := range t.Nested {
				l.typeDeclAt(b, uu, nt, full+"."+nt.Name)
			}
			l.path = saved
		}
		for fi, fd := range t.Fields {
			if fi == nestedAt {
				writeNested()
			}
			if r.Chance(1, 12) {
				l.filler(b, uu)
			}
			fkv := !l.annoBody || r.Chance(2, 3) || len(fd.Attrs.KV) == 0
			if t.Kind == "table" {
				l.push(fmt.Sprintf(".relation.attr_defs[%q]", fd.Name))
			} else {
				l.push(fmt.Sprintf(".tuple.attr_defs[%q]", fd.Name))
			}
			l.mark(b, uu, esc(fd.Name))
			b.WriteString(uu + esc(fd.Name) + " <: " + renderType(fd.Ty) + l.inline(fd.Attrs, fkv))
			if !fkv {
				b.WriteString(":\n")
				l.annoLines(b, uuu, fd.Attrs)
			} else {
				b.WriteString("\n")
			}
			l.pop()
		}
		if nestedAt == len(t.Fields) {
			writeNested()
		}
	case "enum":
		b.WriteString(u + "!enum " + t.Name + l.inline(t.Attrs, true) + ":\n")
		for _, it := range t.Items {
			fmt.Fprintf(b, "%s%s%s: %d\n", u, u, it.Name, it.Val)
		}
	case "alias":
		b.WriteString(u + "!alias " + t.Name + l.inline(t.Attrs, true) + ":\n")
		b.WriteString(uu + renderType(t.Alias) + "\n")
	case "union":
		b.WriteString(u + "!union " + t.Name + l.inline(t.Attrs, true) + ":\n")
		for _, m := range t.Members {
			b.WriteString(uu + renderType(m) + "\n")
		}
	}
}

func (l *c02Layout) endpoint(b *strings.Builder, u string, e dEp) {
	l.push(fmt.Sprintf(".endpoints[%q]", e.Name))
	defer l.pop()
	if e.Event {
		l.mark(b, u, "<->")
		b.WriteString(u + "<-> " + e.Name + l.params(e.Params) + l.inline(e.Attrs, true) + ":\n")
		l.push(".stmt[0]")
		l.mark(b, u+u, "...")
		l.pop()
		b.WriteString(u + u + "...\n")
		return
	}
	long := ""
	if e.Long != "" {
		long = " " + l.q(e.Long)
	}
	// named values may also be written as annotation lines at the head of the body
	if e.shortcut {
		l.mark(b, u, esc(e.Name))
		b.WriteString(u + esc(e.Name) + ": ...\n")
		return
	}
	kvInline := !l.annoBody || l.r.Bool() || len(e.Attrs.KV) == 0
	if len(e.Stmts) == 0 {
		kvInline = false // a body of annotation lines only
	}
	l.mark(b, u, esc(e.Name))
	b.WriteString(u + esc(e.Name) + long + l.params(e.Params) + l.inline(e.Attrs, kvInline) + ":\n")
	if !kvInline {
		l.annoLines(b, u+u, e.Attrs)
	}
	base := 0
	if l.stmtBase != nil {
		base = l.stmtBase[l.cur()]
		l.stmtBase[l.cur()] = base + len(e.Stmts)
	}
	l.stmtsFrom(b, u+u, e.Stmts, base)
}

func renderDFile(f *dFile, r *Rand) string { return renderDFileMarked(f, r, "", nil, nil, "") }

// renderDFileMarked also records where each element was written (C08) and may start the file
// with import lines
func renderDFileMarked(f *dFile, r *Rand, file string, marks *[]c08Mark, stmtBase map[string]int, header string) string {
	l := &c02Layout{file: file, marks: marks, stmtBase: stmtBase, r: r, unit: Pick(r, []string{"    ", "  ", "\t", "   ", "        "}), quote: '"', annoBody: r.Bool()}
	if r.Chance(1, 3) {
		l.quote = '\''
	}
	var b strings.Builder
	b.WriteString(header)
	if r.Chance(1, 4) && !c08NoLeadingFiller {
		b.WriteString("# leading comment\n\n")
	}
	for ai, a := range f.Apps {
		if !(c08NoLeadingFiller && ai == 0) {
			l.filler(&b, "")
		}
		name := escParts(a.Parts)
		if a.Long != "" {
			name += " " + l.q(a.Long)
		}
		kvInline := !l.annoBody || r.Bool()
		l.path = []string{fmt.Sprintf("apps[%q]", appKey(a.Parts))}
		l.mark(&b, "", escParts(a.Parts))
		b.WriteString(name + l.inline(a.Attrs, kvInline) + ":\n")
		u := l.unit
		if !kvInline {
			l.annoLines(&b, u, a.Attrs)
		}
		for _, m := range a.Mixins {
			b.WriteString(u + "-|> " + escParts(m) + "\n")
		}
		// the members of an application may be written in any order
		var members []func()
		for _, t := range a.Types {
			t := t
			members = append(members, func() { l.typeDecl(&b, u, t) })
		}
		for _, e := range a.Eps {
			e := e
			members = append(members, func() { l.endpoint(&b, u, e) })
		}
		for _, n := range a.Rest {
			n := n
			members = append(members, func() { l.rest(&b, u, n) })
		}
		for _, sb := range a.Subs {
			sb := sb
			members = append(members, func() {
				l.push(fmt.Sprintf(".endpoints[%q]", appKey(sb.Pub)+" -> "+sb.Event))
				l.mark(&b, u, escParts(sb.Pub))
				b.WriteString(u + escParts(sb.Pub) + " -> " + sb.Event + l.inline(sb.Attrs, true) + ":\n")
				l.stmts(&b, u+u, sb.Stmts)
				l.pop()
			})
		}
		if len(a.Collector) > 0 {
			members = append(members, func() {
				b.WriteString(u + ".. * <- *:\n")
				for _, t := range a.Collector {
					if t.K == "call" {
						b.WriteString(u + u + escParts(t.Target) + " <- " + esc(t.T) + l.inline(t.Attrs, true) + "\n")
					} else {
						b.WriteString(u + u + esc(t.T) + l.inline(t.Attrs, true) + "\n")
					}
				}
			})
		}
		if r.Chance(2, 3) {
			Shuffle(r, members)
		}
		empty := len(members) == 0
		for _, m := range members {
			l.filler(&b, u)
			m()
		}
		if empty {
			b.WriteString(u + "...\n")
		}
	}
	return b.String()
}

// flattenNested: the description the model reads has a nested type as a type of its own named Outer.Inner
func flattenNested(d *dFile) *dFile {
	out := &dFile{}
	for _, a := range d.Apps {
		na := a
		na.Types = nil
		for _, t := range a.Types {
			nt := t
			nt.Nested = nil
			na.Types = append(na.Types, nt)
			for _, n := range t.Nested {
				fn := n
				fn.Name = t.Name + "." + n.Name
				na.Types = append(na.Types, fn)
			}
		}
		out.Apps = append(out.Apps, na)
	}
	return out
}

// ---------- harness ----------

func init() { runners["C02"] = runC02 }

func runC02(res *Result, tier string, rnd *Rand, replay string) {
	if f := os.Getenv("VERIF_C02_DUMP"); f != "" {
		b, _ := os.ReadFile(f)
		m, err := compileFiles(map[string]string{"main.sysl": string(b)}, "main.sysl")
		if err != nil {
			fmt.Println("ERR", err)
			return
		}
		for _, r := range dumpModuleRows(m) {
			fmt.Println(r)
		}
		return
	}
	if os.Getenv("VERIF_C02_GEN") != "" {
		bad := 0
		for i := 0; i < 300; i++ {
			r := rnd.Fork()
			d := genDFile(r, tier)
			text := renderDFile(d, r.Fork())
			_, err := compileFiles(map[string]string{"main.sysl": text}, "main.sysl")
			if err != nil {
				bad++
				if bad <= 3 {
					fmt.Println("=====", err)
					fmt.Println(text)
				}
			}
		}
		fmt.Println("bad", bad)
		return
	}
	res.Rule = "abstract descriptions (1-4 applications with namespaced names; tuple/table/enum/alias/union types; fields of every primitive kind with size specs, optionality, set/sequence wrapping, local, field, cross-application and namespaced references; endpoints with parameters; events; nested REST trees with path and query parameters and URL-escaped segments; statement trees of every kind; mixins; tags, string, array and nested-array attributes written inline or as annotation lines) x rendered with random indentation unit, quoting, filler lines; non-trivial = a description whose text compiles; distinct by text hash"
	n := 150
	if tier == "thorough" {
		n = 4000
	}
	type job struct {
		d    *dFile
		text string
		rows []string
		err  string
	}
	var jobs []*job
	var reqs []any
	for i := 0; i < n; i++ {
		r := rnd.Fork()
		d := genDFile(r, tier)
		text := renderDFile(d, r.Fork())
		j := &job{d: d, text: text}
		func() {
			defer Track(map[string]any{"text": text})()
			defer func() {
				if x := recover(); x != nil {
					j.err = fmt.Sprint("panic: ", x)
				}
			}()
			m, err := compileFiles(map[string]string{"main.sysl": text}, "main.sysl")
			if err != nil {
				j.err = err.Error()
				return
			}
			j.rows = dumpModuleRows(m)
		}()
		jobs = append(jobs, j)
		reqs = append(reqs, map[string]any{"op": "compile.rows", "file": flattenNested(d)})
	}
	outs, err := RunOracleChunks(reqs, workers(8))
	if err != nil {
		res.Disagree(Disagreement{What: "oracle failed: " + err.Error()})
		return
	}
	if replay == "" {
		c02OrderCorpus(res)
	}
	for i, j := range jobs {
		in := map[string]any{"text": j.text, "desc": j.d}
		if j.err != "" {
			// the generator only writes legal text: a rejection is the generator's or the compiler's fault
			res.Count("not-compiling")
			res.Violate(Violation{Sig: "well-formed-text-rejected:" + c01Site(j.err), What: "a generated, well-formed specification is rejected: " + firstLine(j.err), Input: in})
			res.Eval(hashOf(j.text), false)
			continue
		}
		res.Traces++
		res.Eval(hashOf(j.text), true)
		want := mstrs(outs[i], "rows")
		sort.Strings(want)
		missing, extra := diffSorted(want, j.rows)
		// one recorded defect has a recognisable shape: `T.f` naming a field of a local type, written
		// as the element of a set/sequence, as an alias, as a union member or as such a parameter,
		// is stored as application T, type f (the fix-up that corrects a bare `T.f` is not applied)
		if m2, e2, n := c02StripWrappedFieldRef(missing, extra); n > 0 {
			missing, extra = m2, e2
			res.Violate(Violation{Sig: "local-field-reference-in-collection-read-as-application", What: "`T.f` (field f of the local type T) written as a collection element, alias, union member or collection parameter is compiled as application T, type f, while the same text as a plain field is compiled as the local path T.f", Input: in})
		}
		if len(missing) == 0 && len(extra) == 0 {
			res.Count("agree")
			continue
		}
		// classify by the first differing row, with indices and names abstracted away
		sig := "declared-but-missing-or-altered:"
		row := ""
		if len(missing) > 0 {
			row = missing[0]
		} else {
			sig = "undeclared-appears:"
			row = extra[0]
		}
		res.Violate(Violation{Sig: sig + abstractRow(row), What: "the compiled model differs from what the text declares", Input: in,
			Want: head(missing, 12), Got: head(extra, 12)})
	}
	res.Sample(map[string]any{"text": jobs[0].text})
}

func head(xs []string, n int) []string {
	if len(xs) > n {
		return xs[:n]
	}
	return xs
}

func diffSorted(want, got []string) (missing, extra []string) {
	i, j := 0, 0
	for i < len(want) || j < len(got) {
		switch {
		case j >= len(got) || (i < len(want) && want[i] < got[j]):
			missing = append(missing, want[i])
			i++
		case i >= len(want) || got[j] < want[i]:
			extra = append(extra, got[j])
			j++
		default:
			i++
			j++
		}
	}
	return
}

// abstractRow: a row's path with map keys and indices replaced, value dropped - the "kind" of fact
func abstractRow(row string) string {
	p := row
	if i := strings.Index(p, " = "); i >= 0 {
		p = p[:i]
	}
	var b strings.Builder
	depth := 0
	for _, c := range p {
		switch {
		case c == '[':
			depth++
			b.WriteString("[]")
		case c == ']':
			depth--
		case depth == 0:
			b.WriteRune(c)
		}
	}
	return b.String()
}

// c02StripWrappedFieldRef removes from a diff the row groups of the recorded defect.
func c02StripWrappedFieldRef(missing, extra []string) (m2, e2 []string, n int) {
	const mark = ".type_ref.ref."
	group := func(rows []string) map[string][]string {
		g := map[string][]string{}
		for _, r := range rows {
			if i := strings.Index(r, mark); i >= 0 {
				g[r[:i]] = append(g[r[:i]], r[i+len(mark):])
			}
		}
		return g
	}
	gm, ge := group(missing), group(extra)
	drop := map[string]bool{}
	for pfx, ms := range gm {
		es := ge[pfx]
		if len(ms) != 2 || len(es) != 2 {
			continue
		}
		sort.Strings(ms)
		sort.Strings(es)
		// want: path[0] = "T", path[1] = "f"; got: appname.part[0] = "T", path[0] = "f"
		var t, f string
		if _, err := fmt.Sscanf(ms[0], "path[0] = %q", &t); err != nil {
			continue
		}
		if _, err := fmt.Sscanf(ms[1], "path[1] = %q", &f); err != nil {
			continue
		}
		if es[0] == fmt.Sprintf("appname.part[0] = %q", t) && es[1] == fmt.Sprintf("path[0] = %q", f) {
			drop[pfx] = true
			n++
		}
	}
	keep := func(rows []string) []string {
		var out []string
		for _, r := range rows {
			if i := strings.Index(r, mark); i >= 0 && drop[r[:i]] {
				continue
			}
			out = append(out, r)
		}
		return out
	}
	return keep(missing), keep(extra), n
}

// c02OrderCorpus: the members of an application in every order. Shapes the description language of the generator
// does not have (a REST path variable typed by a dotted reference, views) beside the ones it has; each ordering
// must compile, and all orderings of one set of members must compile to the same model (locations apart).
func c02OrderCorpus(res *Result) {
	members := [][]string{
		{"    !type T:\n        x <: int\n", "    Ep (p <: int):\n        ...\n", "    /x/{id <: A.T}:\n        GET:\n            ...\n"},
		{"    !type T:\n        x <: int\n", "    !union U:\n        T\n        int\n", "    /y/{id <: A.T}:\n        GET:\n            ...\n"},
		{"    !type T:\n        x <: int\n", "    !alias L:\n        sequence of T\n", "    /z/{id <: A.T}/sub/{k <: int}:\n        POST (b <: T [~body]):\n            ...\n"},
		{"    !table Tab:\n        id <: int [~pk]\n", "    <-> Ev (e <: int):\n        ...\n", "    /w/{id <: A.Tab}:\n        GET ?q=int:\n            ...\n", "    !enum E:\n        A: 1\n"},
		{"    !type T:\n        x <: int\n", "    !view V(a <: int) -> int:\n        a -> (:\n            out = a + 1\n        )\n", "    Ep2 (p <: T, q <: set of int):\n        return ok <: T\n", "    !alias M:\n        T\n"},
	}
	for mi, ms := range members {
		var ref *sysl.Module
		refText := ""
		perm := make([]int, len(ms))
		for i := range perm {
			perm[i] = i
		}
		var rec func(k int)
		rec = func(k int) {
			if k == len(perm) {
				text := "A:\n"
				for _, i := range perm {
					text += ms[i]
				}
				res.Count("order-corpus")
				m, err := compileFiles(map[string]string{"main.sysl": text}, "main.sysl")
				if err != nil {
					res.Violate(Violation{Sig: "well-formed-text-rejected:" + c01Site(err.Error()), What: "members that compile in one order are rejected in another: " + firstLine(err.Error()), Input: map[string]any{"text": text, "set": mi}})
					return
				}
				if ref == nil {
					ref, refText = m, text
				} else if !proto.Equal(stripped(ref), stripped(m)) {
					res.Violate(Violation{Sig: "member-order-changes-the-model", What: "the same members of an application in two orders compile to different models", Input: map[string]any{"text": text, "other": refText}})
				}
				return
			}
			for i := k; i < len(perm); i++ {
				perm[k], perm[i] = perm[i], perm[k]
				rec(k + 1)
				perm[k], perm[i] = perm[i], perm[k]
			}
		}
		rec(0)
	}
}
