package main

// C17 — the relational model handed to transforms is a lossless image of the model.
// Real code: relmod.Normalize on modules compiled from generated specifications.
// Model: SyslModel.Relmod (oracle op relmod.normalize).  The real Schema is canonicalised
// into (relation, key) rows and compared with the model's rows as a multiset; a direct
// oracle checks uniqueness of (app, endpoint, StmtIndex) and repeatability.

import (
	"context"
	"fmt"
	"sort"
	"strings"

	"github.com/anz-bank/sysl/pkg/arrai/relmod"
	"github.com/anz-bank/sysl/pkg/arrai/transform"
	"github.com/anz-bank/sysl/pkg/sysl"
	"github.com/arr-ai/arrai/rel"
)

type rStmt struct {
	K    string  `json:"k"` // leaf placeholder block alt
	D    string  `json:"d,omitempty"`
	Body []rStmt `json:"body,omitempty"`
	Alts []rAlt  `json:"alts,omitempty"`
	src  string  // sysl source of the statement head
}
type rAlt struct {
	Cond string  `json:"cond"`
	Body []rStmt `json:"body"`
}
type rField struct {
	Name  string   `json:"name"`
	Desc  string   `json:"desc"`
	Tags  []string `json:"tags"`
	Annos []string `json:"annos"`
	src   string
}
type rType struct {
	Name   string   `json:"name"`
	Kind   string   `json:"kind"`
	Opt    bool     `json:"opt"`
	PK     []string `json:"pk"`
	Items  []string `json:"items"`
	Fields []rField `json:"fields"`
	Tags   []string `json:"tags"`
	Annos  []string `json:"annos"`
	src    string
}
type rParam struct {
	Name string `json:"name"`
	Loc  string `json:"loc"`
	Idx  int    `json:"idx"`
	Desc string `json:"desc"`
}
type rEp struct {
	Name        string   `json:"name"`
	Placeholder bool     `json:"placeholder"`
	Event       bool     `json:"event"`
	Desc        string   `json:"desc"`
	Params      []rParam `json:"params"`
	Stmts       []rStmt  `json:"stmts"`
	Tags        []string `json:"tags"`
	Annos       []string `json:"annos"`
	src         string
}
type rApp struct {
	Name   string   `json:"name"` // parts joined with " :: "
	Mixins []string `json:"mixins"`
	Eps    []rEp    `json:"eps"`
	Types  []rType  `json:"types"`
	Views  []string `json:"views"`
	Tags   []string `json:"tags"`
	Annos  []string `json:"annos"`
}
type rModel struct {
	Apps []rApp `json:"apps"`
	Text string `json:"text"`
}

var rPrims = []struct{ sysl, rel string }{{"int", "INT"}, {"string", "STRING"}, {"bool", "BOOL"}, {"date", "DATE"}, {"float", "FLOAT"}, {"decimal", "DECIMAL"}}

// c17Unreadable: the model being generated may contain return payloads outside the payload grammar (one model in five)
var c17Unreadable bool

func genRStmts(r *Rand, depth, n int, apps []string, self string) []rStmt {
	var out []rStmt
	for i := 0; i < n; i++ {
		k := r.Intn(12)
		switch {
		case k < 3:
			t := fmt.Sprintf("do thing %d", r.Intn(100))
			out = append(out, rStmt{K: "leaf", D: "action:" + t, src: t})
		case k == 3:
			a := Pick(r, apps)
			out = append(out, rStmt{K: "leaf", D: "call:" + a + "<-Op", src: a + " <- Op"})
		case k == 4:
			pp := Pick(r, []struct{ src, ty string }{
				{"ok <: string", "prim:string"}, {"error <: Problem", "ref:" + self + ".Problem"},
				{"ok <: sequence of Thing", "seq(ref:" + self + ".Thing)"}, {"ok <: set of Thing", "set(ref:" + self + ".Thing)"},
				{"ok <: Ledger.Entry", "ref:Ledger.Entry"}, {"ok", "none"},
				// payloads the relational model's own payload grammar does not read: the module is either
				// refused, or it still has one row for every statement
			})
			if c17Unreadable && r.Chance(1, 4) {
				pp = Pick(r, []struct{ src, ty string }{{"ok <: int64", "UNPARSEABLE"}, {"ok <: boolean", "UNPARSEABLE"}, {"ok <: float64", "UNPARSEABLE"}})
			}
			st := strings.TrimSpace(strings.Split(pp.src, "<:")[0])
			out = append(out, rStmt{K: "leaf", D: "ret:" + st + ":" + pp.ty, src: "return " + pp.src})
		case k == 5:
			out = append(out, rStmt{K: "placeholder", src: "..."})
		case k == 6 && depth > 0:
			na := 2 + r.Intn(2)
			s := rStmt{K: "alt", src: "one of:"}
			for j := 0; j < na; j++ {
				s.Alts = append(s.Alts, rAlt{Cond: fmt.Sprintf("case%d", j), Body: genRStmts(r, depth-1, 1+r.Intn(3), apps, self)})
			}
			out = append(out, s)
		case depth > 0:
			kind := Pick(r, []string{"cond", "foreach", "loop", "group", "loopn"})
			var d, src string
			switch kind {
			case "cond":
				d, src = "cond:if x > 1", "if x > 1:"
			case "foreach":
				d, src = "foreach:item in items", "for each item in items:"
			case "loop":
				d, src = "loop:WHILE busy", "while busy:"
			case "loopn":
				d, src = "loopn:3", "loop 3 times:" // rendered below as a group if the grammar refuses it
				d, src = "group:phase two", "phase two:"
			case "group":
				d, src = "group:phase one", "phase one:"
			}
			// deep nesting with >= 3 siblings is what exposed shared index storage
			nn := 1 + r.Intn(4)
			out = append(out, rStmt{K: "block", D: d, Body: genRStmts(r, depth-1, nn, apps, self), src: src})
		default:
			t := fmt.Sprintf("step %d", r.Intn(100))
			out = append(out, rStmt{K: "leaf", D: "action:" + t, src: t})
		}
	}
	// a body must not consist of placeholders only (the compiler would drop nothing, fine) — keep
	return out
}

func renderRStmts(b *strings.Builder, ss []rStmt, ind string) {
	if len(ss) == 0 {
		b.WriteString(ind + "...\n")
		return
	}
	for _, s := range ss {
		switch s.K {
		case "leaf", "placeholder":
			b.WriteString(ind + s.src + "\n")
		case "block":
			b.WriteString(ind + s.src + "\n")
			renderRStmts(b, s.Body, ind+"    ")
		case "alt":
			b.WriteString(ind + "one of:\n")
			for _, a := range s.Alts {
				b.WriteString(ind + "    " + a.Cond + ":\n")
				renderRStmts(b, a.Body, ind+"        ")
			}
		}
	}
}

// an empty body is rendered as "..." which the compiler stores as a placeholder action
func normBody(ss []rStmt) []rStmt {
	if len(ss) == 0 {
		return []rStmt{{K: "placeholder"}}
	}
	out := make([]rStmt, len(ss))
	for i, s := range ss {
		s.Body = nil
		if ss[i].K == "block" {
			s.Body = normBody(ss[i].Body)
		}
		if ss[i].K == "alt" {
			s.Alts = nil
			for _, a := range ss[i].Alts {
				s.Alts = append(s.Alts, rAlt{a.Cond, normBody(a.Body)})
			}
		}
		out[i] = s
	}
	return out
}

func genRModel(r *Rand) *rModel {
	c17Unreadable = r.Chance(1, 5)
	m := &rModel{}
	appNames := []string{"Shop", "Ns :: Billing", "Ledger"}
	n := 1 + r.Intn(3)
	plainNames := []string{}
	for i := 0; i < n; i++ {
		plainNames = append(plainNames, strings.ReplaceAll(appNames[i], " :: ", " :: "))
	}
	var b strings.Builder
	published := map[int]string{}
	tagPool := []string{"rest", "db", "internal", "beta"}
	mkMeta := func() (tags, annos []string, src string) {
		var parts []string
		if r.Chance(1, 3) {
			t := Pick(r, tagPool)
			tags = append(tags, t)
			parts = append(parts, "~"+t)
			if r.Chance(1, 3) {
				t2 := Pick(r, tagPool)
				if t2 != t {
					tags = append(tags, t2)
					parts = append(parts, "~"+t2)
				}
			}
		}
		if r.Chance(1, 3) {
			annos = append(annos, "owner")
			parts = append(parts, `owner="team a"`)
		}
		if r.Chance(1, 5) {
			annos = append(annos, "labels")
			parts = append(parts, `labels=["x", "y"]`)
		}
		if r.Chance(1, 8) {
			annos = append(annos, "matrix")
			parts = append(parts, `matrix=[["a", "b"], ["c"]]`)
		}
		if len(parts) > 0 {
			src = " [" + strings.Join(parts, ", ") + "]"
		}
		return
	}
	for i := 0; i < n; i++ {
		a := rApp{Name: plainNames[i], Mixins: []string{}, Views: []string{}}
		tags, annos, src := mkMeta()
		a.Tags, a.Annos = tags, annos
		b.WriteString(plainNames[i] + src + ":\n")
		if r.Chance(1, 6) {
			// the placeholder line kept beside real content: an endpoint named `...` that the relational model leaves out
			b.WriteString("    ...\n")
		}
		// types
		nt := r.Intn(4)
		typeNames := []string{}
		for t := 0; t < nt; t++ {
			tn := fmt.Sprintf("T%d", t)
			typeNames = append(typeNames, tn)
		}
		for t := 0; t < nt; t++ {
			ty := rType{Name: typeNames[t], PK: []string{}, Items: []string{}, Fields: []rField{}}
			tt, ta, tsrc := mkMeta()
			ty.Tags, ty.Annos = tt, ta
			switch k := r.Intn(6); {
			case k == 0:
				ty.Kind = "enum"
				ty.Items = []string{"A=1", "B=2"}
				b.WriteString(fmt.Sprintf("    !enum %s%s:\n        A: 1\n        B: 2\n", ty.Name, tsrc))
			case k == 1:
				ty.Kind = "alias"
				b.WriteString(fmt.Sprintf("    !alias %s%s:\n        sequence of string\n", ty.Name, tsrc))
			default:
				ty.Kind = "tuple"
				kw := "!type"
				if k == 2 {
					ty.Kind = "table"
					kw = "!table"
				}
				b.WriteString(fmt.Sprintf("    %s %s%s:\n", kw, ty.Name, tsrc))
				nf := 1 + r.Intn(4)
				for f := 0; f < nf; f++ {
					fd := rField{Name: fmt.Sprintf("f%d", f)}
					ft, fa, fsrc := mkMeta()
					opt := r.Chance(1, 3)
					var tdesc, tsyl string
					switch q := r.Intn(5); {
					case q == 0 && nt > 1:
						o := typeNames[(t+1)%nt]
						tdesc, tsyl = "ref:"+plainNames[i]+"."+o, o
					case q == 1:
						p := Pick(r, rPrims)
						tdesc, tsyl = "set(prim:"+p.rel+")", "set of "+p.sysl
					case q == 2:
						p := Pick(r, rPrims)
						tdesc, tsyl = "seq(prim:"+p.rel+")", "sequence of "+p.sysl
					default:
						p := Pick(r, rPrims)
						tdesc, tsyl = "prim:"+p.rel, p.sysl
					}
					pkField := ty.Kind == "table" && f == 0
					if pkField {
						opt = false
						ft = append(ft, "pk")
						if fsrc == "" {
							fsrc = " [~pk]"
						} else {
							fsrc = strings.Replace(fsrc, " [", " [~pk, ", 1)
						}
						ty.PK = append(ty.PK, fd.Name)
					}
					if opt {
						tsyl += "?"
					}
					fd.Desc = fmt.Sprintf("opt=%v|%s", opt, tdesc)
					fd.Tags, fd.Annos = ft, fa
					if fd.Tags == nil {
						fd.Tags = []string{}
					}
					if fd.Annos == nil {
						fd.Annos = []string{}
					}
					b.WriteString(fmt.Sprintf("        %s <: %s%s\n", fd.Name, tsyl, fsrc))
					ty.Fields = append(ty.Fields, fd)
				}
			}
			if ty.Tags == nil {
				ty.Tags = []string{}
			}
			if ty.Annos == nil {
				ty.Annos = []string{}
			}
			a.Types = append(a.Types, ty)
		}
		// endpoints
		ne := 1 + r.Intn(3)
		for e := 0; e < ne; e++ {
			ep := rEp{Name: fmt.Sprintf("Op%d", e), Params: []rParam{}}
			if e == 0 {
				ep.Name = "Op"
			}
			et, ea, esrc := mkMeta()
			ep.Tags, ep.Annos = et, ea
			var psrc []string
			np := r.Intn(3)
			for p := 0; p < np; p++ {
				pr := Pick(r, rPrims)
				ep.Params = append(ep.Params, rParam{Name: fmt.Sprintf("p%d", p), Loc: "method", Idx: p, Desc: "prim:" + pr.rel})
				psrc = append(psrc, fmt.Sprintf("p%d <: %s", p, pr.sysl))
			}
			ps := ""
			if len(psrc) > 0 {
				ps = " (" + strings.Join(psrc, ", ") + ")"
			}
			b.WriteString(fmt.Sprintf("    %s%s%s:\n", ep.Name, ps, esrc))
			ss := genRStmts(r, 6, 1+r.Intn(4), []string{"Shop", "Ledger"}, plainNames[i])
			renderRStmts(&b, ss, "        ")
			ep.Stmts = normBody(ss)
			if ep.Tags == nil {
				ep.Tags = []string{}
			}
			if ep.Annos == nil {
				ep.Annos = []string{}
			}
			a.Eps = append(a.Eps, ep)
		}
		// an event this application publishes, and a subscription to the previous application's event
		if r.Chance(1, 2) {
			evName := fmt.Sprintf("Evt%d", i)
			a.Eps = append(a.Eps, rEp{Name: evName, Event: true, Params: []rParam{}, Stmts: []rStmt{}, Tags: []string{}, Annos: []string{}})
			b.WriteString(fmt.Sprintf("    <-> %s:\n        ...\n", evName))
			published[i] = evName
		}
		if i > 0 && published[i-1] != "" && r.Chance(2, 3) {
			src := plainNames[i-1]
			nm := src + " -> " + published[i-1]
			ep := rEp{Name: nm, Desc: "sub:" + src + "|" + published[i-1], Params: []rParam{}, Tags: []string{}, Annos: []string{},
				Stmts: []rStmt{{K: "leaf", D: "action:handle it"}}}
			b.WriteString(fmt.Sprintf("    %s:\n        handle it\n", nm))
			a.Eps = append(a.Eps, ep)
		}
		// a REST endpoint with path and query parameters
		if r.Chance(1, 2) {
			ep := rEp{Name: "GET /items/{id}", Desc: "GET /items/{id}", Tags: []string{"rest"}, Annos: []string{},
				Params: []rParam{{Name: "id", Loc: "path", Idx: 0, Desc: "prim:INT"}, {Name: "q", Loc: "query", Idx: 0, Desc: "prim:STRING"}}}
			b.WriteString("    /items/{id <: int}:\n        GET ?q=string:\n            fetch it\n")
			ep.Stmts = []rStmt{{K: "leaf", D: "action:fetch it"}}
			a.Eps = append(a.Eps, ep)
		}
		if a.Tags == nil {
			a.Tags = []string{}
		}
		if a.Annos == nil {
			a.Annos = []string{}
		}
		if a.Types == nil {
			a.Types = []rType{}
		}
		m.Apps = append(m.Apps, a)
	}
	// make the call targets exist
	m.Text = b.String()
	return m
}

func canonType(t interface{}) string {
	switch x := t.(type) {
	case relmod.TypePrimitive:
		return "prim:" + x.Primitive
	case relmod.TypeRef:
		return "ref:" + strings.Join(x.AppName, " :: ") + "." + strings.Join(x.TypePath, ".")
	case relmod.TypeSet:
		return "set(" + canonType(x.Set) + ")"
	case relmod.TypeSequence:
		return "seq(" + canonType(x.Sequence) + ")"
	case nil:
		return "none"
	default:
		return fmt.Sprintf("%T", t)
	}
}

func pathKey(p []int) string {
	var s []string
	for _, x := range p {
		s = append(s, fmt.Sprint(x))
	}
	return strings.Join(s, ",")
}

func canonSchema(s *relmod.Schema) [][2]string {
	var rows [][2]string
	add := func(rel, key string) { rows = append(rows, [2]string{rel, key}) }
	j := func(p []string) string { return strings.Join(p, " :: ") }
	for _, a := range s.App {
		add("app", j(a.AppName))
	}
	for _, m := range s.Mixin {
		add("mixin", j(m.AppName)+"|"+j(m.MixinName))
	}
	for _, e := range s.Ep {
		d := ""
		if e.Rest.Method != "" || e.Rest.Path != "" {
			d = e.Rest.Method + " " + e.Rest.Path
		}
		if e.EpEvent.EventName != "" || len(e.EpEvent.AppName.Part) > 0 {
			d = "sub:" + j(e.EpEvent.AppName.Part) + "|" + e.EpEvent.EventName
		}
		add("ep", j(e.AppName)+"|"+e.EpName+"|"+d)
	}
	for _, e := range s.Event {
		add("event", j(e.AppName)+"|"+e.EventName)
	}
	for _, p := range s.Param {
		add("param", fmt.Sprintf("%s|%s|%s|%s|%d|%s", j(p.AppName), p.EpName, p.ParamName, p.ParamLoc, p.ParamIndex, canonType(p.ParamType)))
	}
	for _, st := range s.Stmt {
		d := "empty"
		switch {
		case st.StmtAction != "":
			d = "action:" + st.StmtAction
		case st.StmtCall != nil:
			d = fmt.Sprintf("call:%s<-%v", j(toStrs(st.StmtCall["appName"])), st.StmtCall["epName"])
		case st.StmtCond != nil:
			d = fmt.Sprintf("cond:%v", st.StmtCond["test"])
		case st.StmtLoop != nil:
			d = fmt.Sprintf("loop:%v %v", st.StmtLoop["mode"], st.StmtLoop["criterion"])
		case st.StmtLoopN != nil:
			d = fmt.Sprintf("loopn:%v", st.StmtLoopN["count"])
		case st.StmtForeach != nil:
			d = fmt.Sprintf("foreach:%v", st.StmtForeach["coll"])
		case st.StmtGroup != nil:
			d = fmt.Sprintf("group:%v", st.StmtGroup["title"])
		case st.StmtAlt != nil:
			d = fmt.Sprintf("alt %v", st.StmtAlt["choice"])
		case st.StmtRet.Status != "" || st.StmtRet.Type != nil:
			d = "ret:" + st.StmtRet.Status + ":" + canonType(st.StmtRet.Type)
		}
		add("stmt", j(st.AppName)+"|"+st.EpName+"|"+pathKey(st.StmtIndex)+"|"+d)
	}
	for _, t := range s.Type {
		add("type", fmt.Sprintf("%s|%s|%v", j(t.AppName), t.TypeName, t.TypeOpt))
	}
	for _, t := range s.Table {
		add("table", j(t.AppName)+"|"+t.TypeName+"|"+strings.Join(t.Pk, ","))
	}
	for _, e := range s.Enum {
		var it []string
		for k, v := range e.EnumItems {
			it = append(it, fmt.Sprintf("%s=%d", k, v))
		}
		sort.Strings(it)
		add("enum", j(e.AppName)+"|"+e.TypeName+"|"+strings.Join(it, ","))
	}
	for _, a := range s.Alias {
		add("alias", j(a.AppName)+"|"+a.TypeName)
	}
	for _, f := range s.Field {
		add("field", fmt.Sprintf("%s|%s|%s|opt=%v|%s", j(f.AppName), f.TypeName, f.FieldName, f.FieldOpt, canonType(f.FieldType)))
	}
	for _, v := range s.View {
		add("view", j(v.AppName)+"|"+v.ViewName)
	}
	for _, t := range s.Tag.App {
		add("tag.app", j(t.AppName)+"|"+t.AppTag)
	}
	for _, t := range s.Tag.Ep {
		add("tag.ep", j(t.AppName)+"|"+t.EpName+"|"+t.EpTag)
	}
	for _, t := range s.Tag.Type {
		add("tag.type", j(t.AppName)+"|"+t.TypeName+"|"+t.TypeTag)
	}
	for _, t := range s.Tag.Field {
		add("tag.field", j(t.AppName)+"|"+t.TypeName+"|"+t.FieldName+"|"+t.FieldTag)
	}
	for _, t := range s.Anno.App {
		add("anno.app", j(t.AppName)+"|"+t.AppAnnoName)
	}
	for _, t := range s.Anno.Ep {
		add("anno.ep", j(t.AppName)+"|"+t.EpName+"|"+t.EpAnnoName)
	}
	for _, t := range s.Anno.Type {
		add("anno.type", j(t.AppName)+"|"+t.TypeName+"|"+t.TypeAnnoName)
	}
	for _, t := range s.Anno.Field {
		add("anno.field", j(t.AppName)+"|"+t.TypeName+"|"+t.FieldName+"|"+t.FieldAnnoName)
	}
	return rows
}

func toStrs(v interface{}) []string {
	if s, ok := v.([]string); ok {
		return s
	}
	return []string{fmt.Sprint(v)}
}

func sortRows(r [][2]string) []string {
	out := make([]string, len(r))
	for i, x := range r {
		out[i] = x[0] + "\t" + x[1]
	}
	sort.Strings(out)
	return out
}

func init() { runners["C17"] = runC17 }

func runC17(res *Result, tier string, rnd *Rand, replay string) {
	res.Rule = "generated specifications: 1..3 applications (one namespaced), tuple/table/enum/alias types with primitive, optional, set/sequence and reference fields, tags and string / array / nested-array annotations on applications, types, fields and endpoints, simple endpoints with parameters, a REST endpoint with path and query parameters, statement trees to depth 6 over action/call/typed return/placeholder/if/for each/while/group/one of with up to 4 siblings per level; non-trivial = some statement at depth >= 4 has a sibling; distinct by text"
	n := 110
	if tier == "thorough" {
		n = 800
	}
	var models []*rModel
	if replay != "" {
		var rp struct {
			Input *rModel `json:"input"`
		}
		readJSON(replay, &rp)
		models = []*rModel{rp.Input}
	} else {
		for i := 0; i < n; i++ {
			models = append(models, genRModel(rnd))
		}
	}
	type obs struct {
		m    *rModel
		rows []string
	}
	var all []obs
	var reqs []any
	var accepted []*sysl.Module
	for _, m := range models {
		m := m
		mod, err := compileFiles(map[string]string{"main.sysl": m.Text}, "main.sysl")
		if err != nil {
			res.Count("generated-not-compiling")
			res.Note("not compiling: %v\n%s", err, m.Text)
			continue
		}
		var rows []string
		func() {
			defer Track(m)()
			defer func() {
				if x := recover(); x != nil {
					res.Violate(Violation{Sig: "panic:" + firstLine(fmt.Sprint(x)), What: "relmod.Normalize panicked: " + firstLine(fmt.Sprint(x)), Input: m})
					rows = nil
				}
			}()
			s1, err := relmod.Normalize(context.Background(), mod)
			if err != nil {
				res.Count("refused:" + firstLine(err.Error()))
				return
			}
			rows = sortRows(canonSchema(s1))
			// gives the same relations every time
			s2, err2 := relmod.Normalize(context.Background(), mod)
			if err2 != nil || strings.Join(sortRows(canonSchema(s2)), "\n") != strings.Join(rows, "\n") {
				res.Violate(Violation{Sig: "not-repeatable", What: "two normalisations of the same module give different relations", Input: m})
			}
			// direct oracle: (app, endpoint, StmtIndex) identifies a statement
			seen := map[string]bool{}
			for _, st := range s1.Stmt {
				k := strings.Join(st.AppName, "::") + "|" + st.EpName + "|" + pathKey(st.StmtIndex)
				if seen[k] {
					res.Violate(Violation{Sig: "duplicate-stmt-index", What: "two statement rows of one endpoint carry the same position path " + k, Input: m})
					break
				}
				seen[k] = true
			}
		}()
		if rows == nil {
			continue
		}
		all = append(all, obs{m, rows})
		accepted = append(accepted, mod)
		reqs = append(reqs, map[string]any{"op": "relmod.normalize", "apps": m.Apps})
		res.Eval(m.Text, strings.Contains(m.Text, "                        ")) // depth >= 4
	}
	c17TransformInput(res, accepted)
	reps, err := RunOracleChunks(reqs, 8)
	if err != nil {
		res.Disagree(Disagreement{What: "oracle failed: " + err.Error()})
		return
	}
	for i, o := range all {
		res.Traces++
		var mrows [][2]string
		if l, ok := reps[i]["rows"].([]any); ok {
			for _, e := range l {
				q, _ := e.([]any)
				if len(q) == 2 {
					mrows = append(mrows, [2]string{fmt.Sprint(q[0]), fmt.Sprint(q[1])})
				}
			}
		}
		want := sortRows(mrows)
		if strings.Contains(o.m.Text, "<: int64") || strings.Contains(o.m.Text, "<: boolean") || strings.Contains(o.m.Text, "<: float64") {
			// accepted although a payload is outside the payload grammar: the statements must all be there
			// (what is recorded for the payload itself is left open)
			res.Count("accepted-with-unreadable-payload")
			pos := func(rows []string) []string {
				var out []string
				for _, r := range rows {
					if strings.HasPrefix(r, "stmt\t") {
						out = append(out, r[:strings.LastIndex(r, "|")])
					}
				}
				sort.Strings(out)
				return out
			}
			if w, g := pos(want), pos(o.rows); strings.Join(w, "\n") != strings.Join(g, "\n") {
				res.Violate(Violation{Sig: "statement-rows-missing-after-unreadable-payload", What: "the module was accepted but does not have one statement row per statement", Input: o.m, Got: g, Want: w})
			}
			continue
		}
		if strings.Join(want, "\n") != strings.Join(o.rows, "\n") {
			// first differing rows
			var onlyM, onlyI []string
			mi := map[string]int{}
			for _, r := range want {
				mi[r]++
			}
			for _, r := range o.rows {
				if mi[r] > 0 {
					mi[r]--
				} else {
					onlyI = append(onlyI, r)
				}
			}
			for r, c := range mi {
				for ; c > 0; c-- {
					onlyM = append(onlyM, r)
				}
			}
			sort.Strings(onlyM)
			if len(onlyM) > 6 {
				onlyM = onlyM[:6]
			}
			if len(onlyI) > 6 {
				onlyI = onlyI[:6]
			}
			// the census itself is the property: a row the specification implies but the image lacks
			// (or the reverse) is a violation, classified by relation
			rels := map[string]bool{}
			for _, r := range append(append([]string{}, onlyM...), onlyI...) {
				rels[strings.SplitN(r, "\t", 2)[0]] = true
			}
			res.Violate(Violation{Sig: "rows-differ:" + strings.Join(sortedKeys(rels), "+"), What: "the relational image does not have exactly one row per construct of the specification", Input: o.m,
				Got: onlyI, Want: onlyM})
		}
		if i%(len(all)/4+1) == 0 {
			res.Sample(map[string]any{"rows": len(o.rows), "first": o.rows[:min(5, len(o.rows))]})
		}
	}
}

// c17TransformInput: what a transform script is handed for several modules at once (`sysl transform a.sysl b.sysl`):
// models(i) must be the image of module i, i.e. what it is when module i is handed over alone.
func c17TransformInput(res *Result, mods []*sysl.Module) {
	summary := func(i int) string {
		return fmt.Sprintf(`\input
		let m = input.models(%d);
		let j = \xs //seq.join(',', xs orderby .);
		$`+"`apps=${j(m.rel.app => //seq.join(' :: ', .appName))} types=${j(m.rel.type => //seq.join(' :: ', .appName) ++ '.' ++ .typeName)} "+
			"eps=${j(m.rel.ep => .epName)} stmts=${m.rel.stmt count} fields=${m.rel.field count}`", i)
	}
	eval := func(input rel.Tuple, i int) (out string, err error) {
		defer func() {
			if x := recover(); x != nil {
				err = fmt.Errorf("panic: %v", x)
			}
		}()
		v, err := transform.EvalWithParam([]byte(summary(i)), "census.arrai", input)
		if err != nil {
			return "", err
		}
		return v.String(), nil
	}
	for g := 0; g+2 < len(mods) && g < 36; g += 3 {
		group := mods[g : g+3]
		paths := []string{"a.sysl", "b.sysl", "c.sysl"}
		var alone []string
		for i, m := range group {
			in1, err := transform.BuildTransformInput([]*sysl.Module{m}, paths[i:i+1])
			if err != nil {
				alone = append(alone, "error: "+firstLine(err.Error()))
				continue
			}
			sm, err := eval(in1, 0)
			if err != nil {
				res.Note("census script failed: %v", err)
				return
			}
			alone = append(alone, sm)
		}
		for round := 0; round < 3; round++ {
			in3, err := transform.BuildTransformInput(group, paths)
			if err != nil {
				res.Count("transform-input-refused")
				break
			}
			res.Count("transform-input-groups")
			for i := range group {
				sm, err := eval(in3, i)
				if err != nil || sm != alone[i] {
					res.Violate(Violation{Sig: "transform-input-model-of-another-module", What: fmt.Sprintf("models(%d) of a transform input built from three modules is not the image of module %d", i, i),
						Input: map[string]any{"group_start": g, "index": i}, Got: sm, Want: alone[i]})
					return
				}
			}
		}
	}
}
