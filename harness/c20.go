package main

// C20 — every command ends with output or an error on every valid model.
// Real code: the `sysl` binary built from the working tree (by the driver, env VERIF_SYSL_BIN),
// run as a subprocess on generated untidy-but-valid models x commands x option sets.
// Model: SyslModel.Guard over the command region tree (Expect.C20).

import (
	"bytes"
	"context"
	"fmt"
	"os"
	"os/exec"
	"path/filepath"
	"regexp"
	"strings"
	"sync"
	"time"
)

type c20Model struct {
	Text    string            `json:"text"`
	Apps    []string          `json:"apps"`
	Eps     []string          `json:"eps"` // "App <- Ep"
	Traits  []string          `json:"traits"`
	OldText string            `json:"old_text,omitempty"`
	Files   map[string]string `json:"files,omitempty"` // further files beside m.sysl (imported ones)
}

func genUntidyModel(r *Rand) *c20Model {
	m := &c20Model{}
	var b strings.Builder
	names := []string{"Alpha", "Beta", "Gamma", "Delta"}
	n := 1 + r.Intn(4)
	trait := func(t string) { m.Traits = append(m.Traits, t) }
	epNames := map[string][]string{}
	for i := 0; i < n; i++ {
		for e := 0; e < 1+r.Intn(3); e++ {
			epNames[names[i]] = append(epNames[names[i]], fmt.Sprintf("%sOp%d", strings.ToLower(names[i][:1]), e))
		}
	}
	target := func() (string, string) {
		switch r.Intn(8) {
		case 0:
			trait("dangling-app")
			return "Nowhere", "Op"
		case 1:
			trait("dangling-endpoint")
			return names[r.Intn(n)], "missing"
		case 2:
			// an undefined application whose name differs from a defined one only by case
			trait("dangling-app-case-variant")
			return strings.ToLower(names[r.Intn(n)]), "Op"
		default:
			a := names[r.Intn(n)]
			return a, Pick(r, epNames[a])
		}
	}
	for i := 0; i < n; i++ {
		a := names[i]
		m.Apps = append(m.Apps, a)
		attrs := ""
		if r.Chance(1, 8) {
			attrs = " [~human]"
		}
		if r.Chance(1, 6) {
			attrs = ` [package="pkg.` + strings.ToLower(a) + `"]`
		}
		fmt.Fprintf(&b, "%s%s:\n", a, attrs)
		if r.Chance(1, 7) {
			b.WriteString("    ...\n")
			trait("empty-app")
			continue
		}
		// types
		if r.Chance(2, 3) {
			b.WriteString("    !type Rec:\n        next <: Rec?\n        name <: string\n")
			trait("recursive-type")
			switch r.Intn(5) {
			case 0:
				b.WriteString("        other <: Nowhere.Missing\n")
				trait("dangling-type-ref")
			case 1:
				b.WriteString("        other <: Missing\n")
				trait("dangling-type-ref")
			case 2:
				b.WriteString("        items <: sequence of Cyc1\n")
			}
			if r.Chance(1, 2) {
				b.WriteString("    !type Cyc1:\n        x <: Cyc2\n    !type Cyc2:\n        x <: set of Cyc1\n")
				trait("cyclic-type-refs")
			}
			if r.Chance(1, 4) {
				b.WriteString("    !enum Colour:\n        RED: 1\n        GREEN: 2\n")
			}
			if r.Chance(1, 4) {
				b.WriteString("    !alias Names:\n        sequence of string\n")
			}
			if r.Chance(1, 5) {
				b.WriteString("    !union Either:\n        Rec\n        Missing\n")
				trait("union")
			}
		}
		aliasCycle := false
		if r.Chance(1, 3) {
			// aliases that name each other (in this application, or through the next one) or themselves
			other := names[(i+1)%n]
			switch r.Intn(3) {
			case 0:
				b.WriteString("    !alias A1:\n        A2\n    !alias A2:\n        A1\n")
			case 1:
				b.WriteString("    !alias A1:\n        A1\n")
			default:
				fmt.Fprintf(&b, "    !alias A1:\n        %s.A1\n", other)
			}
			aliasCycle = true
			trait("alias-cycle")
		}
		if r.Chance(1, 2) {
			b.WriteString("    !table T1:\n        id <: int [~pk, ~autoinc]\n        name <: string(40)\n")
			switch r.Intn(5) {
			case 0:
				b.WriteString("        ref <: T2.id\n    !table T2:\n        id <: int [~pk]\n        back <: T1.id\n")
				trait("cyclic-foreign-keys")
			case 1:
				b.WriteString("        ref <: Gone.id\n")
				trait("dangling-foreign-key")
			case 2:
				b.WriteString("        self <: T1.id\n")
				trait("self-foreign-key")
			case 3:
				b.WriteString("    !table T2:\n        id <: int [~pk]\n        t1 <: T1.id\n")
			}
		}
		// endpoints
		for _, ep := range epNames[a] {
			m.Eps = append(m.Eps, a+" <- "+ep)
			hid := ""
			if r.Chance(1, 3) {
				hid = " [~hidden]"
				trait("hidden-endpoint")
			}
			par := ""
			if aliasCycle && r.Bool() {
				par = fmt.Sprintf(" (p <: %s.A1)", a)
			}
			fmt.Fprintf(&b, "    %s%s%s:\n", ep, par, hid)
			k := 1 + r.Intn(4)
			for j := 0; j < k; j++ {
				switch r.Intn(7) {
				case 0:
					ta, te := target()
					fmt.Fprintf(&b, "        %s <- %s\n", ta, te)
				case 1:
					ta, te := target()
					fmt.Fprintf(&b, "        if cond:\n            %s <- %s\n        else:\n            step\n", ta, te)
				case 2:
					fmt.Fprintf(&b, "        . <- %s\n", ep)
					trait("self-call")
				case 3:
					fmt.Fprintf(&b, "        return ok <: %s\n", Pick(r, []string{"Rec", "string", "Missing", "sequence of Rec", "Nowhere.T", "T1", "A1", a + ".A1", names[r.Intn(n)] + ".A1"}))
				case 4:
					ta, te := target()
					fmt.Fprintf(&b, "        one of:\n            a:\n                %s <- %s\n            b:\n                ...\n", ta, te)
				default:
					b.WriteString("        do a step\n")
				}
			}
		}
		if r.Chance(1, 2) {
			fmt.Fprintf(&b, "    /%s/{id <: int}:\n        GET ?q=string:\n            return ok <: %s\n        POST (body <: %s [~body]):\n            return error <: string\n",
				strings.ToLower(a), Pick(r, []string{"Rec", "Missing", "sequence of Rec", "T1"}), Pick(r, []string{"Rec", "Missing", "string"}))
			trait("rest")
		}
	}
	projAttr := ""
	if r.Chance(1, 2) && len(m.Apps) > 1 {
		// all but the first application are pass-through: cycles among them must not hang `ints`
		var pt []string
		for _, a := range m.Apps[1:] {
			pt = append(pt, fmt.Sprintf("%q", a))
		}
		projAttr = " [passthrough=[" + strings.Join(pt, ", ") + "]]"
		trait("passthrough-view")
	}
	fmt.Fprintf(&b, "Project:\n    Proj%s:\n", projAttr)
	for i, a := range m.Apps {
		if projAttr != "" && i > 0 {
			continue
		}
		fmt.Fprintf(&b, "        %s\n", a)
	}
	if r.Chance(1, 6) {
		b.WriteString("        NotAnApp\n")
	}
	m.Text = b.String()
	m.Traits = uniq(m.Traits)
	// an older version for the delta command: drop the last line of a table if any
	m.OldText = strings.Replace(m.Text, "        name <: string(40)\n", "", 1)
	return m
}

// fixed models: shapes that crashed at the pinned commit or need several things at once
func c20Corpus() []*c20Model {
	mk := func(text string, apps []string, eps []string, traits ...string) *c20Model {
		return &c20Model{Text: text, OldText: text, Apps: apps, Eps: eps, Traits: traits}
	}
	diamond := mk("import a\nimport b\nAlpha:\n    aOp0:\n        Beta <- bOp0\n        Alpha <- aOp1\n    aOp1:\n        Alpha <- aOp0\nBeta:\n    bOp0:\n        Alpha <- aOp0\nProject:\n    Proj:\n        Alpha\n        Beta\n",
		[]string{"Alpha", "Beta"}, []string{"Alpha <- aOp0", "Alpha <- aOp1", "Beta <- bOp0"}, "import-diamond-with-chain", "call-cycle")
	diamond.Files = map[string]string{
		"a.sysl": "import shared\nA:\n    x:\n        ...\n", "b.sysl": "import shared\nimport l2\nB:\n    x:\n        ...\n",
		"shared.sysl": "import l1\nShared:\n    x:\n        ...\n", "l1.sysl": "import l2\nL1:\n    x:\n        ...\n",
		"l2.sysl": "import l3\nL2:\n    x:\n        ...\n", "l3.sysl": "L3:\n    x:\n        ...\n"}
	return []*c20Model{
		diamond,
		mk("Alpha:\n    aOp0:\n        Beta <- bOp0\nBeta:\n    bOp0 [~hidden]:\n        Gamma <- gOp0\nGamma:\n    gOp0 [~hidden]:\n        Beta <- bOp0\n"+
			"Project:\n    Proj [passthrough=[\"Beta\", \"Gamma\"]]:\n        Alpha\n",
			[]string{"Alpha", "Beta", "Gamma"}, []string{"Alpha <- aOp0", "Beta <- bOp0"}, "passthrough-cycle-all-hidden"),
		mk("Alpha:\n    !table T1:\n        id <: int [~pk]\n        ref <: T2.id\n    !table T2:\n        id <: int [~pk]\n        back <: T1.id\n    !table T3:\n        id <: int [~pk]\n        gone <: Nope.id\n"+
			"    aOp0:\n        Nowhere <- Op\n        alpha <- aOp0\n        return ok <: Missing\nProject:\n    Proj:\n        Alpha\n        Nowhere\n",
			[]string{"Alpha"}, []string{"Alpha <- aOp0"}, "cyclic-foreign-keys", "dangling-foreign-key", "dangling-app", "dangling-app-case-variant"),
	}
}

type c20Cmd struct {
	Name string   `json:"name"`
	Args []string `json:"args"`
}

func c20Commands(r *Rand, m *c20Model) []c20Cmd {
	var out []c20Cmd
	add := func(name string, args ...string) { out = append(out, c20Cmd{name, args}) }
	add("pb-textpb", "pb", "--mode", "textpb", "-o", "out.textpb", "m.sysl")
	add("pb-json", "pb", "--mode", "json", "-o", "out.json", "m.sysl")
	add("pb-pb", "pb", "--mode", "pb", "-o", "out.pb", "m.sysl")
	add("validate", "validate", "m.sysl")
	for _, e := range m.Eps {
		if r.Chance(1, 2) {
			add("sd", "sd", "-s", e, "-o", "sd.puml", "m.sysl")
		}
	}
	if len(m.Eps) >= 2 {
		// one diagram for two starting endpoints (they may lie on one call cycle)
		i := r.Intn(len(m.Eps))
		j := (i + 1 + r.Intn(len(m.Eps)-1)) % len(m.Eps)
		add("sd-two-starts", "sd", "-s", m.Eps[i], "-s", m.Eps[j], "-o", "sd2.puml", "m.sysl")
	}
	// the global option that switches the duplicate-import version check off
	add("validate-no-version-check", "--no-different-version-check", "validate", "m.sysl")
	add("pb-no-version-check", "--no-different-version-check", "pb", "--mode", "textpb", "-o", "outnv.textpb", "m.sysl")
	add("ints", "ints", "-j", "Project", "-o", "ints_%(epname).puml", "m.sysl")
	add("ints-clustered", "ints", "-j", "Project", "--clustered", "-o", "intc_%(epname).puml", "m.sysl")
	add("ints-epa", "ints", "-j", "Project", "--epa", "-o", "epa_%(epname).puml", "m.sysl")
	add("datamodel-direct", "datamodel", "-d", "-o", "dm_%(epname).puml", "m.sysl")
	add("datamodel-project", "datamodel", "-j", "Project", "-o", "dmp_%(epname).puml", "m.sysl")
	add("diagram-integration", "diagram", "-i", "-o", "d1.svg", "m.sysl")
	if len(m.Eps) > 0 {
		p := strings.SplitN(Pick(r, m.Eps), " <- ", 2)
		add("diagram-sequence", "diagram", "-s", "-a", p[0], "-e", p[1], "-o", "d2.svg", "m.sysl")
	}
	a := Pick(r, m.Apps)
	for _, f := range []string{"swagger", "openapi2", "openapi3", "spanner", "proto"} {
		add("export-"+f, "export", "-f", f, "-a", a, "-o", "exp."+f, "m.sysl")
	}
	add("generate-db-scripts", "generate-db-scripts", "-a", a, "-d", "postgres", "-o", "dbout", "-t", "t", "m.sysl")
	add("generate-db-scripts-delta", "generate-db-scripts-delta", "-a", a, "-d", "postgres", "-o", "dbdelta", "-t", "t", "old.sysl", "m.sysl")
	return out
}

var reC20Frame = regexp.MustCompile(`github\.com/anz-bank/sysl/((?:pkg|cmd)/\S+?(?:\(\*?\w+\)\.\w+|\.\w+))[.(]`)

// first sysl frame below the panic line
func c20Site(out string) string {
	lines := strings.Split(out, "\n")
	for i, l := range lines {
		if strings.HasPrefix(l, "panic:") || strings.HasPrefix(l, "fatal error:") {
			for _, m := range lines[i:] {
				if f := reC20Frame.FindStringSubmatch(m); f != nil && !strings.HasPrefix(m, "\t") && !strings.Contains(f[1], "PanicOnError") {
					return strings.TrimSuffix(f[1], ".func1")
				}
			}
			return firstLine(l)
		}
	}
	return ""
}

func init() { runners["C20"] = runC20 }

type c20Case struct {
	Model *c20Model `json:"model"`
	Cmd   c20Cmd    `json:"cmd"`
}

func runC20(res *Result, tier string, rnd *Rand, replay string) {
	res.Rule = "generated valid models that are deliberately untidy (calls to missing applications and endpoints, self calls, call cycles, missing and cyclic type references, recursive types, unions, empty applications, self/cyclic/missing foreign keys, REST endpoints, a project listing a name that is no application) x the commands pb (textpb/json/pb), validate, sd (each endpoint), ints (plain/clustered/epa), datamodel (direct/project), diagram (integration/sequence), export (swagger/openapi2/openapi3/spanner/proto), generate-db-scripts(-delta); each as a subprocess of the sysl binary built from the working tree; non-trivial = the model has at least one untidy trait; distinct by (model text, command line)"
	bin := os.Getenv("VERIF_SYSL_BIN")
	if bin == "" {
		bin = "/verif/.cache/sysl"
	}
	if _, err := os.Stat(bin); err != nil {
		res.Disagree(Disagreement{What: "sysl binary not built: " + err.Error()})
		return
	}
	nModels := 14
	if tier == "thorough" {
		nModels = 260
	}
	var cases []c20Case
	if replay != "" {
		var rp struct {
			Input c20Case `json:"input"`
		}
		readJSON(replay, &rp)
		cases = []c20Case{rp.Input}
	} else {
		for _, m := range c20Corpus() {
			for _, c := range c20Commands(rnd, m) {
				cases = append(cases, c20Case{m, c})
			}
		}
		for i := 0; i < nModels; i++ {
			m := genUntidyModel(rnd)
			for _, c := range c20Commands(rnd, m) {
				cases = append(cases, c20Case{m, c})
			}
		}
	}
	work := filepath.Join(filepath.Dir(bin), "c20work")
	_ = os.RemoveAll(work)
	defer os.RemoveAll(work)
	type out struct {
		c      c20Case
		rc     int
		text   string
		timed  bool
		stdout int
	}
	results := make([]out, len(cases))
	var wg sync.WaitGroup
	sem := make(chan struct{}, workers(12))
	for i, c := range cases {
		wg.Add(1)
		sem <- struct{}{}
		go func(i int, c c20Case) {
			defer wg.Done()
			defer func() { <-sem }()
			dir := filepath.Join(work, fmt.Sprint(i))
			_ = os.MkdirAll(dir, 0o755)
			_ = os.WriteFile(filepath.Join(dir, "m.sysl"), []byte(c.Model.Text), 0o644)
			_ = os.WriteFile(filepath.Join(dir, "old.sysl"), []byte(c.Model.OldText), 0o644)
			for fn, ft := range c.Model.Files {
				_ = os.WriteFile(filepath.Join(dir, fn), []byte(ft), 0o644)
			}
			ctx, cancel := context.WithTimeout(context.Background(), 90*time.Second)
			defer cancel()
			// a hard cap on the address space: a command that recurses without end fails fast with a runtime
			// fatal error instead of eating the machine until the time limit
			shArgs := []string{"-c", `ulimit -v 6000000; exec "$0" "$@"`, bin}
			cmd := exec.CommandContext(ctx, "/bin/sh", append(shArgs, c.Cmd.Args...)...)
			cmd.Dir = dir
			cmd.Env = append(os.Environ(), "GOMEMLIMIT=2GiB", "GOTRACEBACK=single")
			var buf, so bytes.Buffer
			cmd.Stderr = &buf
			cmd.Stdout = &so
			err := cmd.Run()
			o := out{c: c, text: buf.String(), stdout: so.Len()}
			if ctx.Err() != nil {
				o.timed = true
			}
			if err != nil {
				if ee, ok := err.(*exec.ExitError); ok {
					o.rc = ee.ExitCode()
				} else {
					o.rc = -1
				}
			}
			results[i] = o
			_ = os.RemoveAll(dir)
		}(i, c)
	}
	wg.Wait()
	for i, o := range results {
		res.Eval(o.c.Model.Text+"\x00"+strings.Join(o.c.Cmd.Args, " "), len(o.c.Model.Traits) > 0)
		res.Traces++
		res.Count("cmd:" + o.c.Cmd.Name)
		crashed := strings.Contains(o.text, "panic:") || strings.Contains(o.text, "fatal error:") || strings.Contains(o.text, "\ngoroutine ")
		switch {
		case o.timed:
			res.Violate(Violation{Sig: "timeout:" + o.c.Cmd.Name, What: "command did not end within 90 s", Input: o.c})
		case crashed:
			site := c20Site(o.text)
			kind := "panic"
			if strings.Contains(o.text, "fatal error: stack overflow") {
				kind = "stack-overflow"
			}
			res.Violate(Violation{Sig: kind + ":" + o.c.Cmd.Name + ":" + site, What: "the command died with a Go " + kind + " at " + site, Input: o.c, Got: firstPanicLines(o.text)})
		case o.rc == 0:
			res.Count("exit-0")
		case o.rc > 0:
			res.Count("exit-nonzero")
			if o.c.Cmd.Name == "validate" || strings.HasPrefix(o.c.Cmd.Name, "pb-") {
				// the generated models are valid by construction: they compile on the unchanged tree
				res.Disagree(Disagreement{Input: o.c, What: "a generated valid model no longer compiles (" + o.c.Cmd.Name + ")", Impl: firstLine(o.text)})
			}
			if strings.Contains(o.text, "internal error:") {
				res.Count("recovered-internal-panic:" + o.c.Cmd.Name)
			}
			if strings.TrimSpace(o.text) == "" && o.stdout == 0 {
				res.Violate(Violation{Sig: "silent-failure:" + o.c.Cmd.Name, What: fmt.Sprintf("exit status %d with no message", o.rc), Input: o.c})
			}
		default:
			res.Violate(Violation{Sig: "killed:" + o.c.Cmd.Name, What: "the command was killed by a signal", Input: o.c, Got: firstPanicLines(o.text)})
		}
		if i%(len(results)/5+1) == 0 {
			res.Sample(map[string]any{"cmd": o.c.Cmd.Args, "traits": o.c.Model.Traits, "rc": o.rc, "stderr_head": firstLine(o.text)})
		}
	}
}

func firstPanicLines(s string) string {
	lines := strings.Split(s, "\n")
	for i, l := range lines {
		if strings.HasPrefix(l, "panic:") || strings.HasPrefix(l, "fatal error:") {
			end := i + 12
			if end > len(lines) {
				end = len(lines)
			}
			return strings.Join(lines[i:end], "\n")
		}
	}
	if len(s) > 600 {
		return s[:600]
	}
	return s
}
