package main

// C08 — recorded source locations point at the declaring text.
// The C02 generator writes a specification over one or two files (the second re-opens
// applications, types and endpoints of the first); the renderer records the line and column at
// which it wrote the first character of every application, type, field, endpoint, REST method,
// statement and annotation.  The real compiler's source_contexts are compared with these,
// declaration by declaration.  Model: SyslModel.Locate.

import (
	"fmt"
	"sort"
	"strings"
)

// a second file that re-opens applications of d
func genReopen(r *Rand, d *dFile) *dFile {
	g := &c02Gen{r: r, types: map[string][]string{}, fields: map[string][]string{}, maxDepth: 2}
	for _, a := range d.Apps {
		g.apps = append(g.apps, a.Parts)
	}
	out := &dFile{}
	for _, a := range d.Apps {
		if !r.Chance(2, 3) {
			continue
		}
		na := dApp{Parts: a.Parts, Attrs: dAttrs{Tags: []string{}, KV: []dKV{}}, Mixins: [][]string{}, Collector: []dTemplate{}, Subs: []dSub{}}
		// re-opened tuple types get new fields; new types get new names
		for ti, t := range a.Types {
			if (t.Kind == "type" || t.Kind == "table") && r.Chance(1, 2) {
				nt := dTypeDecl{Name: t.Name, Kind: t.Kind, Attrs: dAttrs{Tags: []string{}, KV: []dKV{}}, Items: []dEnumItem{}, Members: []dType{}}
				for k := 0; k < 1+r.Intn(2); k++ {
					nt.Fields = append(nt.Fields, dField{Name: fmt.Sprintf("g%d", k), Ty: dType{Prim: "string", RefApp: []string{}, RefPath: []string{}}, Attrs: dAttrs{Tags: []string{}, KV: []dKV{}}})
				}
				// a field of the first declaration declared again, now as a collection
				if len(t.Fields) > 0 && r.Chance(1, 2) {
					f0 := t.Fields[r.Intn(len(t.Fields))]
					for _, cand := range t.Fields { // prefer a field whose name is written with an escape
						if strings.Contains(cand.Name, "-") {
							f0 = cand
						}
					}
					nt.Fields = append(nt.Fields, dField{Name: f0.Name, Ty: dType{Wrap: Pick(r, []string{"set", "seq"}), Prim: "string", RefApp: []string{}, RefPath: []string{}}, Attrs: dAttrs{Tags: []string{}, KV: []dKV{}}})
				}
				// an array-valued annotation declared again, both times as an annotation line: two declarations,
				// two locations, in declaration order
				for _, kv := range t.Attrs.KV {
					if kv.V.Arr && len(kv.V.A) > 0 && r.Bool() {
						nt.Attrs.KV = append(nt.Attrs.KV, dKV{K: kv.K, V: dAttrVal{Arr: true, A: []dAttrVal{{S: "again"}, {S: "and again"}}}})
						nt.Attrs.ForceAnno = true
						for ai := range d.Apps {
							if appKey(d.Apps[ai].Parts) == appKey(a.Parts) {
								d.Apps[ai].Types[ti].Attrs.ForceAnno = true
							}
						}
						break
					}
				}
				na.Types = append(na.Types, nt)
			}
		}
		if r.Bool() {
			na.Types = append(na.Types, dTypeDecl{Name: "Extra", Kind: "type", Attrs: g.attrs(true), Items: []dEnumItem{}, Members: []dType{},
				Fields: []dField{{Name: "x", Ty: dType{Prim: "int", RefApp: []string{}, RefPath: []string{}}, Attrs: g.attrs(true)}}})
		}
		for _, e := range a.Eps {
			if !e.Event && r.Chance(1, 2) {
				ss := g.stmts(a.Parts, 1, 1+r.Intn(3))
				if ss[0].doc != nil { // a doc-string opening a re-opened body would join one that closes the first body
					ss[0] = dStmt{K: "action", T: "resume"}
				}
				if r.Chance(1, 4) {
					// mentioned again in the one-line placeholder form
					na.Eps = append(na.Eps, dEp{Name: e.Name, shortcut: true, Params: []dParam{}, Stmts: []dStmt{}, Attrs: dAttrs{Tags: []string{}, KV: []dKV{}}})
					continue
				}
				if r.Chance(1, 3) {
					// declared again with annotation lines only: no statement is added
					na.Eps = append(na.Eps, dEp{Name: e.Name, Params: []dParam{}, Stmts: []dStmt{},
						Attrs: dAttrs{Tags: []string{}, KV: []dKV{{K: "reopened", V: dAttrVal{S: "yes"}}}}})
					continue
				}
				na.Eps = append(na.Eps, dEp{Name: e.Name, Params: []dParam{}, Attrs: dAttrs{Tags: []string{}, KV: []dKV{}}, Stmts: ss})
			}
		}
		if r.Bool() {
			na.Eps = append(na.Eps, dEp{Name: "ExtraOp", Params: []dParam{}, Attrs: g.attrs(true), Stmts: g.stmts(a.Parts, 1, 1+r.Intn(3))})
		}
		if len(na.Types)+len(na.Eps) == 0 {
			continue
		}
		out.Apps = append(out.Apps, na)
	}
	return out
}

var c08NoLeadingFiller bool

func init() { runners["C08"] = runC08 }

func runC08(res *Result, tier string, rnd *Rand, replay string) {
	res.Rule = "generated specifications (C02 generator: applications, types, fields, endpoints, events, nested REST trees, statement trees, annotations) over one file or two (the second re-opening applications, tuple types and endpoints), rendered with random indentation unit, filler lines and comments, member order; the renderer records line and column of every element it writes; non-trivial = a specification that compiles and has at least one recorded element; distinct by text hash"
	n := 120
	if tier == "thorough" {
		n = 1200
	}
	kinds := map[string]int{}
	for i := 0; i < n; i++ {
		r := rnd.Fork()
		d := genDFile(r, tier)
		// a collector template replaces an endpoint's attribute by its own (with its own location):
		// C02 covers collectors, C08 leaves them out
		for ai := range d.Apps {
			d.Apps[ai].Collector = []dTemplate{}
		}
		// values that run over several lines (a quoted string may contain line breaks), with a short last line,
		// and placeholder declarations (`!type T: ...`) of types declared in full in the same application
		for ai := range d.Apps {
			a := &d.Apps[ai]
			ml := func() dKV {
				return dKV{K: "ml", V: dAttrVal{S: Pick(r, []string{"first line\nx", "a\n", "two\n  lines\nab", "long first line of a text that goes on\nz"})}}
			}
			if r.Chance(1, 3) {
				a.Attrs.KV = append(a.Attrs.KV, ml())
			}
			var extra []dTypeDecl
			for ti := range a.Types {
				t := &a.Types[ti]
				if (t.Kind == "type" || t.Kind == "table") && r.Chance(1, 5) {
					t.Attrs.KV = append(t.Attrs.KV, ml())
				}
				for fi := range t.Fields {
					if r.Chance(1, 10) {
						t.Fields[fi].Attrs.KV = append(t.Fields[fi].Attrs.KV, ml())
					}
				}
				if (t.Kind == "type" || t.Kind == "table") && len(t.Fields) > 0 && r.Chance(1, 5) {
					extra = append(extra, dTypeDecl{Name: t.Name, Kind: t.Kind, Attrs: emptyAttrs(), Fields: []dField{}, Items: []dEnumItem{}, Members: []dType{}, Placeholder: true})
				}
			}
			// before the full declarations half of the time (the renderer may still reorder members)
			if r.Bool() {
				a.Types = append(extra, a.Types...)
			} else {
				a.Types = append(a.Types, extra...)
			}
			for ei := range a.Eps {
				if r.Chance(1, 6) {
					a.Eps[ei].Attrs.KV = append(a.Eps[ei].Attrs.KV, ml())
				}
			}
		}
		var marks []c08Mark
		base := map[string]int{}
		two := r.Chance(1, 2)
		header := ""
		emptyOnly := two && r.Bool()
		if two {
			header = "import part2\n"
			if emptyOnly {
				// a file that holds nothing but an application without a body, walked just before part2
				header = "import emptyonly\nimport part2\n"
			}
			if r.Bool() {
				header += "\n"
			}
		}
		files := map[string]string{}
		var d2 *dFile
		if two {
			// decided before the root file is written: a re-declaration may ask for the form of the first declaration
			d2 = genReopen(r.Fork(), d)
		}
		files["main.sysl"] = renderDFileMarked(d, r.Fork(), "main.sysl", &marks, base, header)
		if two {
			// the root file may end with an application that has no body, and the next file may
			// start with its first application on the very first line
			if r.Bool() {
				t := files["main.sysl"]
				marks = append(marks, c08Mark{Path: `apps["EmptyTail"]`, File: "main.sysl", Line: strings.Count(t, "\n"), Col: 0, Tok: "EmptyTail"})
				files["main.sysl"] = t + "EmptyTail:\n    ...\n"
			}
			if emptyOnly {
				files["emptyonly.sysl"] = "EmptyOnly:\n    ...\n"
				marks = append(marks, c08Mark{Path: `apps["EmptyOnly"]`, File: "emptyonly.sysl", Line: 0, Col: 0, Tok: "EmptyOnly"})
			}
			c08NoLeadingFiller = r.Bool()
			files["part2.sysl"] = renderDFileMarked(d2, r.Fork(), "part2.sysl", &marks, base, "")
			c08NoLeadingFiller = false
		}
		in := map[string]any{"files": files}
		var locs map[string][]srcLoc
		var cerr string
		func() {
			defer Track(in)()
			defer func() {
				if x := recover(); x != nil {
					cerr = fmt.Sprint("panic: ", x)
				}
			}()
			m, err := compileFiles(files, "main.sysl")
			if err != nil {
				cerr = err.Error()
				return
			}
			locs = dumpLocs(m)
		}()
		key := hashOf(files)
		if cerr != "" {
			res.Count("not-compiling")
			res.Note("not compiling: %s", firstLine(cerr))
			res.Eval(key, false)
			continue
		}
		res.Traces++
		res.Eval(key, len(marks) > 0)
		// expected declarations per path, in declaration order (main.sysl first, then the import)
		exp := map[string][]c08Mark{}
		var order []string
		// the statements of an event are its own and the calls its subscribers add, in the order the files and
		// applications are walked: their indices are not the renderer's to know (C02 models that order)
		eventEp := map[string]bool{}
		for _, mk := range marks {
			if mk.Tok == "<->" {
				eventEp[mk.Path] = true
			}
		}
		for _, mk := range marks {
			if i := strings.Index(mk.Path, ".stmt["); i >= 0 && eventEp[mk.Path[:i]] {
				continue
			}
			if _, ok := exp[mk.Path]; !ok {
				order = append(order, mk.Path)
			}
			exp[mk.Path] = append(exp[mk.Path], mk)
		}
		sort.Strings(order)
		lines := map[string][]string{}
		for f, t := range files {
			lines[f] = strings.Split(t, "\n")
		}
		for _, p := range order {
			want := exp[p]
			got := locs[p]
			kind := c08Kind(p)
			kinds[kind]++
			viol := func(sig, what string, extra any) {
				res.Violate(Violation{Sig: sig + ":" + kind, What: what, Input: in, Want: want, Got: map[string]any{"path": p, "locations": got, "detail": extra}})
			}
			if isEvent := len(want) > 0 && want[0].Tok == "<->"; isEvent && len(got) < len(want) && len(got) <= 1 {
				// known finding: EnterEvent records a location only when it creates the endpoint; an event that a
				// subscriber written earlier has already brought into being, or a second block declaring the event,
				// finds it existing and records nothing
				res.Violate(Violation{Sig: "location-count:event-declaration-that-finds-the-event-existing", What: fmt.Sprintf("%s is declared %d time(s) but carries %d location(s)", p, len(want), len(got)), Input: in, Want: want, Got: map[string]any{"path": p, "locations": got}})
				continue
			}
			if len(got) != len(want) {
				viol("location-count", fmt.Sprintf("%s is declared %d time(s) but carries %d location(s)", p, len(want), len(got)), nil)
				continue
			}
			for j := range want {
				w, g := want[j], got[j]
				// self-check of the oracle: the renderer really wrote the element there
				if w.Tok != "" && (w.Line >= len(lines[w.File]) || !strings.HasPrefix(lines[w.File][w.Line][min(w.Col, len(lines[w.File][w.Line])):], w.Tok)) {
					res.Disagree(Disagreement{What: "renderer mark does not point at the element it wrote", Input: in, Model: w})
					continue
				}
				if g.File != w.File {
					viol("location-file", fmt.Sprintf("declaration %d of %s is in %s but its location names %s", j, p, w.File, g.File), nil)
					continue
				}
				if int(g.SLine) != w.Line || int(g.SCol) != w.Col {
					viol("location-start", fmt.Sprintf("declaration %d of %s starts at %d:%d but its location says %d:%d", j, p, w.Line, w.Col, g.SLine, g.SCol), nil)
					continue
				}
				fl := lines[g.File]
				if int(g.SLine) >= len(fl) || int(g.SCol) > len(fl[g.SLine]) {
					viol("location-outside-file", fmt.Sprintf("location %d:%d of %s lies outside %s", g.SLine, g.SCol, p, g.File), nil)
					continue
				}
				if g.ELine < g.SLine || (g.ELine == g.SLine && g.ECol < g.SCol) {
					viol("location-end-before-start", fmt.Sprintf("location of %s ends at %d:%d, before its start %d:%d", p, g.ELine, g.ECol, g.SLine, g.SCol), nil)
				}
			}
		}
		if i == 0 {
			res.Sample(map[string]any{"files": files, "marks": len(marks)})
		}
	}
	for k, v := range kinds {
		res.CountN("element:"+k, v)
	}
}

func c08Kind(path string) string {
	a := abstractRow(path)
	switch {
	case strings.HasSuffix(a, ".attrs[]"):
		return "annotation"
	case strings.Contains(a, ".stmt[]"):
		return "statement"
	case strings.Contains(a, "attr_defs[]"):
		return "field"
	case strings.HasSuffix(a, ".types[]"):
		return "type"
	case strings.HasSuffix(a, ".endpoints[]"):
		return "endpoint"
	case a == "apps[]":
		return "application"
	}
	return a
}
