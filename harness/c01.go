package main

// C01 — compilation is total: any input yields a model or an error, never a crash.
// Real code: parse.Parser.ParseFromFs in a guarded goroutine with a wall-clock bound.
// Model: SyslModel.Guard over the region tree regenerated from pkg/parse (Expect.C01).

import (
	"errors"
	"fmt"
	"os"
	"strings"
	"time"

	"github.com/anz-bank/sysl/pkg/parse"
	"github.com/anz-bank/sysl/pkg/syslutil"
	"github.com/spf13/afero"
)

type c01Case struct {
	Kind  string            `json:"kind"`
	Files map[string]string `json:"files"` // main.sysl is the root
}

// compileGuarded compiles main.sysl of files; classifies the outcome.
func compileGuarded(files map[string]string, bound time.Duration) (outcome string, detail string) {
	type res struct {
		ok     bool
		err    error
		panicv string
	}
	ch := make(chan res, 1)
	go func() {
		var r res
		defer func() {
			if x := recover(); x != nil {
				r.panicv = fmt.Sprint(x)
			}
			ch <- r
		}()
		fs := afero.NewMemMapFs()
		for n, c := range files {
			_ = afero.WriteFile(fs, n, []byte(c), 0o644)
		}
		m, err := parse.NewParser().ParseFromFs("main.sysl", fs)
		r.ok = m != nil
		r.err = err
	}()
	select {
	case r := <-ch:
		switch {
		case r.panicv != "":
			return "panic", r.panicv
		case r.err != nil:
			var ex syslutil.Exit
			if errors.As(r.err, &ex) && ex.Code == 0 {
				return "error-code-0", r.err.Error()
			}
			if r.ok {
				return "error-and-model", r.err.Error()
			}
			return "error", r.err.Error()
		case r.ok:
			return "model", ""
		default:
			return "nothing", "neither a model nor an error"
		}
	case <-time.After(bound):
		return "hang", ""
	}
}

var c01Prims = []string{"int", "int32", "int64", "float", "float32", "float64", "string", "bool", "date", "datetime", "decimal", "any", "bytes", "uuid", "xml"}

// grammar-directed templates: syntactically valid, semantically unusual
func c01Templates(r *Rand) []c01Case {
	var out []c01Case
	add := func(kind, src string) { out = append(out, c01Case{Kind: kind, Files: map[string]string{"main.sysl": src}}) }
	digits := func(n int) string { return strings.Repeat("9", n) }
	specs := []string{"(5)", "(0)", "(5..)", "(..5)", "(1..5)", "(5.2)", "(" + digits(20) + ")", "(" + digits(20) + ".." + digits(21) + ")", "(1." + digits(20) + ")", "(0..0)", "(5..1)"}
	for _, p := range c01Prims {
		for _, s := range specs {
			add("size-spec", fmt.Sprintf("A:\n    !type T:\n        x <: %s%s\n", p, s))
			add("size-spec-opt", fmt.Sprintf("A:\n    !type T:\n        x <: %s%s?\n", p, s))
			add("size-spec-seq", fmt.Sprintf("A:\n    !type T:\n        x <: sequence of %s%s\n", p, s))
			add("size-spec-param", fmt.Sprintf("A:\n    Ep (x <: %s%s):\n        ...\n", p, s))
			add("size-spec-table", fmt.Sprintf("A:\n    !table T:\n        x <: %s%s [~pk]\n", p, s))
		}
		add("array", fmt.Sprintf("A:\n    !type T:\n        x <: %s[5]\n", p))
		add("array2", fmt.Sprintf("A:\n    !type T:\n        x <: %s[1..%s]\n", p, digits(22)))
	}
	for _, s := range specs {
		add("size-spec-ref", fmt.Sprintf("A:\n    !type U:\n        y <: int\n    !type T:\n        x <: U%s\n", s))
		add("size-spec-alias", fmt.Sprintf("A:\n    !alias T:\n        string%s\n", s))
	}
	// %-escapes in every place a name or free text can stand
	escs := []string{"%zz", "%", "%2", "%G1", "%%", "50%", "a%20b", "%00", "%ff%fe", "100%!"}
	for _, e := range escs {
		add("esc-call", fmt.Sprintf("A:\n    Ep:\n        B <- Foo%s\nB:\n    Foo:\n        ...\n", e))
		add("esc-return", fmt.Sprintf("A:\n    Ep:\n        return %s\n", e))
		add("esc-return-typed", fmt.Sprintf("A:\n    Ep:\n        return ok <: %s\n", e))
		add("esc-action", fmt.Sprintf("A:\n    Ep:\n        do %s now\n", e))
		add("esc-app", fmt.Sprintf("A%s:\n    Ep:\n        ...\n", e))
		add("esc-type", fmt.Sprintf("A:\n    !type T%s:\n        x <: int\n", e))
		add("esc-field", fmt.Sprintf("A:\n    !type T:\n        x%s <: int\n", e))
		add("esc-ep", fmt.Sprintf("A:\n    Ep%s:\n        ...\n", e))
		add("esc-rest", fmt.Sprintf("A:\n    /a%s/{id <: int}:\n        GET:\n            ...\n", e))
		add("esc-attr", fmt.Sprintf("A [x=\"%s\"]:\n    Ep:\n        ...\n", e))
		add("esc-anno", fmt.Sprintf("A:\n    @x = \"%s\"\n    Ep:\n        ...\n", e))
		add("esc-event", fmt.Sprintf("A:\n    <-> Ev%s:\n        ...\n", e))
		add("esc-sub", fmt.Sprintf("A:\n    <-> Ev:\n        ...\nB:\n    A -> Ev%s:\n        ...\n", e))
		add("esc-mixin", fmt.Sprintf("A:\n    -|> B%s\nB:\n    Ep:\n        ...\n", e))
		add("esc-import-as", fmt.Sprintf("import foo as N%s\nA:\n    Ep:\n        ...\n", e))
	}
	// annotations of every shape, in every position
	for _, a := range []string{`@patterns = "x"`, `@patterns = ["a", ["b"]]`, `@x = 5`, `@x = ["a", 5]`, `@x =:` + "\n        | doc\n", `@patterns = []`, `@x = [[["deep"]]]`} {
		add("anno-app", fmt.Sprintf("A:\n    %s\n    Ep:\n        ...\n", a))
		add("anno-ep", fmt.Sprintf("A:\n    Ep:\n        %s\n        ...\n", a))
		add("anno-type", fmt.Sprintf("A:\n    !type T:\n        %s\n        x <: int\n", a))
		add("anno-field", fmt.Sprintf("A:\n    !type T:\n        x <: int:\n            %s\n", a))
	}
	for _, a := range []string{`[patterns="x"]`, `[~a, ~a]`, `[x=5]`, `[x=[["a"]]]`, `[~a+b]`, `[~]`, `[x=""]`} {
		add("attr-app", fmt.Sprintf("A %s:\n    Ep:\n        ...\n", a))
		add("attr-ep", fmt.Sprintf("A:\n    Ep %s:\n        ...\n", a))
		add("attr-stmt", fmt.Sprintf("A:\n    Ep:\n        do it %s\n", a))
		add("attr-field", fmt.Sprintf("A:\n    !type T:\n        x <: int %s\n", a))
	}
	// wrapped models, unions, aliases, enums, views
	add("wrap2", "A:\n    !wrap B:\n        !table T:\n            x <: int\n    !wrap C:\n        !table U:\n            y <: int\n")
	add("wrap-nested", "A:\n    !wrap B:\n        !wrap C:\n            !table T:\n                x <: int\n")
	add("union", "A:\n    !union U:\n        int\n        string\n        Missing\n")
	add("union-empty", "A:\n    !union U:\n        ...\n")
	add("enum-big", fmt.Sprintf("A:\n    !enum E:\n        X: %s\n        Y: -%s\n", digits(25), digits(25)))
	add("enum-dup", "A:\n    !enum E:\n        X: 1\n        X: 1\n")
	add("alias-self", "A:\n    !alias T:\n        T\n")
	add("alias-seq-self", "A:\n    !alias T:\n        sequence of T\n")
	add("view", "A:\n    !view v(x <: int) -> int:\n        x -> (:\n            y = x + 1\n        )\n")
	add("view-dots", "A:\n    !view v(x <: A.T) -> A.T:\n        x -> (:\n            .name\n            .id\n        )\n")
	add("rest-deep", "A:\n    /a:\n        /b:\n            /c/{x <: int}:\n                /d/{x <: string}:\n                    GET ?x=int&x=string:\n                        ...\n")
	add("rest-noverb", "A:\n    /a:\n        ...\n")
	add("empty", "")
	add("comment-only", "# nothing\n")
	add("bom", "\ufeffA:\n    Ep:\n        ...\n")
	add("crlf", "A:\r\n    Ep:\r\n        ...\r\n")
	add("nul", "A:\n    Ep:\n        do \x00 it\n")
	add("tabs-mixed", "A:\n\tEp:\n\t    do it\n        oops\n")
	add("same-app-twice", "A:\n    Ep:\n        ...\nA:\n    Ep:\n        ...\n")
	add("dup-endpoint", "A:\n    Ep:\n        a\n    Ep:\n        b\n")
	add("dup-rest", "A:\n    /x:\n        GET:\n            a\n    /x:\n        GET:\n            b\n")
	add("collector", "A:\n    .. * <- *:\n        Ep [~x]\n        Missing [~y]\n")
	add("collector-call", "A:\n    Ep:\n        B <- Q\n    .. * <- *:\n        B <- Q [~tag]\n        C <- Zed [~tag]\n")
	add("mixin-missing", "A:\n    -|> Nowhere\n    Ep:\n        ...\n")
	add("mixin-cycle", "A:\n    -|> B\nB:\n    -|> A\n")
	add("mixin-self", "A:\n    -|> A\n    !type T:\n        x <: int\n")
	// a cycle of mixins reached from an application that is not on it; a three-cycle; a diamond onto a cycle
	add("mixin-cycle-reached-from-outside", "Shop:\n    -|> Audited\n    !type Order:\n        x <: int\nAudited:\n    -|> Timestamped\n    !type AuditRecord:\n        x <: int\nTimestamped:\n    -|> Audited\n    !type Stamp:\n        x <: int\n")
	add("mixin-three-cycle", "A:\n    -|> B\n    !type TA:\n        x <: int\nB:\n    -|> C\n    !type TB:\n        x <: int\nC:\n    -|> A\n    !type TC:\n        x <: int\nD:\n    -|> A\n    -|> C\n")
	add("mixin-diamond-onto-cycle", "Top:\n    -|> L\n    -|> R\nL:\n    -|> X\nR:\n    -|> X\nX:\n    -|> Y\n    !view V(a <: int) -> int:\n        a -> (:\n            out = a\n        )\nY:\n    -|> X\n    !type TY:\n        x <: int\n")
	add("sub-missing", "A:\n    Nowhere -> Ev:\n        ...\n")
	add("call-missing", "A:\n    Ep:\n        Nowhere <- Ep\n        . <- Nope\n")
	add("self-call", "A:\n    Ep:\n        . <- Ep\n")
	add("deep-if", "A:\n    Ep:\n"+deepIf(120))
	add("long-line", "A:\n    Ep:\n        do "+strings.Repeat("x ", 20000)+"\n")
	add("ns", "A :: B :: C:\n    Ep:\n        A :: B :: C <- Ep\n")
	add("ns-odd", "A ::  :: C:\n    Ep:\n        ...\n")
	add("import-self", "import main\nA:\n    Ep:\n        ...\n")
	add("import-missing", "import nothere\nA:\n    Ep:\n        ...\n")
	add("import-foreign-missing", "import x.yaml as Foo\nA:\n    Ep:\n        ...\n")
	add("import-after-app", "A:\n    Ep:\n        ...\nimport b\n")
	// references of every shape
	for _, t := range []string{"A.T", "T.x", "A.T.x", "Missing", "Missing.T", "A.Missing.x.y", ".T", "T.", "A :: B.T", "set of set of T", "sequence of sequence of int", "set of A.Missing?"} {
		add("ref", fmt.Sprintf("A:\n    !type T:\n        x <: int\n        y <: %s\n", t))
		add("ref-param", fmt.Sprintf("A:\n    Ep (p <: %s):\n        return ok <: %s\n", t, t))
	}
	// import closures in which one file is imported under two names / versions while a sibling
	// chain is still being collected (the conflict is an error; it must be reported, not hang)
	multi := func(kind string, files map[string]string) { out = append(out, c01Case{Kind: kind, Files: files}) }
	leafApp := "S:\n    Ep:\n        ...\n"
	multi("import-conflict-appname", map[string]string{
		"main.sysl": "import shared as Common\nimport b\nA:\n    Ep:\n        ...\n",
		"b.sysl":    "import shared as Shared\nimport c\nB:\n    Ep:\n        ...\n",
		"c.sysl":    "import d\nC:\n    Ep:\n        ...\n", "d.sysl": "D:\n    Ep:\n        ...\n", "shared.sysl": leafApp})
	multi("import-conflict-appname-2", map[string]string{
		"main.sysl": "import b\nimport shared as One\nimport c\nA:\n    Ep:\n        ...\n",
		"b.sysl":    "import c\nimport shared as Two\nB:\n    Ep:\n        ...\n",
		"c.sysl":    "import d\nimport shared as Three\nC:\n    Ep:\n        ...\n", "d.sysl": "import shared\nD:\n    Ep:\n        ...\n", "shared.sysl": leafApp})
	multi("import-same-twice", map[string]string{
		"main.sysl": "import shared\nimport shared\nimport ./shared\nA:\n    Ep:\n        ...\n", "shared.sysl": leafApp})
	multi("import-diamond-cycle", map[string]string{
		"main.sysl": "import b\nimport c\nA:\n    Ep:\n        ...\n", "b.sysl": "import d\nB:\n    Ep:\n        ...\n",
		"c.sysl": "import d\nimport main\nC:\n    Ep:\n        ...\n", "d.sysl": "import b\nD:\n    Ep:\n        ...\n"})
	// import closures that are deep or wide: every file is valid, the closure must still end
	app := func(i int) string { return fmt.Sprintf("F%d:\n    Ep:\n        ...\n", i) }
	for _, n := range []int{9, 10, 12, 25, 60} {
		files := map[string]string{}
		for i := 0; i < n; i++ {
			name := fmt.Sprintf("f%d.sysl", i)
			if i == 0 {
				name = "main.sysl"
			}
			imp := ""
			if i+1 < n {
				imp = fmt.Sprintf("import f%d\n", i+1)
			}
			files[name] = imp + app(i)
		}
		multi(fmt.Sprintf("import-chain-%d", n), files)
	}
	for _, n := range []int{7, 8, 9, 16, 30} {
		// a fan: n imports, each with a private import of its own (and one leaf they all share)
		files := map[string]string{"shared.sysl": leafApp}
		var root strings.Builder
		for i := 0; i < n; i++ {
			fmt.Fprintf(&root, "import m%d\n", i)
			files[fmt.Sprintf("m%d.sysl", i)] = fmt.Sprintf("import l%d\nimport shared\n", i) + app(i)
			files[fmt.Sprintf("l%d.sysl", i)] = app(100 + i)
		}
		files["main.sysl"] = root.String() + "Root:\n    Ep:\n        ...\n"
		multi(fmt.Sprintf("import-fan-%d", n), files)
	}
	{
		// a tree of depth 4 and fan-out 3 whose leaves import the root again
		files := map[string]string{}
		var build func(name string, depth int)
		id := 0
		build = func(name string, depth int) {
			id++
			my := id
			var b strings.Builder
			if depth < 4 {
				for k := 0; k < 3; k++ {
					child := fmt.Sprintf("t%d_%d", my, k)
					fmt.Fprintf(&b, "import %s\n", child)
					build(child+".sysl", depth+1)
				}
			} else {
				b.WriteString("import main\n")
			}
			files[name] = b.String() + app(my)
		}
		build("main.sysl", 0)
		multi("import-tree-3x4", files)
	}
	// foreign files in the closure that the converters cannot digest (some make the converter itself fail)
	foreign := func(kind, ext, mode, content string) {
		for depth := 1; depth <= 2; depth++ {
			files := map[string]string{"dep" + ext: content}
			imp := fmt.Sprintf("import dep%s as Dep :: Api %s\n", ext, mode)
			if depth == 1 {
				files["main.sysl"] = imp + "App:\n    Ep:\n        Dep :: Api <- GET /a\n"
			} else {
				files["main.sysl"] = "import mid\nApp:\n    Ep:\n        ...\n"
				files["mid.sysl"] = imp + "Mid:\n    Ep:\n        ...\n"
			}
			multi(fmt.Sprintf("import-foreign-%s-depth%d", kind, depth), files)
		}
	}
	foreign("swagger-null-parameter", ".yaml", "~swagger", "swagger: '2.0'\npaths:\n  /a:\n    get:\n      parameters:\n        - null\n")
	foreign("swagger-null-path", ".yaml", "~swagger", "swagger: '2.0'\npaths:\n  /a: null\n")
	foreign("swagger-null-operation", ".yaml", "~swagger", "swagger: '2.0'\npaths:\n  /a:\n    get: null\n")
	foreign("swagger-null-response", ".yaml", "~swagger", "swagger: '2.0'\npaths:\n  /a:\n    get:\n      responses:\n        200: null\n")
	foreign("swagger-null-definition", ".yaml", "~swagger", "swagger: '2.0'\npaths: {}\ndefinitions:\n  T: null\n")
	foreign("swagger-null-property", ".yaml", "~swagger", "swagger: '2.0'\npaths: {}\ndefinitions:\n  T:\n    type: object\n    properties:\n      x: null\n")
	foreign("swagger-bad-ref", ".yaml", "~swagger", "swagger: '2.0'\npaths: {}\ndefinitions:\n  T:\n    $ref: '#/definitions/Missing'\n")
	foreign("swagger-empty", ".yaml", "~swagger", "")
	foreign("swagger-scalar", ".yaml", "~swagger", "42\n")
	foreign("swagger-not-yaml", ".yaml", "~swagger", "{[}\n")
	foreign("openapi3-null-parameter", ".yaml", "~openapi3", "openapi: 3.0.0\ninfo: {title: t, version: '1'}\npaths:\n  /a:\n    get:\n      parameters:\n        - null\n      responses: {}\n")
	foreign("openapi3-null-schema", ".yaml", "~openapi3", "openapi: 3.0.0\ninfo: {title: t, version: '1'}\npaths: {}\ncomponents:\n  schemas:\n    T: null\n")
	foreign("openapi3-empty", ".yaml", "~openapi3", "")
	foreign("xsd-garbage", ".xsd", "~xsd", "<xs:schema xmlns:xs=\"http://www.w3.org/2001/XMLSchema\"><xs:complexType></xs:schema>")
	foreign("xsd-empty", ".xsd", "~xsd", "")
	foreign("json-garbage", ".json", "~swagger", "{\"swagger\": \"2.0\", \"paths\": {\"/a\": {\"get\": {\"parameters\": [null]}}}}")
	foreign("no-mode", ".yaml", "", "swagger: '2.0'\npaths:\n  /a:\n    get:\n      parameters:\n        - null\n")
	_ = r
	return out
}

func deepIf(n int) string {
	var b strings.Builder
	for i := 0; i < n; i++ {
		b.WriteString(strings.Repeat(" ", 8+4*i) + "if x:\n")
	}
	b.WriteString(strings.Repeat(" ", 8+4*n) + "do it\n")
	return b.String()
}

// near-misses of corpus files
func c01Mutate(r *Rand, text string) string {
	lines := strings.SplitAfter(text, "\n")
	switch r.Intn(9) {
	case 0: // delete a line
		if len(lines) > 1 {
			i := r.Intn(len(lines))
			lines = append(lines[:i], lines[i+1:]...)
		}
	case 1: // duplicate a line
		i := r.Intn(len(lines))
		lines = append(lines[:i+1], lines[i:]...)
	case 2: // swap two lines
		if len(lines) > 1 {
			i, j := r.Intn(len(lines)), r.Intn(len(lines))
			lines[i], lines[j] = lines[j], lines[i]
		}
	case 3: // truncate
		t := strings.Join(lines, "")
		if len(t) > 0 {
			return t[:r.Intn(len(t))]
		}
	case 4: // drop a token-ish piece
		i := r.Intn(len(lines))
		f := strings.Fields(lines[i])
		if len(f) > 1 {
			k := r.Intn(len(f))
			lead := lines[i][:len(lines[i])-len(strings.TrimLeft(lines[i], " \t"))]
			f = append(f[:k], f[k+1:]...)
			lines[i] = lead + strings.Join(f, " ") + "\n"
		}
	case 5: // change indentation of a line
		i := r.Intn(len(lines))
		lines[i] = strings.Repeat(" ", r.Intn(12)) + strings.TrimLeft(lines[i], " \t")
	case 6: // random bytes
		t := []byte(strings.Join(lines, ""))
		for k := 0; k < 1+r.Intn(4) && len(t) > 0; k++ {
			t[r.Intn(len(t))] = byte(r.Intn(256))
		}
		return string(t)
	case 7: // insert a character from the grammar's punctuation
		i := r.Intn(len(lines))
		p := Pick(r, []string{"<:", "<-", "->", "[", "]", "(", ")", "{", "}", "@", "!", "~", "|", "?", "%", ":", "..", "::", "\"", "'", "#", "="})
		pos := 0
		if len(lines[i]) > 0 {
			pos = r.Intn(len(lines[i]))
		}
		lines[i] = lines[i][:pos] + p + lines[i][pos:]
	case 8: // numbers become huge
		i := r.Intn(len(lines))
		lines[i] = strings.Map(func(c rune) rune { return c }, strings.ReplaceAll(lines[i], "1", "99999999999999999999"))
	}
	return strings.Join(lines, "")
}

func init() { runners["C01"] = runC01 }

func runC01(res *Result, tier string, rnd *Rand, replay string) {
	res.Rule = "grammar-directed templates (size specs on every primitive incl. 20-digit numbers, optional/sequence/table/parameter positions; %-escapes in every name and text position; annotations and attributes of every shape in every position; wrapped models, unions, enums, aliases, views, deep REST paths, collectors, mixin cycles, dangling references, BOM/CRLF/NUL, 120-deep nesting, namespace oddities, import forms) plus near-misses of corpus files (line deletion/duplication/swap, truncation, token drop, re-indentation, random bytes, punctuation insertion, huge numbers), alone and as an imported file; non-trivial = the input is accepted by the grammar (reaches the tree walk) or is a mutated corpus file; distinct by text"
	var cases []c01Case
	if replay != "" {
		var rp struct {
			Input c01Case `json:"input"`
		}
		readJSON(replay, &rp)
		cases = []c01Case{rp.Input}
	} else {
		cases = c01Templates(rnd)
		perFile := 2
		if tier == "thorough" {
			perFile = 40
		}
		for _, f := range corpusSysl() {
			b, err := os.ReadFile(f)
			if err != nil || len(b) > 40000 {
				continue
			}
			for k := 0; k < perFile; k++ {
				m := string(b)
				for j := 0; j < 1+rnd.Intn(3); j++ {
					m = c01Mutate(rnd, m)
				}
				if rnd.Chance(1, 4) {
					cases = append(cases, c01Case{Kind: "mutated-import:" + relRepo(f), Files: map[string]string{"main.sysl": "import dep\nRoot:\n    Ep:\n        ...\n", "dep.sysl": m}})
				} else {
					cases = append(cases, c01Case{Kind: "mutated:" + relRepo(f), Files: map[string]string{"main.sysl": m}})
				}
			}
		}
		// templates also reached through an import
		for _, c := range c01Templates(rnd) {
			if rnd.Chance(1, 6) {
				cases = append(cases, c01Case{Kind: "import+" + c.Kind, Files: map[string]string{"main.sysl": "import dep\nRoot:\n    Ep:\n        ...\n", "dep.sysl": c.Files["main.sysl"]}})
			}
		}
	}
	sem := make(chan struct{}, workers(8))
	type out struct {
		c       c01Case
		outcome string
		detail  string
	}
	results := make(chan out, len(cases))
	for _, c := range cases {
		sem <- struct{}{}
		go func(c c01Case) {
			defer func() { <-sem }()
			done := Track(c)
			o, d := compileGuarded(c.Files, 60*time.Second)
			if o != "hang" {
				done()
			}
			results <- out{c, o, d}
		}(c)
	}
	for range cases {
		o := <-results
		txt := o.c.Files["main.sysl"] + o.c.Files["dep.sysl"]
		reachedWalk := o.outcome == "model" || (o.outcome == "error" && !strings.Contains(o.detail, "has syntax errors")) || o.outcome == "panic"
		res.Eval(txt, reachedWalk || strings.HasPrefix(o.c.Kind, "mutated"))
		res.Count("outcome:" + o.outcome)
		kind := strings.SplitN(o.c.Kind, ":", 2)[0]
		res.Count("kind:" + kind)
		switch o.outcome {
		case "model", "error":
			if o.outcome == "error" && strings.Contains(o.detail, "cannot be compiled") {
				res.Count("recovered-panic")
			}
		case "panic":
			res.Violate(Violation{Sig: "panic:" + c01Site(o.detail), What: "compilation panicked: " + firstLine(o.detail), Input: o.c})
		case "hang":
			res.Violate(Violation{Sig: "hang", What: "compilation did not return within 60 s", Input: o.c})
		default:
			res.Violate(Violation{Sig: o.outcome, What: "compilation ended with " + o.outcome + ": " + firstLine(o.detail), Input: o.c})
		}
		if res.Evaluations%(len(cases)/5+1) == 0 {
			res.Sample(map[string]any{"kind": o.c.Kind, "outcome": o.outcome, "text_head": txt[:min(160, len(txt))]})
		}
	}
	res.Traces = res.Evaluations
}

// c01Site: a short stable name for where the panic came from (message without variable parts)
func c01Site(msg string) string {
	m := firstLine(msg)
	for _, cut := range []string{":", "\""} {
		if i := strings.Index(m, cut); i > 8 {
			m = m[:i]
		}
	}
	return m
}
