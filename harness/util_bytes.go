package main

import "bytes"

func bytesReader(b []byte) *bytes.Reader { return bytes.NewReader(b) }
