package main

// C18 — File access never escapes the project root.
// Real code: syslutil.ChrootFs over a recording afero.Fs. Model: SyslModel.Path.

import (
	"fmt"
	"io"
	"os"
	"path/filepath"
	"runtime"
	"sort"
	"strings"
	"sync"
	"time"

	"github.com/anz-bank/sysl/pkg/loader"
	"github.com/anz-bank/sysl/pkg/syslutil"
	"github.com/sirupsen/logrus"
	"github.com/spf13/afero"
)

type recCall struct {
	Method string   `json:"method"`
	Paths  []string `json:"paths"`
}

// recFs records every path that reaches the filesystem underneath ChrootFs.
type recFs struct {
	afero.Fs
	calls []recCall
}

func (r *recFs) rec(m string, p ...string) { r.calls = append(r.calls, recCall{m, p}) }
func (r *recFs) Create(n string) (afero.File, error) {
	r.rec("Create", n)
	return nil, os.ErrNotExist
}
func (r *recFs) Mkdir(n string, p os.FileMode) error    { r.rec("Mkdir", n); return nil }
func (r *recFs) MkdirAll(n string, p os.FileMode) error { r.rec("MkdirAll", n); return nil }
func (r *recFs) Open(n string) (afero.File, error) {
	r.rec("Open", n)
	return nil, os.ErrNotExist
}
func (r *recFs) OpenFile(n string, f int, p os.FileMode) (afero.File, error) {
	r.rec("OpenFile", n)
	return nil, os.ErrNotExist
}
func (r *recFs) Remove(n string) error    { r.rec("Remove", n); return nil }
func (r *recFs) RemoveAll(n string) error { r.rec("RemoveAll", n); return nil }
func (r *recFs) Rename(o, n string) error { r.rec("Rename", o, n); return nil }
func (r *recFs) Stat(n string) (os.FileInfo, error) {
	r.rec("Stat", n)
	return nil, os.ErrNotExist
}
func (r *recFs) Name() string                                 { return "rec" }
func (r *recFs) Chmod(n string, m os.FileMode) error          { r.rec("Chmod", n); return nil }
func (r *recFs) Chown(n string, u, g int) error               { r.rec("Chown", n); return nil }
func (r *recFs) Chtimes(n string, a time.Time, m time.Time) error { r.rec("Chtimes", n); return nil }

var c18Ops = []string{"Create", "Mkdir", "MkdirAll", "Open", "OpenFile", "Remove", "RemoveAll",
	"Rename", "Stat", "Chmod", "Chown", "Chtimes"}

// callOp invokes one ChrootFs operation by name. Two-path operations use both names.
func callOp(fs *syslutil.ChrootFs, op string, a, b string) {
	defer func() { _ = recover() }() // nil File/FileInfo type assertions in wrappers
	switch op {
	case "Create":
		_, _ = fs.Create(a)
	case "Mkdir":
		_ = fs.Mkdir(a, 0o755)
	case "MkdirAll":
		_ = fs.MkdirAll(a, 0o755)
	case "Open":
		_, _ = fs.Open(a)
	case "OpenFile":
		_, _ = fs.OpenFile(a, os.O_RDONLY, 0)
	case "Remove":
		_ = fs.Remove(a)
	case "RemoveAll":
		_ = fs.RemoveAll(a)
	case "Rename":
		_ = fs.Rename(a, b)
	case "Stat":
		_, _ = fs.Stat(a)
	case "Chmod":
		_ = fs.Chmod(a, 0o644)
	case "Chown":
		_ = fs.Chown(a, 0, 0)
	case "Chtimes":
		_ = fs.Chtimes(a, time.Time{}, time.Time{})
	}
}

// underRoot: model-free statement of the property on one recorded path.
func underRoot(root, p string) bool {
	root = filepath.Clean(root)
	p = filepath.Clean(p)
	if root == "/" {
		return strings.HasPrefix(p, "/")
	}
	return p == root || strings.HasPrefix(p, root+"/")
}

var c18Alphabet = []string{"", ".", "..", "a", "b.c", "d e", "..x", "r"}
var c18Roots = []string{"/", "/r", "/r/s", "/r/s/t"}

func c18EnumNames(maxSeg int, f func(string)) {
	var rec func(prefix []string, n int)
	rec = func(prefix []string, n int) {
		if len(prefix) > 0 {
			s := strings.Join(prefix, "/")
			f(s)
			f("/" + s)
		}
		if n == 0 {
			return
		}
		for _, a := range c18Alphabet {
			rec(append(prefix, a), n-1)
		}
	}
	f("")
	f("/")
	rec(nil, maxSeg)
}

func c18RandName(r *Rand) string {
	pool := []string{"", ".", "..", "a", "b.c", "d e", "..x", "...", "é", "x y", "r", "s", "t", ". .", "a..", "\\", "..\\x"}
	n := 1 + r.Intn(14)
	segs := make([]string, n)
	for i := range segs {
		segs[i] = Pick(r, pool)
	}
	s := strings.Join(segs, "/")
	if r.Chance(1, 3) {
		s = "/" + s
	}
	if r.Chance(1, 8) {
		s += "/"
	}
	return s
}

type c18Case struct {
	Root, Name string
}

func init() { runners["C18"] = runC18 }

func runC18(res *Result, tier string, rnd *Rand, replay string) {
	res.Rule = "names = every sequence over the segment alphabet {'', '.', '..', 'a', 'b.c', 'd e', '..x', 'r'} up to L segments, relative and absolute, x roots of depth 0..3 (exhaustive), plus random longer names; non-trivial = name contains a '..', '.', empty or trailing segment (cleaning does work); distinct by (root,name). Every ChrootFs operation is also driven over a recording filesystem."
	if runtime.GOOS != "linux" {
		res.Note("non-linux host: model is Unix-only")
	}
	maxSeg, nRandom := 4, 40000
	if tier == "thorough" {
		maxSeg, nRandom = 6, 600000
	}
	var cases []c18Case
	if replay != "" {
		var rp struct {
			Input struct {
				Root  string   `json:"root"`
				Name  string   `json:"name"`
				Op    string   `json:"op"`
				Paths []string `json:"paths"`
			} `json:"input"`
		}
		readJSON(replay, &rp)
		name := rp.Input.Name
		if name == "" && len(rp.Input.Paths) > 0 {
			name = rp.Input.Paths[len(rp.Input.Paths)-1]
		}
		cases = append(cases, c18Case{rp.Input.Root, name})
	} else {
		for _, root := range c18Roots {
			c18EnumNames(maxSeg, func(n string) { cases = append(cases, c18Case{root, n}) })
		}
		res.Exhaustive = true
		res.CountN("exhaustive_cases", len(cases))
		for i := 0; i < nRandom; i++ {
			cases = append(cases, c18Case{Pick(rnd, c18Roots), c18RandName(rnd)})
		}
	}

	// ---- B1/B2a: single-path behaviour (join, allowed) via Stat on the real wrapper ----
	type implOut struct {
		Clean, Join, Rel string
		Allowed          bool
	}
	impl := make([]implOut, len(cases))
	reqs := make([]any, len(cases))
	for i, c := range cases {
		rf := &recFs{Fs: afero.NewMemMapFs()}
		cfs := syslutil.NewChrootFs(rf, c.Root)
		callOp(cfs, "Stat", c.Name, "")
		j, _ := filepath.Abs(filepath.Join(c.Root, c.Name))
		rl, _ := filepath.Rel(c.Root, j)
		o := implOut{Clean: filepath.Clean(c.Name), Join: j, Rel: rl, Allowed: len(rf.calls) == 1}
		if len(rf.calls) == 1 {
			o.Join = rf.calls[0].Paths[0] // what the wrapper really handed down
		}
		// direct oracle: the path that reached the base filesystem is under the root
		for _, rc := range rf.calls {
			for _, p := range rc.Paths {
				if !underRoot(c.Root, p) {
					res.Violate(Violation{Sig: "Stat:arg0:escape", What: "Stat reached a path outside the root", Input: c, Got: p})
				}
			}
		}
		impl[i] = o
		reqs[i] = map[string]any{"op": "path.all", "root": c.Root, "name": c.Name}
		nontrivial := strings.Contains(c.Name, "..") || strings.Contains(c.Name, "/./") || strings.Contains(c.Name, "//") || strings.HasSuffix(c.Name, "/")
		res.Eval(c.Root+"\x00"+c.Name, nontrivial)
		if o.Allowed {
			res.Count("allowed")
		} else {
			res.Count("denied")
		}
	}
	reps, err := RunOracleChunks(reqs, runtime.NumCPU())
	if err != nil {
		res.Note("oracle failure: %v", err)
		res.Disagree(Disagreement{What: "oracle failed: " + err.Error()})
		return
	}
	// direct oracle (model-free): spellings that stay inside the root and have the same lexical
	// normal form must resolve to the same file
	type grp struct {
		join string
		name string
	}
	sameFile := map[string]grp{}
	for i, c := range cases {
		if !impl[i].Allowed {
			continue
		}
		// stays inside: walk depth never negative
		d, ok := 0, true
		for _, sg := range strings.Split(c.Name, "/") {
			switch sg {
			case "", ".":
			case "..":
				d--
				if d < 0 {
					ok = false
				}
			default:
				d++
			}
		}
		if !ok {
			continue
		}
		key := c.Root + "\x00" + filepath.Clean("/"+c.Name)
		if g, has := sameFile[key]; has {
			if g.join != impl[i].Join {
				res.Violate(Violation{Sig: "spelling-dependent", What: "two spellings of the same in-root path resolve to different files",
					Input: map[string]any{"root": c.Root, "name": c.Name, "other": g.name}, Got: impl[i].Join, Want: g.join})
			}
		} else {
			sameFile[key] = grp{impl[i].Join, c.Name}
		}
	}
	for i, c := range cases {
		m := reps[i]
		o := impl[i]
		if mstr(m, "clean") != o.Clean || mstr(m, "join") != o.Join || mbool(m, "allowed") != o.Allowed || mstr(m, "rel") != o.Rel {
			res.Disagree(Disagreement{Input: c, Model: m, Impl: o, What: "clean/join/rel/allowed differ"})
		}
		// inside_ok on the implementation: names that stay inside must be accepted
		if mbool(m, "inside") && !o.Allowed {
			res.Violate(Violation{Sig: "inside-refused", What: "a path that stays inside the root was refused", Input: c})
		}
		if i%(len(cases)/5+1) == 0 {
			res.Sample(map[string]any{"root": c.Root, "name": c.Name, "impl": o, "model": m})
		}
		res.Traces++
	}

	// ---- B2b: every operation of the wrapper, with escaping and inside names ----
	tab, err := RunOracle([]any{map[string]any{"op": "path.optable"}})
	if err != nil {
		res.Disagree(Disagreement{What: "oracle failed: " + err.Error()})
		return
	}
	kinds := map[string][]string{}
	if ops, ok := tab[0]["ops"].([]any); ok {
		for _, o := range ops {
			om := o.(map[string]any)
			kinds[mstr(om, "name")] = mstrs(om, "kinds")
		}
	}
	for _, op := range c18Ops {
		if _, ok := kinds[op]; !ok {
			res.Disagree(Disagreement{What: "operation " + op + " missing from the regenerated ChrootOps table", Input: op})
		}
	}
	var opNames []string
	if replay != "" {
		for _, c := range cases {
			opNames = append(opNames, c.Name)
		}
	} else {
		for _, n := range []string{"a", "a/b", "../x", "../../x", "/etc/passwd", "a/../../x", "..", "./a/./..", "a//b/", "/", "", "../r/k", "../../r/s/k", "..x/y", "a/../..x"} {
			opNames = append(opNames, n)
		}
		for i := 0; i < 40; i++ {
			opNames = append(opNames, c18RandName(rnd))
		}
	}
	var opReqs []any
	type opCase struct {
		Root, Op string
		Paths    []string
		Seen     []string
		Denied   bool
	}
	var opCases []opCase
	for _, root := range c18Roots {
		for _, op := range c18Ops {
			for _, a := range opNames {
				bs := []string{""}
				if op == "Rename" {
					bs = opNames
				}
				for _, b := range bs {
					rf := &recFs{Fs: afero.NewMemMapFs()}
					cfs := syslutil.NewChrootFs(rf, root)
					callOp(cfs, op, a, b)
					oc := opCase{Root: root, Op: op, Paths: []string{a}}
					if op == "Rename" {
						oc.Paths = append(oc.Paths, b)
					}
					oc.Denied = len(rf.calls) == 0
					for _, rc := range rf.calls {
						for ai, p := range rc.Paths {
							oc.Seen = append(oc.Seen, p)
							if !underRoot(root, p) {
								res.Violate(Violation{Sig: fmt.Sprintf("%s:arg%d:escape", op, ai),
									What:  fmt.Sprintf("%s handed a path outside the root to the underlying filesystem (argument %d)", op, ai),
									Input: map[string]any{"root": root, "op": op, "paths": oc.Paths}, Got: p})
							}
						}
					}
					opCases = append(opCases, oc)
					opReqs = append(opReqs, map[string]any{"op": "path.op", "root": root, "name": op, "kinds": kinds[op], "paths": oc.Paths})
					res.Eval("op\x00"+root+"\x00"+op+"\x00"+strings.Join(oc.Paths, "\x00"), true)
					res.Count("op:" + op)
				}
			}
		}
	}
	oreps, err := RunOracleChunks(opReqs, runtime.NumCPU())
	if err != nil {
		res.Disagree(Disagreement{What: "oracle failed: " + err.Error()})
		return
	}
	for i, oc := range opCases {
		m := oreps[i]
		md := mbool(m, "denied")
		ms := mstrs(m, "seen")
		if md != oc.Denied || (!md && strings.Join(ms, "\x00") != strings.Join(oc.Seen, "\x00")) {
			res.Disagree(Disagreement{Input: oc, Model: m, Impl: map[string]any{"denied": oc.Denied, "seen": oc.Seen}, What: "operation: paths reaching the base filesystem differ"})
		}
		res.Traces++
	}
	if len(opCases) > 0 {
		res.Sample(opCases[len(opCases)/2])
	}
	if replay == "" {
		c18Loader(res, rnd, tier)
	}
}

// ---- the loader: a recording filesystem underneath loader.LoadSyslModule with an explicit root ----

type passRecFs struct {
	afero.Fs
	mu    sync.Mutex
	calls []recCall
}

func (r *passRecFs) rec(m string, p ...string) {
	r.mu.Lock()
	r.calls = append(r.calls, recCall{m, p})
	r.mu.Unlock()
}
func (r *passRecFs) Create(n string) (afero.File, error) { r.rec("Create", n); return r.Fs.Create(n) }
func (r *passRecFs) Mkdir(n string, p os.FileMode) error { r.rec("Mkdir", n); return r.Fs.Mkdir(n, p) }
func (r *passRecFs) MkdirAll(n string, p os.FileMode) error {
	r.rec("MkdirAll", n)
	return r.Fs.MkdirAll(n, p)
}
func (r *passRecFs) Open(n string) (afero.File, error) { r.rec("Open", n); return r.Fs.Open(n) }
func (r *passRecFs) OpenFile(n string, f int, p os.FileMode) (afero.File, error) {
	r.rec("OpenFile", n)
	return r.Fs.OpenFile(n, f, p)
}
func (r *passRecFs) Remove(n string) error              { r.rec("Remove", n); return r.Fs.Remove(n) }
func (r *passRecFs) RemoveAll(n string) error           { r.rec("RemoveAll", n); return r.Fs.RemoveAll(n) }
func (r *passRecFs) Rename(o, n string) error           { r.rec("Rename", o, n); return r.Fs.Rename(o, n) }
func (r *passRecFs) Stat(n string) (os.FileInfo, error) { r.rec("Stat", n); return r.Fs.Stat(n) }
func (r *passRecFs) Chmod(n string, m os.FileMode) error {
	r.rec("Chmod", n)
	return r.Fs.Chmod(n, m)
}
func (r *passRecFs) Chown(n string, u, g int) error { r.rec("Chown", n); return r.Fs.Chown(n, u, g) }
func (r *passRecFs) Chtimes(n string, a time.Time, m time.Time) error {
	r.rec("Chtimes", n)
	return r.Fs.Chtimes(n, a, m)
}

// c18Loader: module arguments and import statements of every spelling, loaded through the loader with the
// root /work/proj; nothing outside the root may reach the filesystem, and spellings that stay inside load
func c18Loader(res *Result, rnd *Rand, tier string) {
	const root = "/work/proj"
	app := func(n string) string { return n + ":\n    Ep:\n        ...\n" }
	mkfs := func(main string) *passRecFs {
		m := afero.NewMemMapFs()
		for p, c := range map[string]string{
			root + "/main.sysl": main, root + "/a.sysl": app("A"), root + "/sub/dep.sysl": app("Dep"), root + "/sub/deep/leaf.sysl": app("Leaf"),
			"/work/outside.sysl": app("Leaked"), "/outside.sysl": app("Leaked"), "/work/proj2/x.sysl": app("Leaked"), "/work/projx.sysl": app("Leaked"),
			"/etc/hosts.sysl": app("Leaked"), "/work/proj.sysl": app("Leaked"), "/work/sub/dep.sysl": app("Leaked"), "/work/a.sysl": app("Leaked"), "/a.sysl": app("Leaked"),
			"/main.sysl": app("Leaked"), "/work/main.sysl": app("Leaked"),
		} {
			_ = afero.WriteFile(m, p, []byte(c), 0o644)
		}
		return &passRecFs{Fs: m}
	}
	load := func(fs *passRecFs, module string) (apps []string, err error) {
		defer func() {
			if x := recover(); x != nil {
				err = fmt.Errorf("panic: %v", x)
			}
		}()
		logger := logrus.New()
		logger.SetOutput(io.Discard)
		mod, _, err := loader.LoadSyslModule(root, module, fs, logger)
		if mod != nil {
			for n := range mod.Apps {
				apps = append(apps, n)
			}
			sort.Strings(apps)
		}
		return apps, err
	}
	judge := func(kind, spelled string, fs *passRecFs, apps []string) {
		for _, c := range fs.calls {
			for _, p := range c.Paths {
				if !underRoot(root, p) {
					res.Violate(Violation{Sig: "loader:" + kind + ":" + c.Method + ":escape", What: "with the root " + root + " in force, " + c.Method + " reached " + p + " on behalf of a " + kind,
						Input: map[string]any{"root": root, kind: spelled}, Got: p})
					return
				}
			}
		}
		for _, a := range apps {
			if a == "Leaked" {
				res.Violate(Violation{Sig: "loader:" + kind + ":content-from-outside", What: "a file outside the root was compiled into the model", Input: map[string]any{"root": root, kind: spelled}})
			}
		}
	}
	names := []string{"main.sysl", "./main.sysl", "sub/../main.sysl", "/main.sysl", "sub/./../main.sysl", "sub//dep.sysl", "a.sysl", "missing.sysl", "typo/main.sysl",
		"../outside.sysl", "../proj2/x.sysl", "../projx.sysl", "../proj.sysl", "/../outside.sysl", "//../outside.sysl", "/./../outside.sysl", "sub/../../outside.sysl", "sub/../../../outside.sysl",
		"/etc/hosts.sysl", "../../etc/hosts.sysl", "../sub/dep.sysl", "../a.sysl", "../../a.sysl", "../main.sysl", "..", "../", "", "/"}
	for i := 0; i < 60; i++ {
		n := c18RandName(rnd)
		if !strings.HasPrefix(n, "//") {
			names = append(names, n+".sysl")
		}
	}
	inside := map[string]string{"main.sysl": "Main", "./main.sysl": "Main", "sub/../main.sysl": "Main", "sub/./../main.sysl": "Main", "sub//dep.sysl": "Dep", "a.sysl": "A"}
	for _, n := range names {
		fs := mkfs(app("Main"))
		apps, err := load(fs, n)
		res.Eval("loader-module\x00"+n, true)
		res.Count("loader:module")
		judge("module", n, fs, apps)
		if want, ok := inside[n]; ok && (err != nil || len(apps) != 1 || apps[0] != want) {
			res.Violate(Violation{Sig: "loader:module:inside-refused", What: "a module spelling that stays inside the root does not load its file", Input: map[string]any{"root": root, "module": n}, Got: fmt.Sprint(apps, err), Want: want})
		}
	}
	imports := []string{"a", "./a", "sub/dep", "sub/./dep", "sub/../a", "/a", "/sub/dep", "sub/deep/../dep", "../outside", "../proj2/x", "../projx", "/../outside", "sub/../../outside", "sub/../../../outside",
		"../../etc/hosts", "/etc/hosts", "../sub/dep", "../a", "../../a", "../main", "/../work/outside", "./../outside", "sub/deep/../../../outside"}
	insideImp := map[string]string{"a": "A", "./a": "A", "sub/dep": "Dep", "sub/./dep": "Dep", "sub/../a": "A", "/a": "A", "/sub/dep": "Dep", "sub/deep/../dep": "Dep"}
	for _, imp := range imports {
		fs := mkfs("import " + imp + "\n" + app("Main"))
		apps, err := load(fs, "main.sysl")
		res.Eval("loader-import\x00"+imp, true)
		res.Count("loader:import")
		judge("import", imp, fs, apps)
		if want, ok := insideImp[imp]; ok && (err != nil || len(apps) != 2 || !(apps[0] == want || apps[1] == want)) {
			res.Violate(Violation{Sig: "loader:import:inside-refused", What: "an import spelling that stays inside the root does not load its file", Input: map[string]any{"root": root, "import": imp}, Got: fmt.Sprint(apps, err), Want: want})
		}
	}
	// an import written in a file of a subdirectory resolves against that directory
	for _, imp := range []string{"dep2", "../a", "../../outside", "../../../outside", "deep/../../../outside", "/a", "/../outside"} {
		fs := mkfs("import sub/mid\n" + app("Main"))
		_ = afero.WriteFile(fs.Fs, root+"/sub/mid.sysl", []byte("import "+imp+"\n"+app("Mid")), 0o644)
		_ = afero.WriteFile(fs.Fs, root+"/sub/dep2.sysl", []byte(app("Dep2")), 0o644)
		apps, _ := load(fs, "main.sysl")
		res.Eval("loader-import-sub\x00"+imp, true)
		res.Count("loader:import-from-subdirectory")
		judge("import", "sub/mid.sysl: "+imp, fs, apps)
	}
	_ = tier
}
