package main

// C04 — splitting declarations across blocks or imported files merges losslessly.
// A description (C02 generator) is rendered once joined (every application one block, one file)
// and several times split: each application's members (types, endpoints, REST trees,
// subscriptions, and the fields of one tuple/table) are partitioned into k blocks, the blocks are
// assigned to the files of an import graph and written in random order.  Direct, model-free
// oracle: the two compiled modules have the same rows (source contexts and the import list apart).
// Model: SyslModel.Merge (join of blocks) over the Compile description.

import (
	"fmt"
	"sort"
	"strings"
)

type c04Split struct {
	files map[string]string
	desc  map[string]*dFile
	k     int
	nf    int
}

func emptyAttrs() dAttrs { return dAttrs{Tags: []string{}, KV: []dKV{}} }

func splitDFile(r *Rand, d *dFile) *c04Split {
	nf := 1 + r.Intn(3)
	names := []string{"main.sysl", "part1.sysl", "part2.sysl"}[:nf]
	perFile := map[string][]dApp{}
	maxK := 0
	for _, a := range d.Apps {
		k := 1 + r.Intn(4)
		if k > maxK {
			maxK = k
		}
		blocks := make([]dApp, k)
		for i := range blocks {
			blocks[i] = dApp{Parts: a.Parts, Attrs: emptyAttrs(), Mixins: [][]string{}, Collector: []dTemplate{}, Subs: []dSub{}}
		}
		// the header block carries what belongs to the application as a whole
		blocks[0].Attrs, blocks[0].Long, blocks[0].Mixins = a.Attrs, a.Long, a.Mixins
		blocks[0].Collector = a.Collector
		for _, t := range a.Types {
			if (t.Kind == "type" || t.Kind == "table") && len(t.Fields) >= 2 && r.Chance(1, 2) {
				// the fields of one type over two blocks; the first piece carries the type's attributes
				cut := 1 + r.Intn(len(t.Fields)-1)
				t1, t2 := t, t
				t1.Fields, t2.Fields = t.Fields[:cut], t.Fields[cut:]
				// the first piece carries the named values, the second the tags (or nothing)
				t2.Attrs = emptyAttrs()
				// a type declared inside goes with the first piece; half of the time its own fields are cut as well
				// (each field is still written exactly once)
				t1.Nested, t2.Nested = nil, nil
				for _, n := range t.Nested {
					if len(n.Fields) >= 2 && r.Bool() {
						c := 1 + r.Intn(len(n.Fields)-1)
						n1, n2 := n, n
						n1.Fields, n2.Fields = n.Fields[:c], n.Fields[c:]
						n2.Attrs = emptyAttrs()
						t1.Nested = append(t1.Nested, n1)
						t2.Nested = append(t2.Nested, n2)
					} else {
						t1.Nested = append(t1.Nested, n)
					}
				}
				if r.Bool() {
					t1.Attrs = dAttrs{Tags: []string{}, KV: t.Attrs.KV}
					t2.Attrs = dAttrs{Tags: t.Attrs.Tags, KV: []dKV{}}
				}
				b1 := r.Intn(k)
				b2 := r.Intn(k)
				if b2 < b1 {
					b1, b2 = b2, b1
				}
				blocks[b1].Types = append(blocks[b1].Types, t1)
				blocks[b2].Types = append(blocks[b2].Types, t2)
				continue
			}
			b := r.Intn(k)
			blocks[b].Types = append(blocks[b].Types, t)
			if (t.Kind == "type" || t.Kind == "table") && len(t.Fields) > 0 && r.Chance(1, 4) {
				// one more declaration of the type that says nothing (`!type T: ...`), in any block: before or
				// after the full one, it neither adds nor takes away
				ph := dTypeDecl{Name: t.Name, Kind: t.Kind, Attrs: emptyAttrs(), Fields: []dField{}, Items: []dEnumItem{}, Members: []dType{}, Placeholder: true}
				pb := r.Intn(k)
				if pb == b && r.Bool() {
					blocks[pb].Types = append([]dTypeDecl{ph}, blocks[pb].Types...)
				} else {
					blocks[pb].Types = append(blocks[pb].Types, ph)
				}
			}
		}
		for _, e := range a.Eps {
			b := r.Intn(k)
			blocks[b].Eps = append(blocks[b].Eps, e)
		}
		for _, n := range a.Rest {
			b := r.Intn(k)
			blocks[b].Rest = append(blocks[b].Rest, n)
		}
		for _, sb := range a.Subs {
			b := r.Intn(k)
			blocks[b].Subs = append(blocks[b].Subs, sb)
		}
		// an application block with no member at all is written `...`, which the compiler records as
		// an endpoint of that name: the header always keeps one member
		if len(blocks[0].Types)+len(blocks[0].Eps)+len(blocks[0].Rest)+len(blocks[0].Subs) == 0 {
			for bi := 1; bi < k; bi++ {
				if len(blocks[bi].Eps) > 0 {
					blocks[0].Eps = append(blocks[0].Eps, blocks[bi].Eps[0])
					blocks[bi].Eps = blocks[bi].Eps[1:]
					break
				}
			}
		}
		// header first, in the root file; the other blocks anywhere, in any order
		perFile["main.sysl"] = append(perFile["main.sysl"], blocks[0])
		rest := blocks[1:]
		Shuffle(r, rest)
		for _, b := range rest {
			if len(b.Types)+len(b.Eps)+len(b.Rest)+len(b.Subs) == 0 {
				continue
			}
			f := names[r.Intn(nf)]
			perFile[f] = append(perFile[f], b)
		}
	}
	out := &c04Split{files: map[string]string{}, desc: map[string]*dFile{}, k: maxK, nf: nf}
	for i, f := range names {
		apps := perFile[f]
		if f != "main.sysl" {
			Shuffle(r, apps)
		} else {
			// the header blocks of different applications may come in any order (a subscriber may
			// then be walked before its publisher); re-opening blocks follow, in any order
			heads := apps[:len(d.Apps)]
			Shuffle(r, heads)
			if len(apps) > len(d.Apps) {
				tail := apps[len(d.Apps):]
				Shuffle(r, tail)
			}
		}
		header := ""
		if i == 0 {
			imps := append([]string{}, names[1:]...)
			Shuffle(r, imps)
			chain := nf == 3 && r.Bool()
			for _, im := range imps {
				if chain && im == "part2.sysl" {
					continue // imported by part1 instead
				}
				header += "import " + strings.TrimSuffix(im, ".sysl") + "\n"
			}
		} else if f == "part1.sysl" && nf == 3 {
			if !strings.Contains(out.files["main.sysl"], "import part2") {
				header = "import part2\n"
			}
		}
		df := &dFile{Apps: apps}
		out.desc[f] = df
		out.files[f] = renderDFileMarked(df, r.Fork(), f, nil, nil, header)
	}
	return out
}

func init() { runners["C04"] = runC04 }

func runC04(res *Result, tier string, rnd *Rand, replay string) {
	res.Rule = "generated specifications (C02 generator) x random partitions of every application's members (types, enums, aliases, unions, endpoints, events, REST trees, subscriptions; the fields of one tuple or table over two blocks) into 1..4 blocks x assignment of the blocks to 1..3 files of an import graph (star or chain, random import order) x random order of the re-opening blocks; non-trivial = joined and split both compile and the split really has more than one block or file; distinct by hash of the split texts"
	n, per := 60, 3
	if tier == "thorough" {
		n, per = 400, 4
	}
	for i := 0; i < n; i++ {
		r := rnd.Fork()
		d := genDFile(r, tier)
		joinedText := renderDFile(d, r.Fork())
		jm, jerr := compileFiles(map[string]string{"main.sysl": joinedText}, "main.sysl")
		if jerr != nil {
			res.Count("joined-not-compiling")
			res.Note("joined does not compile: %s", firstLine(jerr.Error()))
			continue
		}
		jrows := c04Rows(dumpModuleRows(jm))
		for s := 0; s < per; s++ {
			sp := splitDFile(r.Fork(), d)
			in := map[string]any{"joined": joinedText, "split": sp.files}
			var srows []string
			var serr string
			func() {
				defer Track(in)()
				defer func() {
					if x := recover(); x != nil {
						serr = fmt.Sprint("panic: ", x)
					}
				}()
				sm, err := compileFiles(sp.files, "main.sysl")
				if err != nil {
					serr = err.Error()
					return
				}
				srows = c04Rows(dumpModuleRows(sm))
			}()
			key := hashOf(sp.files)
			res.Count(fmt.Sprintf("blocks:%d", sp.k))
			res.Count(fmt.Sprintf("files:%d", sp.nf))
			if serr != "" {
				res.Violate(Violation{Sig: "split-rejected:" + c01Site(serr), What: "the joined specification compiles but the split one is rejected: " + firstLine(serr), Input: in})
				res.Eval(key, false)
				continue
			}
			res.Traces++
			res.Eval(key, sp.k > 1 || sp.nf > 1)
			missing, extra := diffSorted(jrows, srows)
			if len(missing) == 0 && len(extra) == 0 {
				res.Count("agree")
				continue
			}
			row := ""
			sig := "split-loses:"
			if len(missing) > 0 {
				row = missing[0]
			} else {
				row, sig = extra[0], "split-adds:"
			}
			res.Violate(Violation{Sig: sig + abstractRow(row), What: "the split specification compiles to a different model than the joined one", Input: in, Want: head(missing, 10), Got: head(extra, 10)})
		}
		if i == 0 {
			res.Sample(map[string]any{"joined": joinedText})
		}
	}
}

// c04Rows drops the import list (the split has imports, the joined has none) and puts the
// statements of event endpoints in a canonical order: an event's body and the calls its
// subscribers add to it come from different members, so their relative order follows the walk
// order of those members, which the property lets vary.
func c04Rows(rows []string) []string {
	pubsub := map[string]bool{}
	for _, r := range rows {
		if strings.HasSuffix(r, ".is_pubsub = true") {
			pubsub[strings.TrimSuffix(r, ".is_pubsub = true")] = true
		}
	}
	var out []string
	events := map[string]map[string][]string{} // endpoint path -> statement index -> rows without the index
	for _, r := range rows {
		if strings.HasPrefix(r, "imports[") {
			continue
		}
		// the columns of a composite key are listed in the order their blocks are walked: compared as a set
		if i := strings.Index(r, ".primary_key.attr_name["); i >= 0 {
			j := strings.Index(r, " = ")
			out = append(out, r[:i]+".primary_key.attr_name{"+r[j+3:]+"}")
			continue
		}
		if i := strings.Index(r, ".stmt["); i >= 0 && pubsub[r[:i]] {
			j := strings.Index(r[i:], "]")
			idx := r[i+6 : i+j]
			if events[r[:i]] == nil {
				events[r[:i]] = map[string][]string{}
			}
			events[r[:i]][idx] = append(events[r[:i]][idx], r[i+j+1:])
			continue
		}
		out = append(out, r)
	}
	for ep, byIdx := range events {
		var blocks []string
		for _, rs := range byIdx {
			sort.Strings(rs)
			blocks = append(blocks, strings.Join(rs, "\x00"))
		}
		sort.Strings(blocks)
		for n, b := range blocks {
			for _, r := range strings.Split(b, "\x00") {
				out = append(out, fmt.Sprintf("%s.stmt[%d]%s", ep, n, r))
			}
		}
	}
	sort.Strings(out)
	return out
}
