package main

// C05 — import closure: each file once, cycles end, result independent of fetch timing.
// C06 — a failed read or bad file anywhere in the closure fails the compile cleanly.
//
// Real code: parse.Parser.Parse(resource, reader) driven with a gating reader.Reader whose
// ReadHashBranch calls are released one at a time by the harness (completion orders are
// enumerated / sampled).  Model: SyslModel.Closure (oracle op closure.replay).

import (
	"context"
	"errors"
	"fmt"
	"os"
	"path"
	"path/filepath"
	"runtime"
	"sort"
	"strings"
	"sync"
	"time"

	"github.com/anz-bank/golden-retriever/retriever"
	"github.com/anz-bank/sysl/pkg/parse"
	"github.com/anz-bank/sysl/pkg/sysl"
	"github.com/anz-bank/sysl/pkg/syslutil"
	"github.com/spf13/afero"
	"google.golang.org/protobuf/proto"
)

type cGraph struct {
	N       int               `json:"n"`
	Paths   []string          `json:"paths"`   // canonical path of file i
	Imports [][]int           `json:"imports"` // ordered import targets of file i
	Spell   [][]string        `json:"spell"`   // how each import is spelled
	Max     int               `json:"max"`
	Fault   map[string]string `json:"fault,omitempty"` // file index → fault kind (C06)
}

func (g *cGraph) fault(i int) string { return g.Fault[fmt.Sprint(i)] }

// content of file i: its imports, an app named after it, and one statement appended to the
// shared endpoint Order <- Log (statement order = order in which files were walked).
func (g *cGraph) content(i int) string {
	var b strings.Builder
	if i%3 == 1 {
		b.WriteString("# header comment\n\n")
	}
	for k := range g.Imports[i] {
		fmt.Fprintf(&b, "import %s\n", g.Spell[i][k])
		// comment and blank lines between import statements are legal
		switch (i + k) % 4 {
		case 1:
			b.WriteString("# a comment between imports\n")
		case 2:
			b.WriteString("\n")
		}
	}
	switch g.fault(i) {
	case "syntaxImport":
		b.WriteString("import x as\n")
	case "missingImport":
		fmt.Fprintf(&b, "import /missing_%d\n", i)
	}
	if kind, ok := strings.CutPrefix(g.fault(i), "badForeign:"); ok {
		// imports a Swagger file the converter cannot digest (it returns an error, or fails itself)
		fmt.Fprintf(&b, "import /broken_%d.%s.yaml as Foreign%d :: Api ~swagger\n", i, kind, i)
	}
	if ext, ok := strings.CutPrefix(g.fault(i), "badModel:"); ok {
		// imports a compiled model whose content is damaged (the file is there and can be read)
		fmt.Fprintf(&b, "import /broken_%d.%s\n", i, ext)
	}
	b.WriteString("\n")
	fmt.Fprintf(&b, "F%d:\n    !type T%d:\n        x <: int\n\nOrder:\n    Log:\n        f%d\n", i, i, i)
	switch g.fault(i) {
	case "syntaxBody":
		b.WriteString("Broken:\n    !type\n")
	case "truncated":
		s := b.String()
		return s[:len(s)-len(fmt.Sprintf("f%d\n", i))-4] + "!ty" // cut inside the last block
	}
	if tail, ok := c06TruncTails[g.fault(i)]; ok {
		// the file ends in the middle of a further declaration: the only thing wrong with it is that the
		// input ends too early
		return b.String() + tail
	}
	return b.String()
}

// spell an import of canonical target t from a file in directory dir
func spellImport(r *Rand, dir, t string) string {
	if t == "MISSING" {
		return "missing_file"
	}
	noext := strings.TrimSuffix(t, ".sysl")
	if r.Bool() && !strings.Contains(path.Base(noext), ".") {
		// ".sysl" may be elided only when what remains has no extension of its own
		t = noext
	}
	rel, _ := filepath.Rel("/v/w/"+dir, "/v/w/"+t)
	switch r.Intn(5) {
	case 0:
		return "/" + t // rooted
	case 1:
		return "./" + rel
	case 2:
		return "zz/../" + rel
	case 3:
		return "./zz/.././" + rel
	default:
		return rel
	}
}

func genGraph(r *Rand, n int, density int) *cGraph {
	g := &cGraph{N: n, Fault: map[string]string{}}
	for i := 0; i < n; i++ {
		p := fmt.Sprintf("f%d.sysl", i)
		switch {
		case i > 1 && r.Chance(1, 4):
			// a DIFFERENT file whose path differs from an earlier one only by leading dots /
			// parent segments (gen/x vs .gen/x vs ../gen/x): must stay a distinct file
			q := g.Paths[1+r.Intn(i-1)]
			// (hidden directories / files: leading dot; paths above the reader's root are not used)
			q = strings.TrimPrefix(q, ".")
			cands := []string{"." + q, q}
			p = Pick(r, cands)
			for _, old := range g.Paths {
				if old == p {
					p = fmt.Sprintf("f%d.sysl", i)
				}
			}
		case i > 0 && r.Chance(1, 3):
			p = Pick(r, []string{"sub/", "gen/", ".gen/", "sub/deep/"}) + p
		}
		g.Paths = append(g.Paths, p)
	}
	g.Imports = make([][]int, n)
	g.Spell = make([][]string, n)
	for i := 0; i < n; i++ {
		k := r.Intn(density + 1)
		for j := 0; j < k; j++ {
			g.Imports[i] = append(g.Imports[i], r.Intn(n)) // self loops, cycles, duplicates allowed
		}
	}
	// make most files reachable: chain with probability
	for i := 1; i < n; i++ {
		if r.Chance(2, 3) {
			from := r.Intn(i)
			g.Imports[from] = append(g.Imports[from], i)
		}
	}
	for i := 0; i < n; i++ {
		Shuffle(r, g.Imports[i])
		for _, t := range g.Imports[i] {
			g.Spell[i] = append(g.Spell[i], spellImport(r, path.Dir(g.Paths[i]), g.Paths[t]))
		}
	}
	return g
}

func graphFromAdj(n int, bits uint64) *cGraph {
	g := &cGraph{N: n, Fault: map[string]string{}}
	for i := 0; i < n; i++ {
		g.Paths = append(g.Paths, fmt.Sprintf("f%d.sysl", i))
	}
	g.Imports = make([][]int, n)
	g.Spell = make([][]string, n)
	for i := 0; i < n; i++ {
		for j := 0; j < n; j++ {
			if bits&(1<<uint(i*n+j)) != 0 {
				g.Imports[i] = append(g.Imports[i], j)
				g.Spell[i] = append(g.Spell[i], fmt.Sprintf("f%d", j))
			}
		}
	}
	return g
}

// ---------- gating reader ----------

type gateReader struct {
	afero.Fs
	g        *cGraph
	mu       sync.Mutex
	blocked  []*gateWait
	arrivals []string
	changed  chan struct{}
}
type gateWait struct {
	name string
	ch   chan struct{}
}

func (r *gateReader) Read(ctx context.Context, p string) ([]byte, error) {
	b, _, _, err := r.ReadHashBranch(ctx, p)
	return b, err
}
func (r *gateReader) ReadHash(ctx context.Context, p string) ([]byte, retriever.Hash, error) {
	b, h, _, err := r.ReadHashBranch(ctx, p)
	return b, h, err
}
func (r *gateReader) ReadHashBranch(_ context.Context, p string) ([]byte, retriever.Hash, string, error) {
	w := &gateWait{name: p, ch: make(chan struct{})}
	r.mu.Lock()
	r.blocked = append(r.blocked, w)
	r.arrivals = append(r.arrivals, p)
	r.mu.Unlock()
	select {
	case r.changed <- struct{}{}:
	default:
	}
	<-w.ch
	idx := r.g.index(p)
	if base := path.Base(strings.ReplaceAll(p, "\\", "/")); strings.HasPrefix(base, "broken_") {
		switch {
		case strings.HasSuffix(base, ".np.yaml"):
			return []byte("swagger: '2.0'\npaths:\n  /a:\n    get:\n      parameters:\n        - null\n"), retriever.ZeroHash, "", nil
		case strings.HasSuffix(base, ".cut.yaml"):
			return []byte("swagger: '2.0'\ninfo: {title: t, version: '1'}\npaths:\n  /pets:\n"), retriever.ZeroHash, "", nil
		case strings.HasSuffix(base, ".gb.yaml"):
			return []byte("{[}\n"), retriever.ZeroHash, "", nil
		case strings.HasSuffix(base, ".textpb"):
			return []byte("apps { key: \"Broken\" value { name { part: \"Broken\" } endpoints { key: \"E\" value { name: \"E\" stmt {"), retriever.ZeroHash, "", nil
		case strings.HasSuffix(base, ".json"):
			return []byte("{\"apps\": {\"Broken\": {\"name\": {\"part\": [\"Broken\"]"), retriever.ZeroHash, "", nil
		default:
			return []byte("\x0a\x12\x0a\x06Broken\x12\xff\xff\xff\xff\x0f\x0a"), retriever.ZeroHash, "", nil
		}
	}
	if idx < 0 || idx >= r.g.N {
		return nil, retriever.ZeroHash, "", os.ErrNotExist
	}
	if r.g.fault(idx) == "readErr" {
		return nil, retriever.ZeroHash, "", errors.New("injected read failure")
	}
	return []byte(r.g.content(idx)), retriever.ZeroHash, "", nil
}

func (g *cGraph) index(p string) int {
	p = strings.ReplaceAll(p, "\\", "/")
	if i := strings.Index(p, "@"); i >= 0 {
		p = p[:i]
	}
	p = path.Clean(p)
	for i, q := range g.Paths {
		if q == p {
			return i
		}
	}
	var k int
	if _, err := fmt.Sscanf(p, "missing_%d.sysl", &k); err == nil {
		return g.N + k // the missing file imported by file k
	}
	if _, err := fmt.Sscanf(p, "broken_%d.", &k); err == nil {
		return g.N + k // the damaged compiled model imported by file k
	}
	return -1
}

type cRun struct {
	Order    []int    `json:"release_order"` // file indices in the order their reads completed (-1 = unknown file)
	Arrivals []string `json:"arrivals"`
	Files    []int    `json:"files"` // processed order observed in the module (Order <- Log statements)
	Apps     []string `json:"apps"`
	Err      string   `json:"err,omitempty"`
	Code     int      `json:"code"`
	HasMod   bool     `json:"has_module"`
	Hang     bool     `json:"hang,omitempty"`
	Panic    string   `json:"panic,omitempty"`
	mod      *sysl.Module
}

// expected new arrivals after releasing file idx at depth d (for quiescence detection only)
type simState struct {
	claimed map[int]bool
	depth   map[int]int
}

// runGated compiles root file 0 of g, releasing reads in the order chosen by picks.
func runGated(g *cGraph, picks []int) *cRun {
	defer Track(map[string]any{"graph": g, "picks": [][]int{picks}})()
	rd := &gateReader{Fs: afero.NewMemMapFs(), g: g, changed: make(chan struct{}, 1)}
	out := &cRun{}
	type res struct {
		m   *sysl.Module
		err error
		pan string
	}
	done := make(chan res, 1)
	go func() {
		defer func() {
			if x := recover(); x != nil {
				done <- res{nil, nil, fmt.Sprint(x)}
			}
		}()
		p := parse.NewParser()
		p.MaxImportDepth = g.Max
		m, err := p.Parse(g.Paths[0], rd)
		done <- res{m, err, ""}
	}()
	sim := simState{claimed: map[int]bool{0: true}, depth: map[int]int{0: 0}}
	expected := 1 // number of blocked reads we expect before choosing
	pi := 0
	finished := false
	var r res
	deadline := time.Now().Add(20 * time.Second)
	for !finished {
		// wait for quiescence: blocked == expected, or completion, or a grace timeout
		grace := time.Now().Add(1500 * time.Millisecond)
		for {
			rd.mu.Lock()
			nb := len(rd.blocked)
			rd.mu.Unlock()
			if nb >= expected && nb > 0 {
				break
			}
			select {
			case r = <-done:
				finished = true
			case <-rd.changed:
			case <-time.After(2 * time.Millisecond):
			}
			if finished {
				break
			}
			if time.Now().After(grace) {
				rd.mu.Lock()
				nb = len(rd.blocked)
				rd.mu.Unlock()
				if nb > 0 {
					break // fewer arrivals than predicted: go on with what is there
				}
				if time.Now().After(deadline) {
					out.Hang = true
					finished = true
					break
				}
			}
		}
		if finished {
			break
		}
		rd.mu.Lock()
		sort.SliceStable(rd.blocked, func(i, j int) bool { return rd.blocked[i].name < rd.blocked[j].name })
		k := 0
		if pi < len(picks) {
			k = picks[pi] % len(rd.blocked)
		}
		pi++
		w := rd.blocked[k]
		rd.blocked = append(rd.blocked[:k], rd.blocked[k+1:]...)
		remaining := len(rd.blocked)
		rd.mu.Unlock()
		idx := g.index(w.name)
		out.Order = append(out.Order, idx)
		// predict arrivals caused by this completion
		newArr := 0
		if idx >= 0 && idx < g.N && g.fault(idx) != "readErr" && g.fault(idx) != "syntaxImport" {
			d := sim.depth[idx]
			for _, c := range g.Imports[idx] {
				if g.Max > 0 && d+1 >= g.Max {
					continue
				}
				if !sim.claimed[c] {
					sim.claimed[c] = true
					sim.depth[c] = d + 1
					newArr++
				}
			}
			if (g.fault(idx) == "missingImport" || strings.HasPrefix(g.fault(idx), "badModel:") || strings.HasPrefix(g.fault(idx), "badForeign:")) && !(g.Max > 0 && d+1 >= g.Max) {
				newArr++
			}
		}
		expected = remaining + newArr
		close(w.ch)
		if expected == 0 {
			// nothing outstanding: Parse must finish
			select {
			case r = <-done:
				finished = true
			case <-time.After(20 * time.Second):
				rd.mu.Lock()
				nb := len(rd.blocked)
				rd.mu.Unlock()
				if nb == 0 {
					out.Hang = true
					buf := make([]byte, 1<<20)
					out.Panic = string(buf[:runtime.Stack(buf, true)])
					finished = true
				}
				expected = 1
			}
		}
	}
	rd.mu.Lock()
	out.Arrivals = append([]string{}, rd.arrivals...)
	// release anything still blocked so goroutines end
	for _, w := range rd.blocked {
		close(w.ch)
	}
	rd.blocked = nil
	rd.mu.Unlock()
	if out.Hang {
		return out
	}
	out.Panic = r.pan
	if r.err != nil {
		out.Err = r.err.Error()
		out.Code = 1
		var ex syslutil.Exit
		if errors.As(r.err, &ex) {
			out.Code = ex.Code
		}
	}
	if r.m != nil {
		out.HasMod = true
		out.mod = r.m
		for name := range r.m.Apps {
			out.Apps = append(out.Apps, name)
		}
		sort.Strings(out.Apps)
		if app := r.m.Apps["Order"]; app != nil {
			if ep := app.Endpoints["Log"]; ep != nil {
				for _, st := range ep.Stmt {
					if a := st.GetAction(); a != nil {
						var n int
						if _, err := fmt.Sscanf(a.Action, "f%d", &n); err == nil {
							out.Files = append(out.Files, n)
						}
					}
				}
			}
		}
	}
	return out
}

// ---------- independent reference (model-free direct oracle) ----------

func refDFS(g *cGraph) []int {
	seen := map[int]bool{}
	var order []int
	var rec func(i int)
	rec = func(i int) {
		if seen[i] {
			return
		}
		seen[i] = true
		order = append(order, i)
		for _, c := range g.Imports[i] {
			rec(c)
		}
	}
	rec(0)
	return order
}

func refDist(g *cGraph) map[int]int {
	dist := map[int]int{0: 0}
	q := []int{0}
	for len(q) > 0 {
		x := q[0]
		q = q[1:]
		for _, c := range g.Imports[x] {
			if _, ok := dist[c]; !ok {
				dist[c] = dist[x] + 1
				q = append(q, c)
			}
		}
	}
	return dist
}

func intsEq(a, b []int) bool {
	if len(a) != len(b) {
		return false
	}
	for i := range a {
		if a[i] != b[i] {
			return false
		}
	}
	return true
}

func sortedCopy(a []int) []int {
	b := append([]int{}, a...)
	sort.Ints(b)
	return b
}

func (g *cGraph) oracleReq(order []int) map[string]any {
	G := make([]any, 0, g.N)
	var bad, badBody, brokenNodes []int
	for i := 0; i < g.N; i++ {
		ims := append([]int{}, g.Imports[i]...)
		f := g.fault(i)
		if f == "missingImport" {
			ims = append(ims, g.N+i) // a file that does not exist; its import line is the last one
		}
		if strings.HasPrefix(f, "badModel:") || strings.HasPrefix(f, "badForeign:") {
			ims = append(ims, g.N+i) // a compiled model that is read but cannot be decoded: fails in the parse phase
			brokenNodes = append(brokenNodes, g.N+i)
		}
		if f == "readErr" {
			continue // absent from G = unreadable
		}
		if f == "syntaxImport" {
			bad = append(bad, i)
		}
		if c06IsBodyFault(f) {
			badBody = append(badBody, i)
		}
		G = append(G, []any{i, ims})
	}
	for _, n := range brokenNodes {
		G = append(G, []any{n, []int{}})
		badBody = append(badBody, n)
	}
	ord := make([]int, len(order))
	for i, o := range order {
		if o < 0 {
			o = g.N
		}
		ord[i] = o
	}
	return map[string]any{"op": "closure.replay", "G": G, "max": g.Max, "bad": bad, "badBody": badBody, "root": 0, "order": ord}
}

func isNontrivialGraph(g *cGraph) bool {
	// has a diamond (in-degree >= 2 somewhere) or a cycle/self loop
	indeg := map[int]int{}
	for i := range g.Imports {
		seen := map[int]bool{}
		for _, c := range g.Imports[i] {
			if c == i {
				return true
			}
			if !seen[c] {
				indeg[c]++
				seen[c] = true
			}
		}
	}
	for _, v := range indeg {
		if v >= 2 {
			return true
		}
	}
	return false
}

func init() {
	runners["C05"] = runC05
	runners["C06"] = runC06
}

type c05Job struct {
	g     *cGraph
	picks [][]int
}

func c05Jobs(tier string, rnd *Rand, withFaults bool) []c05Job {
	var jobs []c05Job
	nRandom, nSched := 60, 5
	exhaustN := 3
	if tier == "thorough" {
		nRandom, nSched = 1200, 12
	}
	mkPicks := func(r *Rand, n int) [][]int {
		ps := [][]int{make([]int, 40), nil}
		last := make([]int, 40)
		for i := range last {
			last[i] = 1000003 // "last blocked read" (index taken modulo)
		}
		// picks value k means index k%len; a large prime ≡ varying; use explicit last via -1 below
		ps[1] = last
		for i := 0; i < n; i++ {
			p := make([]int, 40)
			for j := range p {
				p[j] = r.Intn(1 << 20)
			}
			ps = append(ps, p)
		}
		return ps
	}
	// corpus first
	for _, g := range c05Corpus() {
		jobs = append(jobs, c05Job{g, mkPicks(rnd, nSched)})
	}
	// exhaustive small digraphs
	step := uint64(1)
	if tier != "thorough" {
		step = 7 // sample every 7th adjacency matrix in the quick tier
	}
	for bits := uint64(0); bits < 1<<uint(exhaustN*exhaustN); bits += step {
		g := graphFromAdj(exhaustN, bits)
		g.Max = int(bits % 4)
		if withFaults {
			c06AddFaults(rnd, g)
		}
		jobs = append(jobs, c05Job{g, mkPicks(rnd, 2)})
	}
	for i := 0; i < nRandom; i++ {
		n := 3 + rnd.Intn(6)
		g := genGraph(rnd, n, 2)
		if rnd.Chance(1, 2) {
			g.Max = rnd.Intn(n + 1)
		}
		if withFaults {
			c06AddFaults(rnd, g)
		} else if g.Max == 0 && rnd.Chance(1, 3) {
			g.addRemote(rnd)
		}
		jobs = append(jobs, c05Job{g, mkPicks(rnd, nSched)})
	}
	return jobs
}

// remote-style leaf files (//host/org/repo/file.sysl) imported under version spellings: the version is not
// part of a file's identity; master/main/develop and no version are one version, anything else is its own
var c05VersionClasses = [][]string{{"", "@main", "@master", "@develop"}, {"@v1.0.0"}, {"@feature/login"}, {"@release/2024/q1"}, {"@v2"}}

func (g *cGraph) addRemote(r *Rand) {
	local := g.N
	for k := 0; k < 1+r.Intn(2); k++ {
		t := g.N
		g.N++
		g.Paths = append(g.Paths, fmt.Sprintf("/github.com/org/repo/r%d.sysl", t))
		g.Imports = append(g.Imports, nil)
		g.Spell = append(g.Spell, nil)
		class := Pick(r, c05VersionClasses)
		mixed := r.Chance(1, 3)
		for j := 0; j < 1+r.Intn(3); j++ {
			from := r.Intn(local)
			ver := Pick(r, class)
			if mixed {
				ver = Pick(r, Pick(r, c05VersionClasses))
			}
			name := fmt.Sprintf("//github.com/org/repo/r%d", t)
			if r.Bool() {
				name += ".sysl"
			}
			g.Imports[from] = append(g.Imports[from], t)
			g.Spell[from] = append(g.Spell[from], name+ver)
		}
	}
}

func c05EffectiveVersion(spelling string) string {
	i := strings.Index(spelling, "@")
	if i < 0 {
		return ""
	}
	switch v := spelling[i+1:]; v {
	case "master", "main", "develop":
		return ""
	default:
		return v
	}
}

// versionSpellings: (file, import target as the parser resolves it) for every import of a remote-style file by
// a file of the closure - what the model's `closure.versions` reads
func (g *cGraph) versionSpellings() []any {
	reach := map[int]bool{0: true}
	q := []int{0}
	for len(q) > 0 {
		x := q[0]
		q = q[1:]
		for _, c := range g.Imports[x] {
			if !reach[c] {
				reach[c] = true
				q = append(q, c)
			}
		}
	}
	out := []any{}
	for i := 0; i < g.N; i++ {
		if !reach[i] {
			continue
		}
		for k, t := range g.Imports[i] {
			if !strings.HasPrefix(g.Paths[t], "/github.com/") {
				continue
			}
			sp := g.Spell[i][k]
			name, ver := sp, ""
			if at := strings.Index(sp, "@"); at >= 0 {
				name, ver = sp[:at], sp[at:]
			}
			if !strings.HasSuffix(name, ".sysl") {
				name += ".sysl" // the listener appends the extension to the part before the version
			}
			out = append(out, []any{t, name + ver})
		}
	}
	return out
}

// severalSpellingsOfOneVersion: some remote-style file is imported under two different spellings
func (g *cGraph) severalSpellingsOfOneVersion() bool {
	seen := map[int]string{}
	for _, e := range g.versionSpellings() {
		t, sp := e.([]any)[0].(int), e.([]any)[1].(string)
		if old, ok := seen[t]; ok && old != sp {
			return true
		}
		seen[t] = sp
	}
	return false
}

// versionConflict: some file is imported, by files of the closure, under two different versions
func (g *cGraph) versionConflict() bool {
	reach := map[int]bool{0: true}
	q := []int{0}
	for len(q) > 0 {
		x := q[0]
		q = q[1:]
		for _, c := range g.Imports[x] {
			if !reach[c] {
				reach[c] = true
				q = append(q, c)
			}
		}
	}
	vers := map[int]map[string]bool{}
	for i := 0; i < g.N; i++ {
		if !reach[i] {
			continue
		}
		for k, t := range g.Imports[i] {
			if !strings.HasPrefix(g.Paths[t], "/github.com/") {
				continue
			}
			if vers[t] == nil {
				vers[t] = map[string]bool{}
			}
			vers[t][c05EffectiveVersion(g.Spell[i][k])] = true
		}
	}
	for _, vs := range vers {
		if len(vs) > 1 {
			return true
		}
	}
	return false
}

func c05Corpus() []*cGraph {
	// the depth-limit witness of DESIGN §6 C05 / Closure.depthWitness
	w := &cGraph{N: 6, Max: 4, Fault: map[string]string{},
		Paths:   []string{"f0.sysl", "f1.sysl", "f2.sysl", "f3.sysl", "f4.sysl", "f5.sysl"},
		Imports: [][]int{{1, 2}, {3}, {4}, {4}, {5}, {}},
	}
	w.Spell = make([][]string, w.N)
	for i := range w.Imports {
		for _, t := range w.Imports[i] {
			w.Spell[i] = append(w.Spell[i], fmt.Sprintf("f%d", t))
		}
	}
	// one remote-style file under three spellings of one version: which spelling claims the file follows the
	// completion order (known finding: the version recorded in source contexts follows it too)
	v := &cGraph{N: 4, Fault: map[string]string{},
		Paths:   []string{"f0.sysl", "f1.sysl", "f2.sysl", "/github.com/org/repo/r3.sysl"},
		Imports: [][]int{{1, 2}, {3}, {3}, {}},
		Spell:   [][]string{{"f1", "f2"}, {"//github.com/org/repo/r3.sysl@master"}, {"//github.com/org/repo/r3@main"}, {}},
	}
	// files of two directories with the very same import line: `import b` names x/b in one and y/b in the other
	tw := &cGraph{N: 5, Fault: map[string]string{},
		Paths:   []string{"f0.sysl", "x/a.sysl", "x/b.sysl", "y/c.sysl", "y/b.sysl"},
		Imports: [][]int{{1, 3}, {2}, {}, {4}, {}},
		Spell:   [][]string{{"x/a", "y/c"}, {"b"}, {}, {"b"}, {}},
	}
	return []*cGraph{w, v, tw}
}

// files cut short at a point where everything before the cut is well-formed (the parser's complaint is about
// the end of input, not about a token)
var c06TruncTails = map[string]string{
	"trunc:name":      "Tail",
	"trunc:header":    "Tail:",
	"trunc:header-nl": "Tail:\n",
	"trunc:attrs":     "Tail [~x",
	"trunc:attr-str":  "Tail [a=\"x",
	"trunc:type":      "Tail:\n    !type X:\n",
	"trunc:field":     "Tail:\n    !type X:\n        y <:",
	"trunc:ep":        "Tail:\n    Ep:\n",
	"trunc:call":      "Tail:\n    Ep:\n        Other <-",
	"trunc:import":    "import",
}

func c06IsBodyFault(f string) bool {
	_, t := c06TruncTails[f]
	return t || f == "syntaxBody" || f == "truncated"
}

func c06AddFaults(r *Rand, g *cGraph) {
	kinds := []string{"readErr", "syntaxImport", "syntaxBody", "truncated", "missingImport", "badModel:textpb", "badModel:pb", "badModel:pb.json", "badForeign:np", "badForeign:cut", "badForeign:gb"}
	var tk []string
	for k := range c06TruncTails {
		tk = append(tk, k)
	}
	sort.Strings(tk)
	kinds = append(kinds, tk...)
	k := 1 + r.Intn(2)
	// prefer files whose path is a near-duplicate of another file's (gen/x vs .gen/x): a fault
	// there must be reported like any other
	var twins []int
	for i, p := range g.Paths {
		for j, q := range g.Paths {
			if i != j && strings.TrimLeft(p, "./") == strings.TrimLeft(q, "./") {
				twins = append(twins, i)
			}
		}
	}
	if len(twins) > 0 && r.Chance(2, 3) {
		g.Fault[fmt.Sprint(Pick(r, twins))] = Pick(r, kinds)
		return
	}
	for j := 0; j < k; j++ {
		g.Fault[fmt.Sprint(r.Intn(g.N))] = Pick(r, kinds)
	}
}

func clearCtx(m *sysl.Module) *sysl.Module {
	c := proto.Clone(m).(*sysl.Module)
	return c
}

func runC05(res *Result, tier string, rnd *Rand, replay string) {
	res.Rule = "import graphs: the corpus witness, every digraph on 3 files (adjacency matrices; sampled in quick tier) and random graphs on 3..8 files with self-imports, cycles, diamonds, duplicate imports and randomised spellings (rooted, ./, zz/../, with/without .sysl, sub-directory), x depth limits x completion orders of the concurrent reads chosen by the harness through a gating reader; non-trivial = graph has a diamond, cycle or self-import; distinct by (graph, limit, completion order)"
	var jobs []c05Job
	if replay != "" {
		var rp struct {
			Input struct {
				Graph *cGraph `json:"graph"`
				Picks [][]int `json:"picks"`
			} `json:"input"`
		}
		readJSON(replay, &rp)
		if rp.Input.Graph.Fault == nil {
			rp.Input.Graph.Fault = map[string]string{}
		}
		jobs = []c05Job{{rp.Input.Graph, rp.Input.Picks}}
	} else {
		jobs = c05Jobs(tier, rnd, false)
	}
	c05Execute(res, jobs, false)
}

func runC06(res *Result, tier string, rnd *Rand, replay string) {
	res.Rule = "import graphs as for C05 x one or two injected faults (read error, syntax error in an import line, syntax error in the body, truncated content, import of a missing file) on any file x completion orders chosen through the gating reader (the fault is delivered wherever that order places the file); non-trivial = the faulty file is not the root or other reads were in flight when it failed; distinct by (graph, faults, completion order)"
	var jobs []c05Job
	if replay != "" {
		var rp struct {
			Input struct {
				Graph *cGraph `json:"graph"`
				Picks [][]int `json:"picks"`
			} `json:"input"`
		}
		readJSON(replay, &rp)
		if rp.Input.Graph.Fault == nil {
			rp.Input.Graph.Fault = map[string]string{}
		}
		jobs = []c05Job{{rp.Input.Graph, rp.Input.Picks}}
	} else {
		jobs = c05Jobs(tier, rnd, true)
	}
	c05Execute(res, jobs, true)
}

func c05Execute(res *Result, jobs []c05Job, faults bool) {
	type one struct {
		job  int
		pick int
		run  *cRun
	}
	var mu sync.Mutex
	var all []one
	var wg sync.WaitGroup
	sem := make(chan struct{}, workers(6))
	for ji := range jobs {
		for pi := range jobs[ji].picks {
			wg.Add(1)
			sem <- struct{}{}
			go func(ji, pi int) {
				defer wg.Done()
				defer func() { <-sem }()
				r := runGated(jobs[ji].g, jobs[ji].picks[pi])
				for try := 0; r.Hang && try < 2; try++ {
					// a hang must reproduce to be reported for this property (a transient stall of
					// concurrent in-process parses belongs to C07); keep the stack for the notes
					res.Note("transient stall, re-running case alone; stacks: %.3000s", r.Panic)
					res.Count("transient-stall")
					r = runGated(jobs[ji].g, jobs[ji].picks[pi])
				}
				mu.Lock()
				all = append(all, one{ji, pi, r})
				mu.Unlock()
			}(ji, pi)
		}
	}
	wg.Wait()
	sort.Slice(all, func(i, j int) bool {
		if all[i].job != all[j].job {
			return all[i].job < all[j].job
		}
		return all[i].pick < all[j].pick
	})
	reqs := make([]any, len(all))
	for i, o := range all {
		reqs[i] = jobs[o.job].g.oracleReq(o.run.Order)
	}
	reps, err := RunOracleChunks(reqs, 8)
	if err != nil {
		res.Disagree(Disagreement{What: "oracle failed: " + err.Error()})
		return
	}
	byJob := map[int][]one{}
	versionsChecked := map[*cGraph]bool{}
	for i, o := range all {
		g := jobs[o.job].g
		run := o.run
		m := reps[i]
		in := map[string]any{"graph": g, "picks": [][]int{jobs[o.job].picks[o.pick]}}
		key := fmt.Sprintf("%v|%v|%d|%v|%v", g.Imports, g.Spell, g.Max, g.Fault, run.Order)
		res.Eval(key, isNontrivialGraph(g) || len(g.Fault) > 0)
		res.Traces++
		res.Count(fmt.Sprintf("files=%d", g.N))
		if g.Max > 0 {
			res.Count("depth-limited")
		}
		byJob[o.job] = append(byJob[o.job], o)
		if run.Hang {
			res.Violate(Violation{Sig: "hang", What: "compilation did not return", Input: in, Got: run.Panic})
			continue
		}
		if run.Panic != "" {
			res.Violate(Violation{Sig: "panic", What: "compilation panicked: " + run.Panic, Input: in})
			continue
		}
		// each file fetched at most once (direct oracle)
		cnt := map[int]int{}
		for _, a := range run.Arrivals {
			cnt[g.index(a)]++
		}
		for f, c := range cnt {
			if c > 1 && f >= 0 && f < g.N {
				res.Violate(Violation{Sig: "fetched-twice", What: fmt.Sprintf("file %s was fetched %d times", g.Paths[f], c), Input: in, Got: run.Arrivals})
			}
		}
		if sp := g.versionSpellings(); !faults && len(sp) > 0 && !versionsChecked[g] {
			versionsChecked[g] = true
			res.Count("version-spellings-read-by-model")
			// the model's reading of the version spellings (Closure.Version) against the harness' own
			vr, err := RunOracle([]any{map[string]any{"op": "closure.versions", "spellings": sp}})
			if err != nil || len(vr) != 1 {
				res.Disagree(Disagreement{What: "oracle failed on closure.versions", Input: in})
			} else {
				if mbool(vr[0], "conflict") != g.versionConflict() {
					res.Disagree(Disagreement{Input: in, Model: vr[0], Impl: g.versionConflict(), What: "model and harness read the version spellings differently"})
				}
				keys := mstrs(vr[0], "keys")
				byFile := map[int]string{}
				for k, e := range sp {
					t := e.([]any)[0].(int)
					if k < len(keys) {
						if old, ok := byFile[t]; ok && old != keys[k] {
							res.Disagree(Disagreement{Input: in, Model: keys, What: "the model gives two spellings of one file different keys"})
						}
						byFile[t] = keys[k]
					}
				}
			}
		}
		if !faults && g.versionConflict() {
			// one file under two versions: refused, whatever the order of arrival
			res.Count("version-conflict")
			if !strings.Contains(run.Err, "different versions") || run.HasMod {
				res.Violate(Violation{Sig: "version-conflict-accepted", What: "a file imported under two different versions was not refused", Input: in, Got: map[string]any{"err": run.Err, "files": run.Files, "arrivals": run.Arrivals}})
			}
			continue
		}
		// ---- model vs implementation ----
		mfiles, hasFiles := m["files"]
		_, hasErr := m["error"]
		if mstr(m, "err") != "" || !mbool(m, "final") {
			res.Disagree(Disagreement{Input: in, Model: m, Impl: run, What: "model could not replay the completion order the implementation produced"})
		} else if hasFiles && run.Err == "" {
			var mf []int
			for _, x := range mfiles.([]any) {
				var v int
				fmt.Sscan(fmt.Sprint(x), &v)
				mf = append(mf, v)
			}
			if !intsEq(mf, run.Files) {
				res.Disagree(Disagreement{Input: in, Model: mf, Impl: run.Files, What: "processed-file order differs"})
			}
		} else if hasErr != (run.Err != "") {
			res.Disagree(Disagreement{Input: in, Model: m, Impl: run, What: "model and implementation disagree on error vs model"})
		}
		// ---- direct oracles ----
		if !faults {
			if run.Err != "" {
				res.Violate(Violation{Sig: "unexpected-error", What: "fault-free closure failed: " + run.Err, Input: in})
				continue
			}
			want := refDFS(g)
			if g.Max == 0 {
				if !intsEq(want, run.Files) {
					res.Violate(Violation{Sig: "order-not-dfs-preorder", What: "processed files are not the reachable files in depth-first import order, each once", Input: in, Got: run.Files, Want: want})
				}
			} else {
				dist := refDist(g)
				var near []int
				for f, d := range dist {
					if d < g.Max {
						near = append(near, f)
					}
				}
				sort.Ints(near)
				if !intsEq(near, sortedCopy(run.Files)) {
					sig := "depth-limit:set-differs-from-nearer-than-n"
					// the proved defect of the protocol (Closure.depth_limit_not_sched_indep): the
					// implementation agrees with the model, and only files are MISSING
					if hasFiles && mstr(m, "err") == "" {
						var mf []int
						for _, x := range mfiles.([]any) {
							var v int
							fmt.Sscan(fmt.Sprint(x), &v)
							mf = append(mf, v)
						}
						missingOnly := true
						got := map[int]bool{}
						for _, f := range run.Files {
							got[f] = true
							if d, ok := dist[f]; !ok || d >= g.Max {
								missingOnly = false
							}
						}
						if intsEq(mf, run.Files) && missingOnly {
							sig = "depth-limit:file-claimed-first-at-greater-depth-cuts-its-subtree"
						}
					}
					res.Violate(Violation{Sig: sig, What: "with import-depth limit n the included files are not exactly those nearer than n", Input: in, Got: sortedCopy(run.Files), Want: near})
				}
			}
		} else {
			c06Direct(res, g, run, in)
		}
		if i%(len(all)/4+1) == 0 {
			res.Sample(map[string]any{"paths": g.Paths, "imports": g.Imports, "spell": g.Spell, "max": g.Max, "fault": g.Fault, "release_order": run.Order, "files": run.Files, "err": run.Err, "model": m})
		}
	}
	// schedule independence across completion orders of one graph (direct oracle)
	if !faults {
		for ji, runs := range byJob {
			g := jobs[ji].g
			var first *cRun
			var firstPick []int
			for _, o := range runs {
				if o.run.mod == nil {
					continue
				}
				if first == nil {
					first = o.run
					firstPick = jobs[ji].picks[o.pick]
					continue
				}
				if !proto.Equal(first.mod, o.run.mod) {
					sig := "schedule-dependent-result"
					what := "two completion orders of the same reads give different models"
					if g.Max > 0 {
						sig = "depth-limit:schedule-dependent-result"
					} else if g.severalSpellingsOfOneVersion() && proto.Equal(stripped(first.mod), stripped(o.run.mod)) {
						// the models differ in recorded source contexts only, and some file is imported under two
						// spellings of one version (x@main, x@master, x): the version written into the source
						// contexts of its elements is that of whichever import claimed the file
						sig = "recorded-version-follows-the-import-that-claimed-the-file"
						what = "two completion orders give models that differ in the version recorded in source contexts"
					}
					res.Violate(Violation{Sig: sig, What: what,
						Input: map[string]any{"graph": g, "picks": [][]int{firstPick, jobs[ji].picks[o.pick]}}, Got: o.run.Files, Want: first.Files})
				}
			}
		}
	}
}

func c06Direct(res *Result, g *cGraph, run *cRun, in any) {
	// which faulty files are actually reached?  (reachability that does not pass through
	// files whose import list could not be obtained, within the depth limit)
	reach := map[int]int{0: 0}
	q := []int{0}
	for len(q) > 0 {
		x := q[0]
		q = q[1:]
		f := g.fault(x)
		if f == "readErr" || f == "syntaxImport" {
			continue
		}
		for _, c := range g.Imports[x] {
			if _, ok := reach[c]; !ok {
				reach[c] = reach[x] + 1
				q = append(q, c)
			}
		}
	}
	var failing []string
	certain := false // a failing file certainly fetched whatever the schedule: nearer than the limit along every path? use BFS depth
	for f, d := range reach {
		k := g.fault(f)
		if k == "" {
			continue
		}
		within := g.Max == 0 || d < g.Max
		if k == "missingImport" || strings.HasPrefix(k, "badModel:") || strings.HasPrefix(k, "badForeign:") {
			within = g.Max == 0 || d+1 < g.Max
		}
		if !within {
			continue
		}
		if g.Max == 0 {
			certain = true
		}
		if k == "missingImport" {
			failing = append(failing, fmt.Sprintf("missing_%d", f))
		}
		if strings.HasPrefix(k, "badModel:") || strings.HasPrefix(k, "badForeign:") {
			// the damaged model / foreign file is what fails, not the file that imports it
			failing = append(failing, fmt.Sprintf("broken_%d", f))
			continue
		}
		failing = append(failing, strings.TrimSuffix(path.Base(g.Paths[f]), ".sysl"))
	}
	if len(failing) == 0 {
		return
	}
	if g.Max > 0 {
		// with a depth limit whether the failing file is fetched can depend on the schedule
		// (known finding of C05); judge only runs in which it was fetched
		fetched := false
		for _, a := range run.Arrivals {
			i := g.index(a)
			if i < 0 || i >= g.N || g.fault(i) != "" {
				fetched = true
			}
		}
		certain = fetched
	}
	if !certain {
		return
	}
	res.Count("faulty-runs")
	if run.Err == "" {
		res.Violate(Violation{Sig: "fault-swallowed", What: "a file in the closure failed but compilation reported no error", Input: in, Want: failing})
		return
	}
	if run.HasMod {
		res.Violate(Violation{Sig: "model-with-error", What: "compilation returned an error AND a model", Input: in})
	}
	if run.Code == 0 {
		res.Violate(Violation{Sig: "zero-exit-code", What: "error carries exit code 0", Input: in})
	}
	named := false
	for _, f := range failing {
		if strings.Contains(run.Err, f) {
			named = true
		}
	}
	if !named {
		res.Violate(Violation{Sig: "error-does-not-name-file", What: "the error names none of the failing files", Input: in, Got: run.Err, Want: failing})
	}
}
