package main

// C11 — importers emit valid Sysl that contains everything the foreign specification defines.
// Generated OpenAPI 2, OpenAPI 3, XSD and SQL DDL documents go through importer.Factory; the text
// must compile, must contain a type for every schema with every property (kind, optionality,
// array-ness, key-ness) and an endpoint for every path and method with its parameters and response
// types (the generator knows what it wrote), and a second import must give identical text.
// Model: SyslModel.Escape (the name escaping of the importers).

import (
	"fmt"
	"strings"

	"github.com/anz-bank/sysl/pkg/importer"
	"github.com/anz-bank/sysl/pkg/sysl"
	"github.com/sirupsen/logrus"
)

type fProp struct {
	Name     string
	Kind     string // string int int32 int64 float bool date datetime | ref
	Ref      string
	Array    bool
	Required bool
	Key      bool
	Attr     bool // XSD attribute
}
type fSchema struct {
	Name  string
	Props []fProp
	Base  string // XSD extension
}
type fParam struct {
	Name, In, Kind string
	Required       bool
	Ref            string
}
type fOp struct {
	Method, Path string
	Params       []fParam
	Resps        map[string]string // code -> schema name ("" = none)
}
type fDoc struct {
	PathLevel bool // path parameters declared once per path, not per operation
	Format  string
	Schemas []fSchema
	Ops     []fOp
	Text    string
	File    string
	Arrays  [][2]string // OpenAPI 2: top-level array definitions (name, item schema or primitive type)
}

var c11PropNames = []string{"name", "kind", "owner-id", "age", "a.b", "type", "date", "x y", "weight", "if", "set", "née", "for", "count_1", "Zed", "int", "string", "a:b", "q&a", "p+q",
	// the same special character more than once in a name
	"ship.to.address", "x:y:z", "p+q+r", "q&a&b", "a.b:c.d"}

var c11Kinds = []struct{ kind, oaType, oaFormat, sysl string }{
	{"string", "string", "", "STRING"}, {"int", "integer", "", "INT"}, {"int32", "integer", "int32", "INT"}, {"int64", "integer", "int64", "INT"},
	{"float", "number", "", "FLOAT"}, {"bool", "boolean", "", "BOOL"}, {"date", "string", "date", "DATE"}, {"datetime", "string", "date-time", "DATETIME"},
	// formats outside the importers' tables: the kind is that of the bare type
	{"int16", "integer", "int16", "INT"}, {"uint8", "integer", "uint8", "INT"}, {"decimalnum", "number", "decimal", "FLOAT"},
	{"double", "number", "double", "FLOAT"}, {"email", "string", "email", "STRING"},
}

func c11Kind(k string) (oaType, oaFormat, syslPrim string) {
	for _, x := range c11Kinds {
		if x.kind == k {
			return x.oaType, x.oaFormat, x.sysl
		}
	}
	return "string", "", "STRING"
}

func genSchemas(r *Rand, xsd bool) []fSchema {
	n := 1 + r.Intn(4)
	var names []string
	for i := 0; i < n; i++ {
		names = append(names, fmt.Sprintf("S%d", i))
	}
	if r.Chance(1, 3) {
		names[0] = "Pet-Type"
	}
	var out []fSchema
	for _, nm := range names {
		s := fSchema{Name: nm}
		pool := append([]string{}, c11PropNames...)
		Shuffle(r, pool)
		np := 1 + r.Intn(7)
		for p := 0; p < np; p++ {
			pr := fProp{Name: pool[p], Required: r.Chance(1, 2), Array: r.Chance(1, 4)}
			if xsd && (strings.ContainsAny(pr.Name, " :&+") || pr.Name == "string" || pr.Name == "int" || pr.Name == "type") {
				pr.Name = fmt.Sprintf("el%d", p) // not XML names / kept apart from the XSD built-ins
			}
			if r.Chance(1, 4) {
				pr.Kind, pr.Ref = "ref", names[r.Intn(n)]
			} else {
				pr.Kind = c11Kinds[r.Intn(len(c11Kinds))].kind
				if xsd {
					// the XSD importer maps a handful of built-ins and reads the rest as string
					pr.Kind = Pick(r, []string{"string", "int", "bool", "date"})
				}
			}
			s.Props = append(s.Props, pr)
		}
		out = append(out, s)
	}
	return out
}

func genOps(r *Rand, schemas []fSchema) []fOp {
	var ops []fOp
	methods := []string{"get", "post", "put", "delete", "patch"}
	for p := 0; p < 1+r.Intn(3); p++ {
		path := fmt.Sprintf("/res%d", p)
		var pathParams []fParam
		if r.Bool() {
			path += "/{id}"
			pathParams = append(pathParams, fParam{Name: "id", In: "path", Kind: Pick(r, []string{"int", "string"}), Required: true})
		}
		ms := append([]string{}, methods...)
		Shuffle(r, ms)
		if len(pathParams) > 0 && r.Chance(1, 3) {
			// several body-taking methods on one path whose only other parameter is the path's own: what one
			// method is given must not depend on its siblings (same body schema twice out of three)
			bodyMs := []string{"patch", "post", "put"}
			Shuffle(r, bodyMs)
			same := schemas[r.Intn(len(schemas))].Name
			for m := 0; m < 2+r.Intn(2); m++ {
				op := fOp{Method: bodyMs[m], Path: path, Resps: map[string]string{"200": ""}}
				op.Params = append(op.Params, pathParams...)
				ref := same
				if r.Chance(1, 3) {
					ref = schemas[r.Intn(len(schemas))].Name
				}
				op.Params = append(op.Params, fParam{Name: "body", In: "body", Ref: ref})
				ops = append(ops, op)
			}
			continue
		}
		for m := 0; m < 1+r.Intn(3); m++ {
			op := fOp{Method: ms[m], Path: path, Resps: map[string]string{}}
			op.Params = append(op.Params, pathParams...)
			for q := 0; q < r.Intn(3); q++ {
				op.Params = append(op.Params, fParam{Name: fmt.Sprintf("q%d", q), In: "query", Kind: Pick(r, []string{"int", "string", "bool"}), Required: r.Bool()})
			}
			if ms[m] != "get" && ms[m] != "delete" && r.Chance(2, 3) {
				op.Params = append(op.Params, fParam{Name: "body", In: "body", Ref: schemas[r.Intn(len(schemas))].Name})
			}
			codes := []string{"200", "201", "404", "500"}
			Shuffle(r, codes)
			for c := 0; c < 1+r.Intn(3); c++ {
				if r.Chance(3, 4) {
					op.Resps[codes[c]] = schemas[r.Intn(len(schemas))].Name
				} else {
					op.Resps[codes[c]] = ""
				}
			}
			ops = append(ops, op)
		}
	}
	return ops
}

func yq(s string) string { return fmt.Sprintf("%q", s) }

func oaProp(p fProp, refPrefix string) string {
	inner := ""
	if p.Kind == "ref" {
		inner = "{$ref: " + yq(refPrefix+p.Ref) + "}"
	} else {
		t, f, _ := c11Kind(p.Kind)
		inner = "{type: " + t
		if f != "" {
			inner += ", format: " + f
		}
		inner += "}"
	}
	if p.Array {
		return "{type: array, items: " + inner + "}"
	}
	return inner
}

func renderOpenAPI(d *fDoc, v3 bool) {
	var b strings.Builder
	refPrefix := "#/definitions/"
	if v3 {
		refPrefix = "#/components/schemas/"
		b.WriteString("openapi: \"3.0.0\"\ninfo:\n  title: Api\n  version: \"1\"\npaths:\n")
	} else {
		b.WriteString("swagger: \"2.0\"\ninfo:\n  title: Api\n  version: \"1\"\npaths:\n")
	}
	byPath := map[string][]fOp{}
	var paths []string
	for _, o := range d.Ops {
		if _, ok := byPath[o.Path]; !ok {
			paths = append(paths, o.Path)
		}
		byPath[o.Path] = append(byPath[o.Path], o)
	}
	for _, p := range paths {
		fmt.Fprintf(&b, "  %s:\n", p)
		pathLevel := false
		if d.PathLevel && !v3 {
			for _, pr := range byPath[p][0].Params {
				if pr.In == "path" {
					if !pathLevel {
						b.WriteString("    parameters:\n")
					}
					pathLevel = true
					t, f, _ := c11Kind(pr.Kind)
					ty := "type: " + t
					if f != "" {
						ty += ", format: " + f
					}
					fmt.Fprintf(&b, "      - {name: %s, in: path, required: true, %s}\n", pr.Name, ty)
				}
			}
		}
		for _, o := range byPath[p] {
			fmt.Fprintf(&b, "    %s:\n", o.Method)
			var body *fParam
			nonBody := 0
			for i := range o.Params {
				if o.Params[i].In == "body" {
					body = &o.Params[i]
				} else if !(pathLevel && o.Params[i].In == "path") {
					nonBody++
				}
			}
			if nonBody > 0 || (body != nil && !v3) {
				b.WriteString("      parameters:\n")
				for _, pr := range o.Params {
					if pathLevel && pr.In == "path" {
						continue
					}
					if pr.In == "body" {
						if !v3 {
							fmt.Fprintf(&b, "        - {name: %s, in: body, schema: {$ref: %s}}\n", pr.Name, yq(refPrefix+pr.Ref))
						}
						continue
					}
					t, f, _ := c11Kind(pr.Kind)
					ty := "type: " + t
					if f != "" {
						ty += ", format: " + f
					}
					if v3 {
						fmt.Fprintf(&b, "        - {name: %s, in: %s, required: %v, schema: {%s}}\n", pr.Name, pr.In, pr.Required, ty)
					} else {
						fmt.Fprintf(&b, "        - {name: %s, in: %s, required: %v, %s}\n", pr.Name, pr.In, pr.Required, ty)
					}
				}
			}
			if v3 && body != nil {
				fmt.Fprintf(&b, "      requestBody:\n        content:\n          application/json:\n            schema: {$ref: %s}\n", yq(refPrefix+body.Ref))
			}
			b.WriteString("      responses:\n")
			for _, code := range sortedKeys(o.Resps) {
				sch := o.Resps[code]
				switch {
				case sch == "":
					fmt.Fprintf(&b, "        %s: {description: \"r\"}\n", yq(code))
				case v3:
					fmt.Fprintf(&b, "        %s:\n          description: \"r\"\n          content:\n            application/json:\n              schema: {$ref: %s}\n", yq(code), yq(refPrefix+sch))
				default:
					fmt.Fprintf(&b, "        %s: {description: \"r\", schema: {$ref: %s}}\n", yq(code), yq(refPrefix+sch))
				}
			}
		}
	}
	if v3 {
		b.WriteString("components:\n  schemas:\n")
	} else {
		b.WriteString("definitions:\n")
	}
	ind := "  "
	if v3 {
		ind = "    "
	}
	for _, s := range d.Schemas {
		fmt.Fprintf(&b, "%s%s:\n%s  type: object\n", ind, yq(s.Name), ind)
		var req []string
		for _, p := range s.Props {
			if p.Required {
				req = append(req, yq(p.Name))
			}
		}
		if len(req) > 0 {
			fmt.Fprintf(&b, "%s  required: [%s]\n", ind, strings.Join(req, ", "))
		}
		fmt.Fprintf(&b, "%s  properties:\n", ind)
		for _, p := range s.Props {
			fmt.Fprintf(&b, "%s    %s: %s\n", ind, yq(p.Name), oaProp(p, refPrefix))
		}
	}
	for _, ar := range d.Arrays {
		if ar[1] == "string" {
			fmt.Fprintf(&b, "%s%s: {type: array, items: {type: string}}\n", ind, yq(ar[0]))
		} else {
			fmt.Fprintf(&b, "%s%s: {type: array, items: {$ref: %s}}\n", ind, yq(ar[0]), yq(refPrefix+ar[1]))
		}
	}
	d.Text = b.String()
}

func renderXSD(d *fDoc) {
	var b strings.Builder
	b.WriteString("<?xml version=\"1.0\" encoding=\"UTF-8\"?>\n<xs:schema xmlns:xs=\"http://www.w3.org/2001/XMLSchema\" targetNamespace=\"http://ex\" xmlns=\"http://ex\" elementFormDefault=\"qualified\">\n")
	xk := map[string]string{"string": "xs:string", "int": "xs:int", "int32": "xs:int", "int64": "xs:long", "float": "xs:float", "bool": "xs:boolean", "date": "xs:date", "datetime": "xs:dateTime"}
	for _, s := range d.Schemas {
		fmt.Fprintf(&b, "  <xs:complexType name=%q>\n", s.Name)
		open, close := "    <xs:sequence>\n", "    </xs:sequence>\n"
		pad := "      "
		if s.Base != "" {
			open = fmt.Sprintf("    <xs:complexContent>\n      <xs:extension base=%q>\n        <xs:sequence>\n", s.Base)
			close = "        </xs:sequence>\n"
			pad = "          "
		}
		b.WriteString(open)
		for _, p := range s.Props {
			if p.Attr {
				continue
			}
			ty := xk[p.Kind]
			if p.Kind == "ref" {
				ty = p.Ref
			}
			occ := ""
			if !p.Required {
				occ += ` minOccurs="0"`
			}
			if p.Array {
				occ += ` maxOccurs="unbounded"`
			}
			fmt.Fprintf(&b, "%s<xs:element name=%q type=%q%s/>\n", pad, p.Name, ty, occ)
		}
		b.WriteString(close)
		apad := "    "
		if s.Base != "" {
			apad = "        "
		}
		for _, p := range s.Props {
			if !p.Attr {
				continue
			}
			use := ""
			if p.Required {
				use = ` use="required"`
			}
			fmt.Fprintf(&b, "%s<xs:attribute name=%q type=%q%s/>\n", apad, p.Name, xk[p.Kind], use)
		}
		if s.Base != "" {
			b.WriteString("      </xs:extension>\n    </xs:complexContent>\n")
		}
		b.WriteString("  </xs:complexType>\n")
	}
	fmt.Fprintf(&b, "  <xs:element name=\"root\" type=%q/>\n</xs:schema>\n", d.Schemas[0].Name)
	d.Text = b.String()
}

func renderSQL(d *fDoc) {
	var b strings.Builder
	sk := map[string]string{"string": "STRING(50)", "int": "INT64", "int32": "INT64", "int64": "INT64", "float": "FLOAT64", "bool": "BOOL", "date": "DATE", "datetime": "TIMESTAMP"}
	for _, s := range d.Schemas {
		fmt.Fprintf(&b, "CREATE TABLE %s (\n", s.Name)
		var pk []string
		for _, p := range s.Props {
			nn := ""
			if p.Required || p.Key {
				nn = " NOT NULL"
			}
			fmt.Fprintf(&b, "  %s %s%s,\n", p.Name, sk[p.Kind], nn)
			if p.Key {
				pk = append(pk, p.Name)
			}
		}
		fmt.Fprintf(&b, ") PRIMARY KEY (%s);\n", strings.Join(pk, ", "))
	}
	d.Text = b.String()
}

func genFDoc(r *Rand, format string) *fDoc {
	d := &fDoc{Format: format}
	switch format {
	case "openapi2", "openapi3":
		d.Schemas = genSchemas(r, false)
		if format == "openapi2" && r.Chance(1, 3) {
			// named arrays, two of them over the same item type
			item := d.Schemas[r.Intn(len(d.Schemas))].Name
			d.Arrays = [][2]string{{"ListA", item}, {"ListB", item}}
			if r.Bool() {
				d.Arrays = append(d.Arrays, [2]string{"Names", "string"}, [2]string{"Labels", "string"})
			}
		}
		d.Ops = genOps(r, d.Schemas)
		d.PathLevel = r.Bool()
		d.File = "spec.yaml"
		renderOpenAPI(d, format == "openapi3")
	case "xsd":
		d.Schemas = genSchemas(r, true)
		for i := range d.Schemas {
			d.Schemas[i].Name = strings.ReplaceAll(d.Schemas[i].Name, "-", "")
			for j := range d.Schemas[i].Props {
				p := &d.Schemas[i].Props[j]
				p.Ref = strings.ReplaceAll(p.Ref, "-", "")
				p.Name = strings.NewReplacer("é", "e").Replace(p.Name)
				if p.Kind != "ref" && !p.Array && r.Chance(1, 4) {
					p.Attr = true
				}
			}
			if i > 0 && r.Chance(1, 2) {
				// an extension of the first type or of the previous one (chains: C extends B extends A)
				d.Schemas[i].Base = d.Schemas[0].Name
				if r.Bool() {
					d.Schemas[i].Base = d.Schemas[i-1].Name
				}
				// an extension adds elements; it does not re-declare those of its bases
				for j := range d.Schemas[i].Props {
					d.Schemas[i].Props[j].Name = fmt.Sprintf("d%d_", i) + d.Schemas[i].Props[j].Name
				}
			}
		}
		d.File = "schema.xsd"
		renderXSD(d)
	case "sql":
		n := 1 + r.Intn(3)
		for i := 0; i < n; i++ {
			s := fSchema{Name: fmt.Sprintf("Tab%d", i)}
			s.Props = append(s.Props, fProp{Name: "id", Kind: "int64", Key: true, Required: true})
			if r.Chance(1, 3) {
				s.Props = append(s.Props, fProp{Name: "sub", Kind: "string", Key: true, Required: true})
			}
			for c := 0; c < r.Intn(5); c++ {
				s.Props = append(s.Props, fProp{Name: fmt.Sprintf("c%d", c), Kind: c11Kinds[r.Intn(8)].kind, Required: r.Bool()}) // the kinds Spanner DDL has a column type for
			}
			d.Schemas = append(d.Schemas, s)
		}
		d.File = "schema.sql"
		renderSQL(d)
	}
	return d
}

func c11Import(d *fDoc, logger *logrus.Logger) (text string, err string) {
	defer func() {
		if x := recover(); x != nil {
			err = fmt.Sprint("panic: ", x)
		}
	}()
	fmtName := ""
	if d.Format == "sql" {
		fmtName = "spannerSQL"
	}
	imp, e := importer.Factory(d.File, false, fmtName, []byte(d.Text), logger)
	if e != nil {
		return "", e.Error()
	}
	imp, e = imp.Configure(&importer.ImporterArg{AppName: "Api", PackageName: "pkg"})
	if e != nil {
		return "", e.Error()
	}
	out, e := imp.Load(d.Text)
	if e != nil {
		return "", e.Error()
	}
	return out, ""
}

func init() { runners["C11"] = runC11 }

func runC11(res *Result, tier string, rnd *Rand, replay string) {
	res.Rule = "generated foreign specifications: OpenAPI 2 and OpenAPI 3 documents (1-4 object schemas with 1-7 properties of every primitive kind, arrays, references, required lists of any length, property names needing escaping or equal to Sysl keywords and type names; 1-3 paths x 1-3 methods with path, query and body parameters and 1-3 responses), XSD schemas (complex types with elements, occurrence bounds, attributes, extension), Spanner SQL DDL (tables, column types, NOT NULL, single and composite keys); non-trivial = a document whose import succeeds; distinct by (format, text hash)"
	logger := logrus.New()
	logger.SetLevel(logrus.PanicLevel)
	counts := map[string]int{"openapi2": 60, "xsd": 40, "openapi3": 6, "sql": 6}
	if tier == "thorough" {
		counts = map[string]int{"openapi2": 400, "xsd": 300, "openapi3": 30, "sql": 30}
	}
	for _, format := range []string{"openapi2", "xsd", "openapi3", "sql"} {
		for i := 0; i < counts[format]; i++ {
			r := rnd.Fork()
			d := genFDoc(r, format)
			in := map[string]any{"format": format, "document": d.Text}
			key := format + hashOf(d.Text)
			var text, ierr string
			func() {
				defer Track(in)()
				text, ierr = c11Import(d, logger)
			}()
			res.Count("format:" + format)
			if ierr != "" {
				cls := c11ErrClass(ierr)
				res.Violate(Violation{Sig: "import-fails:" + format + ":" + cls, What: "import of a well-formed " + format + " document fails: " + firstLine(ierr), Input: in})
				res.Eval(key, false)
				continue
			}
			res.Traces++
			res.Eval(key, true)
			if again, e2 := c11Import(d, logger); e2 != "" {
				// the second import fails although the first succeeded: the failure depends on the run
				// (e.g. the order in which a library walks a map); reported under the failure's own class
				res.Violate(Violation{Sig: "import-fails:" + format + ":" + c11ErrClass(e2), What: "a second import of a well-formed " + format + " document fails although the first one succeeded: " + firstLine(e2), Input: in})
			} else if again != text {
				res.Violate(Violation{Sig: "second-import-differs:" + format, What: "importing the same document again gives different text", Input: in, Got: firstDiffLine(text, again)})
			}
			m, err := compileFiles(map[string]string{"main.sysl": text}, "main.sysl")
			if err != nil {
				sig := "imported-text-does-not-compile:" + format
				for _, sc := range d.Schemas {
					for _, p := range sc.Props {
						switch strings.ToLower(p.Name) {
						case "if", "else", "for", "loop", "while", "until", "alt", "return":
							sig = "imported-text-does-not-compile:" + format + ":statement-keyword-as-property-name"
						}
					}
				}
				res.Violate(Violation{Sig: sig, What: "the imported Sysl text does not compile: " + firstLine(err.Error()), Input: in, Got: text})
				continue
			}
			c11Census(res, in, d, m, text)
		}
	}
}

func c11Census(res *Result, in map[string]any, d *fDoc, m *sysl.Module, text string) {
	viol := func(sig, what string) {
		res.Violate(Violation{Sig: sig + ":" + d.Format, What: what, Input: in, Got: text})
	}
	app := m.Apps["Api"]
	if app == nil {
		viol("application-missing", "the imported model has no application Api")
		return
	}
	// a type is found by its (unescaped) name; a field by its json_tag or its name
	findType := func(name string) *sysl.Type {
		for tn, t := range app.Types {
			if tn == name || strings.TrimPrefix(tn, "_") == name {
				return t
			}
		}
		return nil
	}
	fieldsOf := func(t *sysl.Type) map[string]*sysl.Type {
		if t.GetTuple() != nil {
			return t.GetTuple().GetAttrDefs()
		}
		return t.GetRelation().GetAttrDefs()
	}
	var props func(s fSchema, inherited bool) []fProp
	props = func(s fSchema, inherited bool) []fProp {
		out := append([]fProp{}, s.Props...)
		if s.Base != "" {
			for _, b := range d.Schemas {
				if b.Name == s.Base {
					for _, p := range props(b, true) {
						out = append(out, p)
					}
				}
			}
		}
		return out
	}
	for _, ar := range d.Arrays {
		if findType(ar[0]) == nil {
			viol("type-missing", "the array definition "+ar[0]+" has no type")
		}
	}
	for _, s := range d.Schemas {
		t := findType(s.Name)
		if t == nil {
			viol("type-missing", "schema "+s.Name+" has no type")
			continue
		}
		fields := fieldsOf(t)
		for _, p := range props(s, false) {
			var f *sysl.Type
			for fn, ft := range fields {
				// `name(0..) <: sequence of T` compiles to a list whose element type carries the rest
				if ft.GetList() != nil {
					ft = ft.GetList().GetType()
				}
				tag := ft.GetAttrs()["json_tag"].GetS()
				base := fn
				if i := strings.Index(base, "("); i > 0 {
					base = base[:i]
				}
				if tag == p.Name || (tag == "" && (base == p.Name || base == p.Name+"_")) {
					f = ft
				}
			}
			own := false
			for _, q := range s.Props {
				own = own || q.Name == p.Name
			}
			if f == nil {
				if !own && p.Attr {
					viol("xsd-extension-drops-base-attribute", "type "+s.Name+" extends "+s.Base+" but lacks its attribute "+p.Name)
				} else {
					viol("property-missing", "type "+s.Name+" has no field for property "+p.Name)
				}
				continue
			}
			inner := f
			isArr := false
			if f.GetList() != nil {
				f = f.GetList().GetType()
				inner, isArr = f, true
			}
			if f.GetSequence() != nil {
				inner, isArr = f.GetSequence(), true
			} else if f.GetSet() != nil {
				inner, isArr = f.GetSet(), true
			} else if f.GetList() != nil {
				inner, isArr = f.GetList().GetType(), true
			}
			if isArr != p.Array {
				viol("array-ness-differs", fmt.Sprintf("%s.%s: array=%v in the document, %v in the model", s.Name, p.Name, p.Array, isArr))
			}
			if d.Format != "sql" || !p.Key {
				if f.GetOpt() == p.Required {
					viol("optionality-differs", fmt.Sprintf("%s.%s: required=%v in the document, optional=%v in the model", s.Name, p.Name, p.Required, f.GetOpt()))
				}
			}
			if p.Kind == "ref" {
				if inner.GetTypeRef() == nil || !strings.HasSuffix(strings.Join(inner.GetTypeRef().GetRef().GetPath(), "."), strings.TrimPrefix(p.Ref, "_")) {
					viol("reference-differs", fmt.Sprintf("%s.%s refers to %s in the document", s.Name, p.Name, p.Ref))
				}
			} else {
				_, _, want := c11Kind(p.Kind)
				if inner.GetPrimitive().String() != want {
					viol("primitive-kind-differs:"+p.Kind, fmt.Sprintf("%s.%s is %s in the document, %s in the model", s.Name, p.Name, p.Kind, inner.GetPrimitive().String()))
				}
			}
			if p.Key {
				isPK := false
				for _, e := range f.GetAttrs()["patterns"].GetA().GetElt() {
					isPK = isPK || e.GetS() == "pk"
				}
				if !isPK {
					viol("key-ness-lost", fmt.Sprintf("%s.%s is a key column", s.Name, p.Name))
				}
			}
		}
	}
	for _, o := range d.Ops {
		name := strings.ToUpper(o.Method) + " " + o.Path
		ep := app.Endpoints[name]
		if ep == nil {
			viol("endpoint-missing", "no endpoint "+name)
			continue
		}
		for _, p := range o.Params {
			found := false
			switch p.In {
			case "path":
				for _, u := range ep.GetRestParams().GetUrlParam() {
					found = found || u.GetName() == p.Name
				}
			case "query":
				for _, q := range ep.GetRestParams().GetQueryParam() {
					if q.GetName() == p.Name {
						found = true
						if q.GetType().GetOpt() == p.Required {
							viol("query-parameter-optionality-differs", fmt.Sprintf("%s %s: required=%v", name, p.Name, p.Required))
						}
					}
				}
			case "body":
				for _, bp := range ep.GetParam() {
					if strings.Contains(strings.Join(bp.GetType().GetTypeRef().GetRef().GetPath(), "."), strings.TrimPrefix(p.Ref, "_")) {
						found = true
					}
				}
			}
			if !found {
				viol("parameter-missing:"+p.In, name+" has no "+p.In+" parameter "+p.Name)
			}
		}
		rets := map[string]string{}
		for _, st := range ep.GetStmt() {
			if r := st.GetRet(); r != nil {
				f := strings.Fields(r.GetPayload())
				if len(f) > 0 {
					rets[f[0]] = r.GetPayload()
				}
			}
		}
		for code, sch := range o.Resps {
			pl, ok := rets[code]
			if !ok {
				if code == "200" {
					pl, ok = rets["ok"]
				}
			}
			if !ok {
				viol("response-missing", name+" has no return for "+code)
				continue
			}
			if sch != "" && !strings.Contains(pl, strings.TrimPrefix(sch, "_")) && !strings.Contains(pl, strings.ReplaceAll(sch, "-", "%2D")) {
				viol("response-type-differs", fmt.Sprintf("%s response %s should carry %s: %q", name, code, sch, pl))
			}
		}
	}
}

func c11ErrClass(e string) string {
	switch {
	case strings.Contains(e, "not between 0 and 127"):
		return "non-ascii-name"
	case strings.Contains(e, "circular schema reference"):
		return "circular-schema-reference"
	}
	return c12ValClass(e)
}
