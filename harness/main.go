package main

import (
	"flag"
	"fmt"
	"os"
	"time"
)

type runner func(res *Result, tier string, rnd *Rand, replay string)

var runners = map[string]runner{}

func main() {
	if len(os.Args) < 2 {
		fmt.Fprintln(os.Stderr, "usage: verifh <property> [--tier quick|thorough] [--out file] [--replay file]")
		os.Exit(2)
	}
	prop := os.Args[1]
	fs := flag.NewFlagSet(prop, flag.ExitOnError)
	tier := fs.String("tier", "quick", "quick|thorough")
	out := fs.String("out", "", "result JSON path")
	replay := fs.String("replay", "", "replay file")
	orc := fs.String("oracle", "", "path of the Lean oracle executable")
	_ = fs.Parse(os.Args[2:])
	if *orc != "" {
		oraclePath = *orc
	}
	run, ok := runners[prop]
	if !ok {
		fmt.Fprintf(os.Stderr, "unknown property %s\n", prop)
		os.Exit(2)
	}
	seed := envSeed()
	start := time.Now()
	res := NewResult(prop, *tier, seed)
	if *out == "" {
		*out = "/dev/stdout"
	}
	StartWatchdog(res, *out, start, 12<<30, 5*time.Minute)
	run(res, *tier, NewRand(seed*0x9E3779B97F4A7C15+uint64(len(prop))), *replay)
	res.Write(*out, start)
}
