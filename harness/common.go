// Package main: correspondence harness for the sysl verification (see /verif/DESIGN.md).
// One subcommand per property; each runs the real /repo code in-process, pipes the same
// inputs to the Lean `oracle`, diffs canonical outputs and applies the property's
// model-free direct oracle. Results are written as one JSON file for the driver.
package main

import (
	"bufio"
	"crypto/sha256"
	"encoding/hex"
	"encoding/json"
	"fmt"
	"os"
	"os/exec"
	"runtime"
	"sort"
	"strconv"
	"sync"
	"time"
)

// ---------- PRNG (splitmix64): every random choice derives from VERIF_SEED ----------

type Rand struct{ s uint64 }

func NewRand(seed uint64) *Rand { return &Rand{s: seed} }
func (r *Rand) Next() uint64 {
	r.s += 0x9E3779B97F4A7C15
	z := r.s
	z = (z ^ (z >> 30)) * 0xBF58476D1CE4E5B9
	z = (z ^ (z >> 27)) * 0x94D049BB133111EB
	return z ^ (z >> 31)
}
func (r *Rand) Intn(n int) int {
	if n <= 0 {
		return 0
	}
	return int(r.Next() % uint64(n))
}
func (r *Rand) Bool() bool          { return r.Next()&1 == 1 }
func (r *Rand) Chance(p, q int) bool { return r.Intn(q) < p }
func (r *Rand) Fork() *Rand         { return NewRand(r.Next()) }
func Pick[T any](r *Rand, xs []T) T { return xs[r.Intn(len(xs))] }
func Shuffle[T any](r *Rand, xs []T) {
	for i := len(xs) - 1; i > 0; i-- {
		j := r.Intn(i + 1)
		xs[i], xs[j] = xs[j], xs[i]
	}
}

// ---------- result file ----------

type Disagreement struct {
	Input any    `json:"input"`
	Model any    `json:"model"`
	Impl  any    `json:"impl"`
	What  string `json:"what"`
}

// Violation: the property itself (model-free direct oracle) fails on the implementation.
type Violation struct {
	Sig   string `json:"sig"` // stable signature used to match KNOWN_FINDINGS entries
	What  string `json:"what"`
	Input any    `json:"input"`
	Got   any    `json:"got,omitempty"`
	Want  any    `json:"want,omitempty"`
}

type Result struct {
	Property      string         `json:"property"`
	Tier          string         `json:"tier"`
	Seed          uint64         `json:"seed"`
	Evaluations   int            `json:"evaluations"`
	Distinct      int            `json:"distinct_nontrivial"`
	Rule          string         `json:"rule"`
	Samples       []any          `json:"samples"`
	Traces        int            `json:"traces_validated_against_impl"`
	Exhaustive    bool           `json:"exhaustive"`
	Distribution  map[string]int `json:"distribution"`
	Disagreements []Disagreement `json:"disagreements"`
	Violations    []Violation    `json:"violations"`
	Notes         []string       `json:"notes"`
	WallS         float64        `json:"wall_s"`

	mu       sync.Mutex
	distinct map[string]bool
}

func NewResult(prop, tier string, seed uint64) *Result {
	return &Result{Property: prop, Tier: tier, Seed: seed, Distribution: map[string]int{},
		distinct: map[string]bool{}, Disagreements: []Disagreement{}, Violations: []Violation{},
		Samples: []any{}, Notes: []string{}}
}

func (r *Result) Count(key string) {
	r.mu.Lock()
	r.Distribution[key]++
	r.mu.Unlock()
}
func (r *Result) CountN(key string, n int) {
	r.mu.Lock()
	r.Distribution[key] += n
	r.mu.Unlock()
}

// Eval records one evaluated case; nontrivial cases are de-duplicated by canonical key.
func (r *Result) Eval(key string, nontrivial bool) {
	r.mu.Lock()
	r.Evaluations++
	if nontrivial {
		h := sha256.Sum256([]byte(key))
		k := string(h[:12])
		if !r.distinct[k] {
			r.distinct[k] = true
			r.Distinct++
		}
	}
	r.mu.Unlock()
}
func (r *Result) Sample(v any) {
	r.mu.Lock()
	if len(r.Samples) < 6 {
		r.Samples = append(r.Samples, v)
	}
	r.mu.Unlock()
}
func (r *Result) Disagree(d Disagreement) {
	r.mu.Lock()
	if len(r.Disagreements) < 50 {
		r.Disagreements = append(r.Disagreements, d)
	}
	r.Distribution["disagreements"]++
	r.mu.Unlock()
}
func (r *Result) Violate(v Violation) {
	r.mu.Lock()
	seen := false
	n := 0
	for _, x := range r.Violations {
		if x.Sig == v.Sig {
			n++
		}
	}
	if n >= 3 { // keep at most three examples per signature
		seen = true
	}
	if !seen && len(r.Violations) < 200 {
		r.Violations = append(r.Violations, v)
	}
	r.Distribution["violations:"+v.Sig]++
	r.mu.Unlock()
}
func (r *Result) Note(f string, a ...any) {
	r.mu.Lock()
	r.Notes = append(r.Notes, fmt.Sprintf(f, a...))
	r.mu.Unlock()
}

func (r *Result) Write(path string, start time.Time) {
	r.WallS = time.Since(start).Seconds()
	b, err := json.MarshalIndent(r, "", " ")
	if err != nil {
		panic(err)
	}
	if err := os.WriteFile(path, b, 0o644); err != nil {
		panic(err)
	}
}

// ---------- oracle client (batch) ----------

var oraclePath = "/verif/lean/.lake/build/bin/oracle"

// RunOracle pipes reqs (one JSON per line) through the Lean oracle and returns one
// decoded reply per request.
func RunOracle(reqs []any) ([]map[string]any, error) {
	cmd := exec.Command(oraclePath)
	in, err := cmd.StdinPipe()
	if err != nil {
		return nil, err
	}
	outp, err := cmd.StdoutPipe()
	if err != nil {
		return nil, err
	}
	cmd.Stderr = os.Stderr
	if err := cmd.Start(); err != nil {
		return nil, err
	}
	go func() {
		w := bufio.NewWriterSize(in, 1<<20)
		enc := json.NewEncoder(w)
		enc.SetEscapeHTML(false)
		for _, q := range reqs {
			_ = enc.Encode(q)
		}
		w.Flush()
		in.Close()
	}()
	res := make([]map[string]any, 0, len(reqs))
	sc := bufio.NewScanner(outp)
	sc.Buffer(make([]byte, 1<<20), 1<<28)
	for sc.Scan() {
		var m any
		dec := json.NewDecoder(bytesReader(sc.Bytes()))
		dec.UseNumber()
		if err := dec.Decode(&m); err != nil {
			return nil, fmt.Errorf("oracle reply not JSON: %q", sc.Text())
		}
		mm, ok := m.(map[string]any)
		if !ok {
			mm = map[string]any{"value": m}
		}
		res = append(res, mm)
	}
	if err := cmd.Wait(); err != nil {
		return nil, fmt.Errorf("oracle: %w", err)
	}
	if len(res) != len(reqs) {
		return nil, fmt.Errorf("oracle returned %d replies for %d requests", len(res), len(reqs))
	}
	return res, nil
}

// RunOracleChunks splits a big batch over several oracle processes.
func RunOracleChunks(reqs []any, workers int) ([]map[string]any, error) {
	if workers < 1 {
		workers = 1
	}
	n := len(reqs)
	if n == 0 {
		return nil, nil
	}
	chunk := (n + workers - 1) / workers
	out := make([]map[string]any, n)
	errs := make([]error, workers)
	var wg sync.WaitGroup
	for w := 0; w < workers; w++ {
		lo := w * chunk
		hi := lo + chunk
		if lo >= n {
			break
		}
		if hi > n {
			hi = n
		}
		wg.Add(1)
		go func(w, lo, hi int) {
			defer wg.Done()
			r, err := RunOracle(reqs[lo:hi])
			if err != nil {
				errs[w] = err
				return
			}
			copy(out[lo:hi], r)
		}(w, lo, hi)
	}
	wg.Wait()
	for _, e := range errs {
		if e != nil {
			return nil, e
		}
	}
	return out, nil
}

// ---------- small helpers ----------

func hashOf(v any) string {
	b, _ := json.Marshal(v)
	h := sha256.Sum256(b)
	return hex.EncodeToString(h[:8])
}

func sortedKeys[V any](m map[string]V) []string {
	ks := make([]string, 0, len(m))
	for k := range m {
		ks = append(ks, k)
	}
	sort.Strings(ks)
	return ks
}

// workers: in-process concurrency of calls into the implementation (VERIF_WORKERS)
func workers(def int) int {
	if s := os.Getenv("VERIF_WORKERS"); s != "" {
		if v, err := strconv.Atoi(s); err == nil && v > 0 {
			return v
		}
	}
	return def
}

func envSeed() uint64 {
	if s := os.Getenv("VERIF_SEED"); s != "" {
		if v, err := strconv.ParseUint(s, 10, 64); err == nil {
			return v
		}
		if v, err := strconv.ParseInt(s, 10, 64); err == nil {
			return uint64(v)
		}
	}
	return 1
}

func mstr(m map[string]any, k string) string {
	if v, ok := m[k].(string); ok {
		return v
	}
	return ""
}
func mbool(m map[string]any, k string) bool {
	if v, ok := m[k].(bool); ok {
		return v
	}
	return false
}
func mstrs(m map[string]any, k string) []string {
	a, _ := m[k].([]any)
	out := make([]string, 0, len(a))
	for _, x := range a {
		s, _ := x.(string)
		out = append(out, s)
	}
	return out
}

func readJSON(path string, v any) {
	b, err := os.ReadFile(path)
	if err != nil {
		fmt.Fprintln(os.Stderr, err)
		os.Exit(2)
	}
	if err := json.Unmarshal(b, v); err != nil {
		fmt.Fprintln(os.Stderr, err)
		os.Exit(2)
	}
}

// ---------- watchdog: memory / wall-clock guard for in-process calls into /repo ----------

type watchdog struct {
	mu     sync.Mutex
	active map[int]wdJob
	next   int
}
type wdJob struct {
	desc  any
	start time.Time
}

var wd = &watchdog{active: map[int]wdJob{}}

// Track registers a piece of work that calls into the implementation; call the returned
// function when it is done.
func Track(desc any) func() {
	wd.mu.Lock()
	id := wd.next
	wd.next++
	wd.active[id] = wdJob{desc, time.Now()}
	journalWrite(map[string]any{"s": id, "input": desc})
	wd.mu.Unlock()
	return func() {
		wd.mu.Lock()
		delete(wd.active, id)
		journalWrite(map[string]any{"d": id})
		wd.mu.Unlock()
	}
}

// journal: one line per started / finished call into the implementation (env VERIF_JOURNAL).
// If the process is killed by a panic in a goroutine of the implementation, the driver reads
// the unfinished entries and re-runs each alone (--replay) to find the crashing input.
var journalFile *os.File

func journalWrite(v any) {
	if journalFile == nil {
		p := os.Getenv("VERIF_JOURNAL")
		if p == "" {
			return
		}
		f, err := os.OpenFile(p, os.O_CREATE|os.O_WRONLY|os.O_APPEND, 0o644)
		if err != nil {
			return
		}
		journalFile = f
	}
	b, err := json.Marshal(v)
	if err != nil {
		return
	}
	_, _ = journalFile.Write(append(b, '\n'))
}

// StartWatchdog aborts the run — writing the result with a violation that lists the work in
// flight — when the heap passes memLimit bytes or a tracked job runs longer than maxJob.
func StartWatchdog(res *Result, out string, start time.Time, memLimit uint64, maxJob time.Duration) {
	go func() {
		for {
			time.Sleep(200 * time.Millisecond)
			var ms runtime.MemStats
			runtime.ReadMemStats(&ms)
			why := ""
			var culprits []any
			wd.mu.Lock()
			if ms.HeapAlloc > memLimit {
				why = fmt.Sprintf("heap grew past %d MiB", memLimit>>20)
				for _, j := range wd.active {
					culprits = append(culprits, j.desc)
				}
			} else {
				for _, j := range wd.active {
					if time.Since(j.start) > maxJob {
						why = fmt.Sprintf("a call into the implementation did not return within %s", maxJob)
						culprits = append(culprits, j.desc)
					}
				}
			}
			wd.mu.Unlock()
			if why == "" {
				continue
			}
			if len(culprits) > 8 {
				culprits = culprits[:8]
			}
			// not a verdict by itself: the driver re-runs every in-flight input alone in a fresh
			// process and reports the one that reproduces (exit status 3 = aborted by watchdog)
			fmt.Fprintf(os.Stderr, "fatal error: watchdog: %s\n", why)
			os.Exit(3)
		}
	}()
}
