package main

// C15 — data-model diagrams contain every type, field and relationship.
// Real code: datamodeldiagram.GenerateDataModels (direct mode, whole module and per application).
// The PlantUML text is read back into classes, fields and relationship lines and compared with
// the type graph of the generated model (the generator knows what it wrote).
// Model: SyslModel.DataModel (alias allocation and the relationship counter).

import (
	"fmt"
	"regexp"
	"sort"
	"strings"

	"github.com/anz-bank/sysl/pkg/cmdutils"
	"github.com/anz-bank/sysl/pkg/datamodeldiagram"
	"github.com/sirupsen/logrus"
)

type dmField struct {
	Name   string
	Prim   string // "" for a reference
	Wrap   string // "", set, seq
	Opt    bool
	Target string // full name "App.Type" of the referenced type
	FK     string // table fields: referenced column
}
type dmType struct {
	App, Name string
	Kind      string // tuple table alias enum
	Fields    []dmField
	Prim      string // alias
	Items     []string
}
type dmModel struct {
	Types []dmType
	Text  string
}

func (t dmType) full() string { return t.App + "." + t.Name }

var dmPrims = []string{"int", "string", "bool", "date", "decimal", "float"}

func genDM(r *Rand) *dmModel {
	m := &dmModel{}
	appPool := [][]string{{"Shop", "ShopAdmin", "Ledger"}, {"App1", "App10", "Core"}, {"Shop", "Bank"}}
	apps := Pick(r, appPool)
	apps = apps[:1+r.Intn(len(apps))]
	// names first
	type slot struct{ app, name, kind string }
	var slots []slot
	for _, a := range apps {
		nt := 1 + r.Intn(4)
		for i := 0; i < nt; i++ {
			slots = append(slots, slot{a, fmt.Sprintf("T%d", i), "tuple"})
			if r.Chance(1, 4) {
				// a type declared inside this one: a class of its own (App.T.In), never the target of a reference
				slots = append(slots, slot{a, fmt.Sprintf("T%d.In", i), "tuple"})
			}
		}
		for i := 0; i < r.Intn(3); i++ {
			nm := fmt.Sprintf("Tab%d", i)
			if r.Chance(1, 3) {
				nm = "Cust" // the same table name in several applications
			}
			dup := false
			for _, s := range slots {
				dup = dup || (s.app == a && s.name == nm)
			}
			if !dup {
				slots = append(slots, slot{a, nm, "table"})
			}
		}
		if r.Chance(1, 2) {
			slots = append(slots, slot{a, "Status", "enum"})
		}
		if r.Chance(1, 2) {
			slots = append(slots, slot{a, "Money", "alias"})
		}
	}
	byKind := func(app, kind string) []slot {
		var out []slot
		for _, s := range slots {
			if (app == "" || s.app == app) && s.kind == kind {
				out = append(out, s)
			}
		}
		return out
	}
	for _, s := range slots {
		t := dmType{App: s.app, Name: s.name, Kind: s.kind}
		switch s.kind {
		case "tuple":
			nf := 1 + r.Intn(6)
			for f := 0; f < nf; f++ {
				fd := dmField{Name: fmt.Sprintf("f%d", f), Opt: r.Chance(1, 4)}
				switch k := r.Intn(10); {
				case k < 4:
					fd.Prim = Pick(r, dmPrims)
					if r.Chance(1, 4) {
						fd.Wrap = Pick(r, []string{"set", "seq"})
					}
				default:
					// a reference: local or to another application, to a tuple, a table, an enum or an alias
					var cands []slot
					sameApp := r.Chance(1, 2)
					for _, c := range slots {
						if (c.app == s.app || !sameApp) && !strings.Contains(c.name, ".") {
							cands = append(cands, c)
						}
					}
					c := Pick(r, cands)
					if r.Chance(1, 3) && f > 0 && t.Fields[f-1].Target != "" {
						// several references to the same target, of different kinds
						fd.Target = t.Fields[f-1].Target
					} else {
						fd.Target = c.app + "." + c.name
					}
					if r.Chance(1, 2) {
						fd.Wrap = Pick(r, []string{"set", "seq"})
					}
				}
				t.Fields = append(t.Fields, fd)
			}
		case "table":
			t.Fields = append(t.Fields, dmField{Name: "id", Prim: "int"})
			for f := 0; f < r.Intn(3); f++ {
				if tabs := byKind(s.app, "table"); len(tabs) > 0 && r.Chance(1, 2) {
					tg := Pick(r, tabs)
					t.Fields = append(t.Fields, dmField{Name: fmt.Sprintf("r%d", f), Target: tg.app + "." + tg.name, FK: "id"})
				} else {
					t.Fields = append(t.Fields, dmField{Name: fmt.Sprintf("c%d", f), Prim: Pick(r, dmPrims)})
				}
			}
		case "enum":
			t.Items = []string{"NEW", "OLD", "GONE"}[:1+r.Intn(3)]
		case "alias":
			t.Prim = Pick(r, dmPrims)
		}
		m.Types = append(m.Types, t)
	}
	var b strings.Builder
	for _, a := range apps {
		b.WriteString(a + ":\n")
		for _, t := range m.Types {
			if t.App != a {
				continue
			}
			if strings.Contains(t.Name, ".") {
				continue // written inside its enclosing type
			}
			switch t.Kind {
			case "tuple", "table":
				kw := "!type"
				if t.Kind == "table" {
					kw = "!table"
				}
				fmt.Fprintf(&b, "    %s %s:\n", kw, t.Name)
				writeFields := func(t dmType, ind string) {
					for _, f := range t.Fields {
						ty := f.Prim
						if ty == "" {
							tapp, tname := f.Target[:strings.Index(f.Target, ".")], f.Target[strings.Index(f.Target, ".")+1:]
							ty = tname
							if tapp != a {
								ty = tapp + "." + tname
							}
							if f.FK != "" {
								ty = tname + "." + f.FK
							}
						}
						switch f.Wrap {
						case "set":
							ty = "set of " + ty
						case "seq":
							ty = "sequence of " + ty
						}
						if f.Opt {
							ty += "?"
						}
						attr := ""
						if t.Kind == "table" && f.Name == "id" {
							attr = " [~pk]"
						}
						fmt.Fprintf(&b, "%s%s <: %s%s\n", ind, f.Name, ty, attr)
					}
				}
				writeFields(t, "        ")
				for _, nt := range m.Types {
					if nt.App == a && nt.Name == t.Name+".In" {
						b.WriteString("        !type In:\n")
						writeFields(nt, "            ")
					}
				}
			case "enum":
				fmt.Fprintf(&b, "    !enum %s:\n", t.Name)
				for i, it := range t.Items {
					fmt.Fprintf(&b, "        %s: %d\n", it, i+1)
				}
			case "alias":
				fmt.Fprintf(&b, "    !alias %s:\n        %s\n", t.Name, t.Prim)
			}
		}
		b.WriteString("    Ping:\n        ...\n")
	}
	m.Text = b.String()
	return m
}

type dmClass struct {
	Name, Alias string
	Fields      []string
}

var (
	reDMClass = regexp.MustCompile(`^(class|enum) "([^"]*)" as (_\d+)`)
	reDMField = regexp.MustCompile(`^\+ (\S+) : `)
	reDMEdge  = regexp.MustCompile(`^(_\d+) \S+ "[^"]*" (_\d+)$`)
)

func parseDM(text string) (classes []dmClass, edges [][2]string, unknown []string) {
	var cur *dmClass
	for _, ln := range strings.Split(text, "\n") {
		switch {
		case reDMClass.MatchString(ln):
			m := reDMClass.FindStringSubmatch(ln)
			classes = append(classes, dmClass{Name: m[2], Alias: m[3]})
			cur = &classes[len(classes)-1]
		case ln == "}":
			cur = nil
		case cur != nil && reDMField.MatchString(ln):
			cur.Fields = append(cur.Fields, reDMField.FindStringSubmatch(ln)[1])
		case cur != nil:
			cur.Fields = append(cur.Fields, strings.TrimSpace(ln))
		case reDMEdge.MatchString(ln):
			m := reDMEdge.FindStringSubmatch(ln)
			edges = append(edges, [2]string{m[1], m[2]})
		case ln == "" || strings.HasPrefix(ln, "@") || strings.HasPrefix(ln, "'") || strings.HasPrefix(ln, "title") || strings.HasPrefix(ln, "skinparam") || strings.HasPrefix(ln, "hide") || strings.HasPrefix(ln, "left to") || strings.HasPrefix(ln, "scale") || strings.HasPrefix(ln, "  ") || ln == "}":
		default:
			unknown = append(unknown, ln)
		}
	}
	return
}

func init() { runners["C15"] = runC15 }

func runC15(res *Result, tier string, rnd *Rand, replay string) {
	res.Rule = "generated data models (1-3 applications, one name a prefix of another; tuples with primitive, optional, set/sequence-wrapped and reference fields - local and cross-application, to tuples, tables, enums and primitive aliases, several references of different kinds to one target, self-references; tables with foreign keys, the same table name in two applications; enums; aliases) x {whole-module diagram, one diagram per application}; non-trivial = a model that compiles and whose diagram has at least one class; distinct by (text hash, mode)"
	logger := logrus.New()
	logger.SetLevel(logrus.PanicLevel)
	n := 150
	if tier == "thorough" {
		n = 4000
	}
	for i := 0; i < n; i++ {
		r := rnd.Fork()
		m := genDM(r)
		mod, err := compileFiles(map[string]string{"main.sysl": m.Text}, "main.sysl")
		if err != nil {
			res.Count("not-compiling")
			res.Note("not compiling: %s", firstLine(err.Error()))
			continue
		}
		for _, mode := range []string{"module", "per-app"} {
			in := map[string]any{"text": m.Text, "mode": mode}
			out := "all.png"
			if mode == "per-app" {
				out = "%(epname).png"
			}
			var diagrams map[string]string
			var perr string
			func() {
				defer Track(in)()
				defer func() {
					if x := recover(); x != nil {
						perr = fmt.Sprint(x)
					}
				}()
				p := &cmdutils.CmdContextParamDatagen{Title: "", Output: out, Direct: true, ClassFormat: "%(classname)"}
				var e error
				diagrams, e = datamodeldiagram.GenerateDataModels(p, mod, logger)
				if e != nil {
					perr = e.Error()
				}
			}()
			key := hashOf(m.Text) + mode
			if perr != "" {
				res.Count("generator-fails") // crash behaviour is C20's subject
				res.Eval(key, false)
				continue
			}
			res.Traces++
			for dname, text := range diagrams {
				covered := ""
				if mode == "per-app" {
					covered = strings.TrimSuffix(dname, ".png")
				}
				c15Check(res, in, m, covered, text)
			}
			res.Eval(key, len(diagrams) > 0)
			res.Count("mode:" + mode)
		}
		if i == 0 {
			res.Sample(map[string]any{"text": m.Text})
		}
	}
}

func c15Check(res *Result, in map[string]any, m *dmModel, covered string, text string) {
	classes, edges, unknown := parseDM(text)
	if len(unknown) > 0 {
		res.Disagree(Disagreement{What: "the diagram reader does not understand a line", Input: in, Impl: unknown[0]})
		return
	}
	want := map[string]dmType{}
	for _, t := range m.Types {
		if covered == "" || t.App == covered {
			want[t.full()] = t
		}
	}
	viol := func(sig, what string, got any) {
		res.Violate(Violation{Sig: sig, What: what, Input: in, Got: got})
	}
	// --- classes: exactly one per covered type, nothing else ---
	seen := map[string]int{}
	aliasOf := map[string]string{}
	byAlias := map[string][]string{}
	for _, c := range classes {
		seen[c.Name]++
		aliasOf[c.Name] = c.Alias
		byAlias[c.Alias] = append(byAlias[c.Alias], c.Name)
		if _, ok := want[c.Name]; !ok {
			viol("class-not-in-model", "the diagram declares a class for "+c.Name+", which the covered model does not contain", c)
		}
	}
	for name := range want {
		if seen[name] != 1 {
			viol("class-count", fmt.Sprintf("%s is declared %d times", name, seen[name]), nil)
		}
	}
	short := func(s string) string { return s[strings.LastIndex(s, ".")+1:] }
	// tables and primitive aliases are given their alias by short name (recorded defect): a short name
	// used by several of them makes every line to or from them ambiguous
	shortUse := map[string]int{}
	for _, t := range m.Types {
		if t.Kind == "table" || t.Kind == "alias" {
			shortUse[t.Name]++
		}
	}
	for alias, names := range byAlias {
		if len(names) > 1 {
			sort.Strings(names)
			same := true
			for _, nm := range names {
				k := want[nm].Kind
				same = same && (k == "table" || k == "alias") && short(nm) == short(names[0])
			}
			if same {
				viol("alias-shared-by-same-named-tables-or-aliases", "tables / primitive aliases of the same name in different applications are declared under one alias "+alias, names)
			} else {
				viol("alias-shared", "different classes are declared under one alias "+alias, names)
			}
		}
	}
	// --- fields ---
	for _, c := range classes {
		t, ok := want[c.Name]
		if !ok || (t.Kind != "tuple" && t.Kind != "table") {
			continue
		}
		var wf, gf []string
		for _, f := range t.Fields {
			wf = append(wf, f.Name)
		}
		gf = append(gf, c.Fields...)
		sort.Strings(wf)
		sort.Strings(gf)
		if strings.Join(wf, ",") != strings.Join(gf, ",") {
			viol("fields-differ", fmt.Sprintf("%s lists fields %v, the model has %v", c.Name, gf, wf), nil)
		}
	}
	// --- relationships: one line per referring field to a drawn type ---
	wantEdges := map[[2]string]int{}
	for _, t := range want {
		for _, f := range t.Fields {
			if f.Target == "" {
				continue
			}
			if _, drawn := want[f.Target]; !drawn {
				// per-application diagrams draw lines only to classes they declare... the target of a
				// cross-application reference is not drawn there
				if covered != "" {
					continue
				}
				continue
			}
			wantEdges[[2]string{t.full(), f.Target}]++
		}
	}
	gotEdges := map[[2]string]int{}
	nameOf := func(alias string) string {
		if ns := byAlias[alias]; len(ns) == 1 {
			return ns[0]
		}
		return "?" + alias
	}
	for _, e := range edges {
		gotEdges[[2]string{nameOf(e[0]), nameOf(e[1])}]++
	}
	keys := map[[2]string]bool{}
	for k := range wantEdges {
		keys[k] = true
	}
	for k := range gotEdges {
		keys[k] = true
	}
	for k := range keys {
		w, g := wantEdges[k], gotEdges[k]
		if w == g {
			continue
		}
		src, tgt := want[strings.TrimPrefix(k[0], "?")], want[strings.TrimPrefix(k[1], "?")]
		// pairs the recorded alias defect touches: a tuple referring to a table or a primitive alias
		// (the line goes to the full-name alias, the class sits under the short-name alias), and
		// anything involving a table/alias whose short name is not unique
		touched := strings.HasPrefix(k[0], "?") || strings.HasPrefix(k[1], "?") ||
			(src.Kind == "tuple" && (tgt.Kind == "table" || tgt.Kind == "alias")) ||
			((src.Kind == "table" || src.Kind == "alias") && shortUse[src.Name] > 1) ||
			((tgt.Kind == "table" || tgt.Kind == "alias") && shortUse[tgt.Name] > 1)
		switch {
		case touched:
			viol("line-attached-to-undeclared-or-shared-alias", fmt.Sprintf("relationship %s -> %s: %d field(s), %d line(s) between the two classes; lines to a table or primitive alias are attached to an alias under which no single class is declared", k[0], k[1], w, g), nil)
		case g < w:
			viol("relationship-lines-missing", fmt.Sprintf("%s has %d field(s) referring to %s but the diagram draws %d line(s)", k[0], w, k[1], g), nil)
		default:
			viol("relationship-lines-extra", fmt.Sprintf("the diagram draws %d line(s) %s -> %s, the model has %d such field(s)", g, k[0], k[1], w), nil)
		}
	}
}
