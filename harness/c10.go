package main

// C10 — view / transform evaluation follows the expression semantics and is pure.
// Real code: eval.EvaluateApp on expression trees built directly as sysl.Expr protobufs
// (the text parser is not in the loop).  Model: SyslModel.Eval (oracle op eval.run).

import (
	"encoding/json"
	"fmt"
	"sort"
	"strings"

	"github.com/anz-bank/sysl/pkg/eval"
	"github.com/anz-bank/sysl/pkg/sysl"
	"github.com/sirupsen/logrus"
)

// ---------- values ----------

type xv struct {
	Kind string // n b i s l t m
	B    bool
	I    int64
	S    string
	L    []*xv
	M    []xkv
}
type xkv struct {
	K string
	V *xv
}

func (v *xv) json() any {
	switch v.Kind {
	case "b":
		return map[string]any{"b": v.B}
	case "i":
		return map[string]any{"i": fmt.Sprint(v.I)}
	case "s":
		return map[string]any{"s": v.S}
	case "l", "t":
		xs := []any{}
		for _, e := range v.L {
			xs = append(xs, e.json())
		}
		return map[string]any{v.Kind: xs}
	case "m":
		xs := []any{}
		for _, e := range v.M {
			xs = append(xs, []any{e.K, e.V.json()})
		}
		return map[string]any{"m": xs}
	}
	return map[string]any{"n": nil}
}

func (v *xv) proto() *sysl.Value {
	switch v.Kind {
	case "b":
		return eval.MakeValueBool(v.B)
	case "i":
		return eval.MakeValueI64(v.I)
	case "s":
		return eval.MakeValueString(v.S)
	case "l":
		l := eval.MakeValueList()
		for _, e := range v.L {
			eval.AppendItemToValueList(l.GetList(), e.proto())
		}
		return l
	case "t":
		l := eval.MakeValueSet()
		for _, e := range v.L {
			eval.AppendItemToValueList(l.GetSet(), e.proto())
		}
		return l
	case "m":
		m := eval.MakeValueMap()
		for _, e := range v.M {
			eval.AddItemToValueMap(m, e.K, e.V.proto())
		}
		return m
	}
	return &sysl.Value{Value: &sysl.Value_Null_{Null: &sysl.Value_Null{}}}
}

// canonical JSON of a real value (maps by sorted key)
func valueJSON(v *sysl.Value) any {
	if v == nil {
		return map[string]any{"n": nil}
	}
	switch x := v.Value.(type) {
	case *sysl.Value_B:
		return map[string]any{"b": x.B}
	case *sysl.Value_I:
		return map[string]any{"i": fmt.Sprint(x.I)}
	case *sysl.Value_S:
		return map[string]any{"s": x.S}
	case *sysl.Value_List_:
		xs := []any{}
		for _, e := range x.List.Value {
			xs = append(xs, valueJSON(e))
		}
		return map[string]any{"l": xs}
	case *sysl.Value_Set:
		xs := []any{}
		for _, e := range x.Set.Value {
			xs = append(xs, valueJSON(e))
		}
		return map[string]any{"t": xs}
	case *sysl.Value_Map_:
		keys := make([]string, 0, len(x.Map.Items))
		for k := range x.Map.Items {
			keys = append(keys, k)
		}
		sort.Strings(keys)
		xs := []any{}
		for _, k := range keys {
			xs = append(xs, []any{k, valueJSON(x.Map.Items[k])})
		}
		return map[string]any{"m": xs}
	}
	return map[string]any{"n": nil}
}

// ---------- expressions ----------

type xe struct {
	K     string // lit name attr if bin un call set list tx
	V     *xv
	N     string
	A     string
	Op    string
	Sv    string
	F     string
	Subs  []*xe // operands in order (see json/proto)
	Stmts []xstmt
	Set   bool
}
type xstmt struct {
	Let bool
	N   string
	E   *xe
}

func (e *xe) json() any {
	m := map[string]any{"k": e.K}
	switch e.K {
	case "lit":
		m["v"] = e.V.json()
	case "name":
		m["n"] = e.N
	case "attr":
		m["e"], m["a"] = e.Subs[0].json(), e.A
	case "if":
		m["c"], m["t"], m["f"] = e.Subs[0].json(), e.Subs[1].json(), e.Subs[2].json()
	case "bin":
		m["op"], m["l"], m["r"], m["sv"] = e.Op, e.Subs[0].json(), e.Subs[1].json(), e.Sv
	case "un":
		m["op"], m["e"] = e.Op, e.Subs[0].json()
	case "call":
		args := []any{}
		for _, s := range e.Subs {
			args = append(args, s.json())
		}
		m["f"], m["args"] = e.F, args
	case "set", "list":
		es := []any{}
		for _, s := range e.Subs {
			es = append(es, s.json())
		}
		m["es"] = es
	case "tx":
		st := []any{}
		for _, s := range e.Stmts {
			st = append(st, map[string]any{"let": s.Let, "n": s.N, "e": s.E.json()})
		}
		m["arg"], m["sv"], m["stmts"], m["set"] = e.Subs[0].json(), e.Sv, st, e.Set
	}
	return m
}

var binOps = map[string]sysl.Expr_BinExpr_Op{
	"EQ": sysl.Expr_BinExpr_EQ, "NE": sysl.Expr_BinExpr_NE, "LT": sysl.Expr_BinExpr_LT, "LE": sysl.Expr_BinExpr_LE,
	"GT": sysl.Expr_BinExpr_GT, "GE": sysl.Expr_BinExpr_GE, "ADD": sysl.Expr_BinExpr_ADD, "SUB": sysl.Expr_BinExpr_SUB,
	"MUL": sysl.Expr_BinExpr_MUL, "DIV": sysl.Expr_BinExpr_DIV, "MOD": sysl.Expr_BinExpr_MOD, "AND": sysl.Expr_BinExpr_AND,
	"BITOR": sysl.Expr_BinExpr_BITOR, "IN": sysl.Expr_BinExpr_IN, "NOT_IN": sysl.Expr_BinExpr_NOT_IN,
	"WHERE": sysl.Expr_BinExpr_WHERE, "FLATTEN": sysl.Expr_BinExpr_FLATTEN,
}

func (e *xe) proto() *sysl.Expr {
	switch e.K {
	case "lit":
		return &sysl.Expr{Expr: &sysl.Expr_Literal{Literal: e.V.proto()}}
	case "name":
		return &sysl.Expr{Expr: &sysl.Expr_Name{Name: e.N}}
	case "attr":
		return &sysl.Expr{Expr: &sysl.Expr_GetAttr_{GetAttr: &sysl.Expr_GetAttr{Arg: e.Subs[0].proto(), Attr: e.A}}}
	case "if":
		return &sysl.Expr{Expr: &sysl.Expr_Ifelse{Ifelse: &sysl.Expr_IfElse{Cond: e.Subs[0].proto(), IfTrue: e.Subs[1].proto(), IfFalse: e.Subs[2].proto()}}}
	case "bin":
		return &sysl.Expr{Expr: &sysl.Expr_Binexpr{Binexpr: &sysl.Expr_BinExpr{Op: binOps[e.Op], Lhs: e.Subs[0].proto(), Rhs: e.Subs[1].proto(), Scopevar: e.Sv}}}
	case "un":
		op := sysl.Expr_UnExpr_NEG
		if e.Op == "SINGLE" {
			op = sysl.Expr_UnExpr_SINGLE
		}
		return &sysl.Expr{Expr: &sysl.Expr_Unexpr{Unexpr: &sysl.Expr_UnExpr{Op: op, Arg: e.Subs[0].proto()}}}
	case "call":
		var args []*sysl.Expr
		for _, s := range e.Subs {
			args = append(args, s.proto())
		}
		return &sysl.Expr{Expr: &sysl.Expr_Call_{Call: &sysl.Expr_Call{Func: e.F, Arg: args}}}
	case "set", "list":
		var es []*sysl.Expr
		for _, s := range e.Subs {
			es = append(es, s.proto())
		}
		if e.K == "set" {
			return &sysl.Expr{Expr: &sysl.Expr_Set{Set: &sysl.Expr_List{Expr: es}}}
		}
		return &sysl.Expr{Expr: &sysl.Expr_List_{List: &sysl.Expr_List{Expr: es}}}
	case "tx":
		var st []*sysl.Expr_Transform_Stmt
		for _, s := range e.Stmts {
			a := &sysl.Expr_Transform_Stmt_Assign{Name: s.N, Expr: s.E.proto()}
			if s.Let {
				st = append(st, &sysl.Expr_Transform_Stmt{Stmt: &sysl.Expr_Transform_Stmt_Let{Let: a}})
			} else {
				st = append(st, &sysl.Expr_Transform_Stmt{Stmt: &sysl.Expr_Transform_Stmt_Assign_{Assign: a}})
			}
		}
		ty := &sysl.Type{Type: &sysl.Type_Sequence{Sequence: &sysl.Type{}}}
		if e.Set {
			ty = &sysl.Type{Type: &sysl.Type_Set{Set: &sysl.Type{}}}
		}
		return &sysl.Expr{Type: ty, Expr: &sysl.Expr_Transform_{Transform: &sysl.Expr_Transform{Arg: e.Subs[0].proto(), Scopevar: e.Sv, Stmt: st}}}
	}
	return nil
}

// ---------- typed generator ----------

type xenv struct {
	vars map[string][]string // type -> variable names
	n    int
}

func (en *xenv) fresh(prefix string) string {
	en.n++
	return fmt.Sprintf("%s%d", prefix, en.n)
}
func (en *xenv) add(ty, name string) { en.vars[ty] = append(en.vars[ty], name) }
func (en *xenv) clone() *xenv {
	c := &xenv{vars: map[string][]string{}, n: en.n}
	for k, v := range en.vars {
		c.vars[k] = append([]string{}, v...)
	}
	return c
}

func lit(v *xv) *xe            { return &xe{K: "lit", V: v} }
func vI(i int64) *xv           { return &xv{Kind: "i", I: i} }
func vS(s string) *xv          { return &xv{Kind: "s", S: s} }
func vB(b bool) *xv            { return &xv{Kind: "b", B: b} }
func nameE(n string) *xe       { return &xe{K: "name", N: n} }
func binE(op string, l, r *xe) *xe { return &xe{K: "bin", Op: op, Subs: []*xe{l, r}} }

var intPool = []int64{0, 1, -1, 2, 3, 7, 10, -5, 9223372036854775807, -9223372036854775808, 4611686018427387904}
var strPool = []string{"", "a", "b", "ab", "key", "x y", "é"}

func genX(r *Rand, en *xenv, ty string, d int) *xe {
	if vs := en.vars[ty]; len(vs) > 0 && r.Chance(2, 5) {
		return nameE(Pick(r, vs))
	}
	switch ty {
	case "int":
		if d <= 0 {
			return lit(vI(Pick(r, intPool)))
		}
		switch r.Intn(8) {
		case 0:
			return binE(Pick(r, []string{"ADD", "SUB", "MUL"}), genX(r, en, "int", d-1), genX(r, en, "int", d-1))
		case 1:
			return binE(Pick(r, []string{"DIV", "MOD"}), genX(r, en, "int", d-1), lit(vI(Pick(r, []int64{1, 2, 3, -2, 7, -1}))))
		case 2:
			return &xe{K: "un", Op: "NEG", Subs: []*xe{genX(r, en, "int", d-1)}}
		case 3:
			return &xe{K: "call", F: ".count", Subs: []*xe{genX(r, en, Pick(r, []string{"listInt", "setInt", "listStr"}), d-1)}}
		case 4:
			return &xe{K: "if", Subs: []*xe{genX(r, en, "bool", d-1), genX(r, en, "int", d-1), genX(r, en, "int", d-1)}}
		case 5:
			if r.Bool() {
				// a view whose first parameter is named like a variable of the caller, which a later argument mentions
				return &xe{K: "call", F: "mix", Subs: []*xe{genX(r, en, "int", d-1), nameE("in1")}}
			}
			return &xe{K: "call", F: "inc", Subs: []*xe{genX(r, en, "int", d-1)}}
		default:
			return lit(vI(Pick(r, intPool)))
		}
	case "str":
		if d <= 0 {
			return lit(vS(Pick(r, strPool)))
		}
		switch r.Intn(5) {
		case 0:
			return binE("ADD", genX(r, en, "str", d-1), genX(r, en, "str", d-1))
		case 1:
			return &xe{K: "if", Subs: []*xe{genX(r, en, "bool", d-1), genX(r, en, "str", d-1), genX(r, en, "str", d-1)}}
		case 2:
			if r.Bool() {
				return &xe{K: "call", F: "glue", Subs: []*xe{genX(r, en, "str", d-1), nameE("ins")}}
			}
			return &xe{K: "call", F: "cat", Subs: []*xe{genX(r, en, "str", d-1), genX(r, en, "str", d-1)}}
		default:
			return lit(vS(Pick(r, strPool)))
		}
	case "bool":
		if d <= 0 {
			return lit(vB(r.Bool()))
		}
		switch r.Intn(7) {
		case 0:
			return binE(Pick(r, []string{"EQ", "NE", "LT", "LE", "GT", "GE"}), genX(r, en, "int", d-1), genX(r, en, "int", d-1))
		case 1:
			return binE(Pick(r, []string{"EQ", "NE"}), genX(r, en, "str", d-1), genX(r, en, "str", d-1))
		case 2:
			return binE("AND", genX(r, en, "bool", d-1), genX(r, en, "bool", d-1))
		case 3:
			return &xe{K: "un", Op: "NEG", Subs: []*xe{genX(r, en, "bool", d-1)}}
		case 4:
			return binE(Pick(r, []string{"IN", "NOT_IN"}), genX(r, en, "str", d-1), genX(r, en, Pick(r, []string{"listStr", "setStr"}), d-1))
		case 5:
			return binE(Pick(r, []string{"EQ", "NE"}), genX(r, en, "bool", d-1), genX(r, en, "bool", d-1))
		default:
			return lit(vB(r.Bool()))
		}
	case "listInt", "listStr", "setInt", "setStr":
		elem := "int"
		if strings.HasSuffix(ty, "Str") {
			elem = "str"
		}
		isSet := strings.HasPrefix(ty, "set")
		mk := func() *xe {
			n := r.Intn(4)
			k := "list"
			if isSet {
				k = "set"
			}
			e := &xe{K: k}
			for i := 0; i < n; i++ {
				e.Subs = append(e.Subs, genX(r, en, elem, 0))
			}
			return e
		}
		if d <= 0 {
			return mk()
		}
		switch r.Intn(6) {
		case 0:
			if isSet {
				return binE("BITOR", genX(r, en, ty, d-1), genX(r, en, ty, d-1)) // union
			}
			rt := ty
			if r.Chance(1, 3) {
				rt = "set" + ty[4:]
			}
			return binE("BITOR", genX(r, en, ty, d-1), genX(r, en, rt, d-1)) // concatenation
		case 1:
			if ty == "listInt" {
				return mk() // WHERE has no entry for a list of ints in exprFunctions: outside the supported operators
			}
			sv := en.fresh("w")
			in := en.clone()
			in.add(elem, sv)
			var pred *xe
			if elem == "int" {
				pred = binE(Pick(r, []string{"GT", "LT", "EQ", "NE"}), nameE(sv), genX(r, in, "int", 0))
			} else {
				pred = binE(Pick(r, []string{"EQ", "NE"}), nameE(sv), genX(r, in, "str", 0))
			}
			e := binE("WHERE", genX(r, en, ty, d-1), pred)
			e.Sv = sv
			en.n = in.n
			return e
		case 2:
			if isSet {
				return mk()
			}
			// flatten a list of lists
			sv := en.fresh("f")
			in := en.clone()
			in.add(elem, sv)
			outer := &xe{K: "list"}
			for i := 0; i < 1+r.Intn(3); i++ {
				outer.Subs = append(outer.Subs, genX(r, en, ty, 0))
			}
			body := genX(r, in, elem, 1)
			e := binE("FLATTEN", outer, body)
			e.Sv = sv
			en.n = in.n
			return e
		default:
			return mk()
		}
	case "listMap", "setMap":
		// transform over a collection producing maps
		src := Pick(r, []string{"listInt", "setInt", "listStr"})
		elem := "int"
		if strings.HasSuffix(src, "Str") {
			elem = "str"
		}
		sv := en.fresh("t")
		in := en.clone()
		in.add(elem, sv)
		e := &xe{K: "tx", Sv: sv, Set: ty == "setMap", Subs: []*xe{genX(r, en, src, d-1)}}
		if r.Chance(1, 3) {
			ln := in.fresh("l")
			lt := Pick(r, []string{"int", "str"})
			e.Stmts = append(e.Stmts, xstmt{Let: true, N: ln, E: genX(r, in, lt, 1)})
			in.add(lt, ln)
		}
		nf := 1 + r.Intn(2)
		for i := 0; i < nf; i++ {
			e.Stmts = append(e.Stmts, xstmt{N: fmt.Sprintf("fld%d", i), E: genX(r, in, Pick(r, []string{"int", "str", "bool"}), 1)})
		}
		en.n = in.n
		return e
	}
	return lit(vI(0))
}

type c10Prog struct {
	Stmts []xstmt         `json:"-"`
	Types []string        `json:"-"`
	JSON  json.RawMessage `json:"program"` // the top-level transform, as sent to the oracle
	Scope json.RawMessage `json:"scope"`
}

var c10Types = []string{"int", "str", "bool", "listInt", "listStr", "setInt", "setStr", "listMap", "setMap"}

func c10InitialScope() map[string]*xv {
	return map[string]*xv{
		"in1": vI(41), "ins": vS("arg"),
		"inl": {Kind: "l", L: []*xv{vI(1), vI(2), vI(3)}},
		"inm": {Kind: "m", M: []xkv{{"alpha", vI(1)}, {"beta", vI(2)}, {"gamma", vI(3)}}},
	}
}

func genProgram(r *Rand) []xstmt {
	en := &xenv{vars: map[string][]string{"int": {"in1"}, "str": {"ins"}, "listInt": {"inl"}}}
	var stmts []xstmt
	n := 3 + r.Intn(6)
	for i := 0; i < n; i++ {
		switch r.Intn(6) {
		case 0: // the reuse pattern: one bound collection used as the left operand twice
			ty := Pick(r, []string{"listInt", "listStr"})
			a := en.fresh("a")
			stmts = append(stmts, xstmt{Let: true, N: a, E: genX(r, en, ty, 1)})
			en.add(ty, a)
			for k := 0; k < 2; k++ {
				x := en.fresh("x")
				stmts = append(stmts, xstmt{Let: true, N: x, E: binE("BITOR", nameE(a), genX(r, en, ty, 0))})
				en.add(ty, x)
			}
		case 1: // transform over the map argument with a named entry variable
			sv := en.fresh("kv")
			e := &xe{K: "tx", Sv: sv, Subs: []*xe{nameE("inm")}, Set: r.Chance(1, 3)}
			e.Stmts = []xstmt{{N: "k", E: &xe{K: "attr", A: "key", Subs: []*xe{nameE(sv)}}}, {N: "whole", E: nameE(sv)}}
			v := en.fresh("m")
			stmts = append(stmts, xstmt{Let: true, N: v, E: e})
		default:
			ty := Pick(r, c10Types)
			v := en.fresh("v")
			stmts = append(stmts, xstmt{Let: true, N: v, E: genX(r, en, ty, 2+r.Intn(2))})
			en.add(ty, v)
		}
	}
	// results: every bound variable is also assigned into the result map
	var out []xstmt
	out = append(out, stmts...)
	for _, s := range stmts {
		out = append(out, xstmt{N: "out_" + s.N, E: nameE(s.N)})
	}
	return out
}

func progExpr(stmts []xstmt) *xe {
	return &xe{K: "tx", Sv: ".", Subs: []*xe{lit(vI(0))}, Stmts: stmts}
}

func c10Views() (map[string]*sysl.View, []any) {
	inc := &xe{K: "bin", Op: "ADD", Subs: []*xe{nameE("n"), lit(vI(1))}}
	cat := &xe{K: "bin", Op: "ADD", Subs: []*xe{nameE("p"), nameE("q")}}
	// parameters named like variables of the calling transform (`in1`, `ins`): arguments are evaluated in the
	// caller's scope, all of them before any parameter is bound
	mix := &xe{K: "bin", Op: "SUB", Subs: []*xe{nameE("in1"), nameE("k")}}
	glue := &xe{K: "bin", Op: "ADD", Subs: []*xe{nameE("ins"), nameE("t")}}
	views := map[string]*sysl.View{
		"inc":  {Param: []*sysl.Param{{Name: "n"}}, Expr: inc.proto(), RetType: &sysl.Type{}},
		"cat":  {Param: []*sysl.Param{{Name: "p"}, {Name: "q"}}, Expr: cat.proto(), RetType: &sysl.Type{}},
		"mix":  {Param: []*sysl.Param{{Name: "in1"}, {Name: "k"}}, Expr: mix.proto(), RetType: &sysl.Type{}},
		"glue": {Param: []*sysl.Param{{Name: "ins"}, {Name: "t"}}, Expr: glue.proto(), RetType: &sysl.Type{}},
	}
	js := []any{
		map[string]any{"name": "inc", "params": []string{"n"}, "body": inc.json()},
		map[string]any{"name": "cat", "params": []string{"p", "q"}, "body": cat.json()},
		map[string]any{"name": "mix", "params": []string{"in1", "k"}, "body": mix.json()},
		map[string]any{"name": "glue", "params": []string{"ins", "t"}, "body": glue.json()},
	}
	return views, js
}

func runReal(stmts []xstmt) (result any, scope map[string]any, panicv string) {
	defer func() {
		if x := recover(); x != nil {
			panicv = fmt.Sprint(x)
		}
	}()
	views, _ := c10Views()
	app := &sysl.Application{Views: views}
	sc := eval.Scope{}
	for k, v := range c10InitialScope() {
		sc[k] = v.proto()
	}
	e := progExpr(stmts)
	view := &sysl.View{Expr: e.proto(), RetType: &sysl.Type{}}
	v := eval.EvaluateApp(app, view, sc)
	result = valueJSON(v)
	scope = map[string]any{}
	for k, v := range sc {
		scope[k] = valueJSON(v)
	}
	return
}

func xvFromJSON(m map[string]any) *xv {
	if v, ok := m["b"]; ok {
		b, _ := v.(bool)
		return vB(b)
	}
	if v, ok := m["i"]; ok {
		var i int64
		fmt.Sscan(fmt.Sprint(v), &i)
		return vI(i)
	}
	if v, ok := m["s"]; ok {
		return vS(fmt.Sprint(v))
	}
	for _, k := range []string{"l", "t"} {
		if v, ok := m[k]; ok {
			out := &xv{Kind: k}
			l, _ := v.([]any)
			for _, e := range l {
				em, _ := e.(map[string]any)
				out.L = append(out.L, xvFromJSON(em))
			}
			return out
		}
	}
	if v, ok := m["m"]; ok {
		out := &xv{Kind: "m"}
		l, _ := v.([]any)
		for _, e := range l {
			p, _ := e.([]any)
			if len(p) == 2 {
				pm, _ := p[1].(map[string]any)
				out.M = append(out.M, xkv{fmt.Sprint(p[0]), xvFromJSON(pm)})
			}
		}
		return out
	}
	return &xv{Kind: "n"}
}

func xeFromJSON(m map[string]any) *xe {
	sub := func(k string) *xe {
		mm, _ := m[k].(map[string]any)
		return xeFromJSON(mm)
	}
	str := func(k string) string {
		s, _ := m[k].(string)
		return s
	}
	list := func(k string) []*xe {
		var out []*xe
		l, _ := m[k].([]any)
		for _, e := range l {
			em, _ := e.(map[string]any)
			out = append(out, xeFromJSON(em))
		}
		return out
	}
	e := &xe{K: str("k")}
	switch e.K {
	case "lit":
		vm, _ := m["v"].(map[string]any)
		e.V = xvFromJSON(vm)
	case "name":
		e.N = str("n")
	case "attr":
		e.A, e.Subs = str("a"), []*xe{sub("e")}
	case "if":
		e.Subs = []*xe{sub("c"), sub("t"), sub("f")}
	case "bin":
		e.Op, e.Sv, e.Subs = str("op"), str("sv"), []*xe{sub("l"), sub("r")}
	case "un":
		e.Op, e.Subs = str("op"), []*xe{sub("e")}
	case "call":
		e.F, e.Subs = str("f"), list("args")
	case "set", "list":
		e.Subs = list("es")
	case "tx":
		e.Sv, e.Subs = str("sv"), []*xe{sub("arg")}
		e.Set, _ = m["set"].(bool)
		l, _ := m["stmts"].([]any)
		for _, s := range l {
			sm, _ := s.(map[string]any)
			isLet, _ := sm["let"].(bool)
			em, _ := sm["e"].(map[string]any)
			n, _ := sm["n"].(string)
			e.Stmts = append(e.Stmts, xstmt{Let: isLet, N: n, E: xeFromJSON(em)})
		}
	}
	return e
}

func jstr(v any) string {
	b, _ := json.Marshal(v)
	return string(b)
}

func init() { runners["C10"] = runC10 }

func runC10(res *Result, tier string, rnd *Rand, replay string) {
	res.Rule = "well-typed programs: a top-level transform with 3..8 let-bound values (int, string, bool, lists and sets of ints/strings, lists/sets of maps from nested transforms over lists, sets and the map argument) each reused by later expressions — in particular one bound list as the left operand of two concatenations — over arithmetic (edge int64 values), comparison, string concatenation, boolean logic, conditionals, union, concatenation, membership, count, where, flatten, attribute access and calls to other views; non-trivial = a bound collection is used by >= 2 later expressions; distinct by program JSON"
	logrus.SetLevel(logrus.PanicLevel)
	n := 1500
	if tier == "thorough" {
		n = 60000
	}
	var progs [][]xstmt
	if replay != "" {
		var rp struct {
			Input struct {
				Program map[string]any `json:"program"`
			} `json:"input"`
		}
		readJSON(replay, &rp)
		progs = [][]xstmt{xeFromJSON(rp.Input.Program).Stmts}
	} else {
		for i := 0; i < n; i++ {
			progs = append(progs, genProgram(rnd))
		}
	}
	_, viewsJS := c10Views()
	var scopeJS []any
	init0 := c10InitialScope()
	for _, k := range sortedKeys(init0) {
		scopeJS = append(scopeJS, []any{k, init0[k].json()})
	}
	var reqs []any
	type obs struct {
		stmts  []xstmt
		result any
		scope  map[string]any
	}
	var all []obs
	for _, st := range progs {
		in := map[string]any{"program": progExpr(st).json()}
		done := Track(in)
		result, scope, pan := runReal(st)
		done()
		if pan != "" {
			res.Violate(Violation{Sig: "panic:" + firstLine(pan), What: "evaluation panicked: " + firstLine(pan), Input: in})
			continue
		}
		// direct oracle A: argument values unchanged
		for k, v := range init0 {
			if jstr(scope[k]) != jstr(v.json()) {
				res.Violate(Violation{Sig: "argument-modified", What: "evaluation changed the value of argument " + k, Input: in, Got: scope[k], Want: v.json()})
			}
		}
		// direct oracle B: a bound value is the same after the whole program as right after its binding
		nlets := 0
		for _, s := range st {
			if s.Let {
				nlets++
			}
		}
		uses := map[string]int{}
		var count func(e *xe)
		count = func(e *xe) {
			if e.K == "name" {
				uses[e.N]++
			}
			for _, s := range e.Subs {
				count(s)
			}
			for _, s := range e.Stmts {
				count(s.E)
			}
		}
		for _, s := range st[:nlets] {
			count(s.E)
		}
		reused := false
		for _, s := range st[:nlets] {
			if uses[s.N] >= 2 {
				reused = true
			}
		}
		for k := 0; k < nlets; k++ {
			_, sc2, pan2 := runReal(st[:k+1])
			if pan2 != "" {
				continue
			}
			name := st[k].N
			if jstr(sc2[name]) != jstr(scope[name]) {
				res.Violate(Violation{Sig: "bound-value-changed", What: "the value bound to " + name + " is different at the end of the evaluation from what it was when bound", Input: in,
					Got: scope[name], Want: sc2[name]})
				break
			}
		}
		// direct oracle C: equal inputs, equal results
		r2, _, _ := runReal(st)
		if jstr(r2) != jstr(result) {
			res.Violate(Violation{Sig: "not-deterministic", What: "two evaluations of the same program differ", Input: in})
		}
		all = append(all, obs{st, result, scope})
		reqs = append(reqs, map[string]any{"op": "eval.run", "views": viewsJS, "scope": scopeJS, "expr": progExpr(st).json()})
		res.Eval(jstr(in), reused)
	}
	reps, err := RunOracleChunks(reqs, 8)
	if err != nil {
		res.Disagree(Disagreement{What: "oracle failed: " + err.Error()})
		return
	}
	for i, o := range all {
		res.Traces++
		rep := reps[i]
		in := map[string]any{"program": progExpr(o.stmts).json()}
		if e := mstr(rep, "err"); e != "" {
			res.Disagree(Disagreement{Input: in, What: "model refuses a program the implementation evaluates: " + e, Impl: o.result})
			res.Count("model-error:" + strings.SplitN(e, ":", 2)[0])
			continue
		}
		if jstr(rep["ok"]) != jstr(o.result) {
			// the model IS the expression semantics: a disagreement is a wrong result
			res.Violate(Violation{Sig: "wrong-value:" + c10FirstDiff(rep["ok"], o.result), What: "the value returned differs from the expression semantics (reference interpreter)", Input: in, Got: o.result, Want: rep["ok"]})
		}
		// the scope after the evaluation: same names bound to the same values (scope variables of
		// where / flatten / transforms must be gone, lets stay — as the code threads its map)
		ms := map[string]string{}
		if l, ok := rep["scope"].([]any); ok {
			for _, e := range l {
				if p, ok := e.([]any); ok && len(p) == 2 {
					ms[fmt.Sprint(p[0])] = jstr(p[1])
				}
			}
		}
		for k, v := range o.scope {
			if k == "." {
				continue
			}
			if mv, ok := ms[k]; !ok {
				res.Disagree(Disagreement{Input: in, What: "variable " + k + " is still bound after the evaluation (the model unbinds it)", Impl: v})
				break
			} else if mv != jstr(v) {
				res.Disagree(Disagreement{Input: in, What: "variable " + k + " ends with a different value", Model: mv, Impl: v})
				break
			}
		}
		for k := range ms {
			if _, ok := o.scope[k]; !ok {
				res.Disagree(Disagreement{Input: in, What: "variable " + k + " is unbound after the evaluation (the model keeps it)"})
				break
			}
		}
		if i%(len(all)/4+1) == 0 {
			res.Sample(map[string]any{"program": progExpr(o.stmts).json(), "result": o.result})
		}
	}
}

// c10FirstDiff names the first result field on which model and implementation differ
func c10FirstDiff(a, b any) string {
	am, _ := a.(map[string]any)
	bm, _ := b.(map[string]any)
	al, _ := am["m"].([]any)
	bl, _ := bm["m"].([]any)
	for i := 0; i < len(al) && i < len(bl); i++ {
		if jstr(al[i]) != jstr(bl[i]) {
			if p, ok := al[i].([]any); ok && len(p) == 2 {
				return "field"
			}
		}
	}
	return "shape"
}
