package main

// C07 — compilation is deterministic and safe to run concurrently in one process.
// Real code: parse.Parser.ParseFromFs from k goroutines (k..64) with randomised start offsets and
// GOMAXPROCS 1..16, compared byte for byte (textpb and JSON) with the sequential result of the
// same sources; the same scenario is run again in a binary built with the race detector.
// Model: SyslModel.Keyed (per-key state in a shared map: interleavings project to the
// sequential runs) + Expect.C07 over the regenerated census of package-level state.

import (
	"bytes"
	"fmt"
	"os"
	"os/exec"
	"path/filepath"
	"regexp"
	"runtime"
	"sort"
	"strings"
	"sync"
	"sync/atomic"
	"syscall"
	"time"

	"github.com/anz-bank/sysl/pkg/parse"
	"github.com/anz-bank/sysl/pkg/pbutil"
	"github.com/anz-bank/sysl/pkg/sysl"
	"github.com/spf13/afero"
)

type c07Spec struct {
	Name  string
	Dir   string // corpus directory ("" = generated)
	Root  string
	Files map[string]string
	Must  []string // lines the compiled model must contain, whatever was compiled before it in this process
}

type c07Out struct {
	Text, JSON, Err string
	Panic           string
	ErrMsg          string // not compared
}

func (a c07Out) same(b c07Out) bool {
	return a.Text == b.Text && a.JSON == b.JSON && a.Err == b.Err && a.Panic == b.Panic
}

func (s *c07Spec) compile() (o c07Out) {
	defer func() {
		if x := recover(); x != nil {
			o.Panic = fmt.Sprint(x)
		}
	}()
	layer := afero.NewMemMapFs()
	var fs afero.Fs = layer
	if s.Dir != "" {
		fs = afero.NewCopyOnWriteFs(afero.NewBasePathFs(afero.NewReadOnlyFs(afero.NewOsFs()), s.Dir), layer)
	}
	for n, c := range s.Files {
		_ = afero.WriteFile(layer, n, []byte(c), 0o644)
	}
	m, err := parse.NewParser().ParseFromFs(s.Root, fs)
	if err != nil {
		o.ErrMsg = err.Error()
		o.Err = "error" // messages carry no addresses, but only the outcome class is compared
		return
	}
	var tb, jb bytes.Buffer
	if err := pbutil.FTextPB(&tb, m); err != nil {
		o.Err = "textpb:" + err.Error()
	}
	if err := pbutil.FJSONPB(&jb, m); err != nil {
		o.Err += "json:" + err.Error()
	}
	o.Text, o.JSON = tb.String(), jb.String()
	return
}

// module compiles the specification and returns the module (nil when it does not compile)
func (s *c07Spec) module() *sysl.Module {
	layer := afero.NewMemMapFs()
	var fs afero.Fs = layer
	if s.Dir != "" {
		fs = afero.NewCopyOnWriteFs(afero.NewBasePathFs(afero.NewReadOnlyFs(afero.NewOsFs()), s.Dir), layer)
	}
	for n, c := range s.Files {
		_ = afero.WriteFile(layer, n, []byte(c), 0o644)
	}
	m, err := parse.NewParser().ParseFromFs(s.Root, fs)
	if err != nil {
		return nil
	}
	return m
}

// mixin chains: the result of `-| X` depends on whether X has already received its own mixins,
// so post-processing must visit applications in a fixed order.
func genMixinModel(r *Rand) string {
	names := []string{"Zed", "Yak", "Xis", "Wok", "Vim", "Uno", "Tau", "Sol", "Rho", "Qat"}
	n := 3 + r.Intn(6)
	Shuffle(r, names)
	names = names[:n]
	var b strings.Builder
	for i, nm := range names {
		fmt.Fprintf(&b, "%s:\n", nm)
		// mixins point to any other application (chains and diamonds; no self reference)
		seen := map[string]bool{}
		for j := 0; j < 1+r.Intn(2); j++ {
			o := names[r.Intn(n)]
			if o == nm || seen[o] {
				continue
			}
			seen[o] = true
			if i == 0 && j > 0 {
				continue
			}
			fmt.Fprintf(&b, "    -|> %s\n", o)
		}
		fmt.Fprintf(&b, "    !type T%s:\n        f%d <: int\n        g <: string?\n", nm, i)
		fmt.Fprintf(&b, "    Ep%s:\n        return ok <: T%s\n", nm, nm)
		if r.Chance(1, 2) {
			fmt.Fprintf(&b, "    /r%d/{id <: int}:\n        GET ?q=string:\n            return ok <: T%s\n", i, nm)
		}
	}
	return b.String()
}

func genViewsModel(r *Rand) string {
	var b strings.Builder
	b.WriteString("App:\n")
	n := 2 + r.Intn(4)
	for i := 0; i < n; i++ {
		fmt.Fprintf(&b, "    !view v%d(number <: int) -> int:\n        argName -> <int> (:\n            let x%d = .breeds -> <set of>(:\n                a%d = -> <Foo.T%d>(:\n                    n = .name\n                )\n            )\n        )\n", i, i, i, i)
	}
	return b.String()
}

func c07Specs(rnd *Rand, tier string) []*c07Spec {
	var specs []*c07Spec
	files := corpusSysl()
	// corpus: the test models of the repository (each compiled from its own directory)
	nCorpus := 40
	if tier == "thorough" {
		nCorpus = 120
	}
	var pick []string
	for _, f := range files {
		if strings.Contains(f, "/tests/") && !strings.Contains(f, "node_modules") {
			pick = append(pick, f)
		}
	}
	Shuffle(rnd, pick)
	for _, f := range pick {
		if len(specs) >= nCorpus {
			break
		}
		if st, err := os.Stat(f); err != nil || st.Size() > 200_000 {
			continue
		}
		specs = append(specs, &c07Spec{Name: strings.TrimPrefix(f, repoRoot+"/"), Dir: filepath.Dir(f), Root: filepath.Base(f)})
	}
	nGen := 30
	if tier == "thorough" {
		nGen = 90
	}
	for i := 0; i < nGen; i++ {
		var txt string
		switch i % 3 {
		case 0:
			txt = genMixinModel(rnd)
		case 1:
			txt = genCallModel(rnd, 3+rnd.Intn(5)).text()
		default:
			txt = genRModel(rnd).Text
		}
		specs = append(specs, &c07Spec{Name: fmt.Sprintf("gen%d", i), Root: "main.sysl", Files: map[string]string{"main.sysl": txt}})
	}
	specs = append(specs, &c07Spec{Name: "rich", Root: "main.sysl", Files: map[string]string{"main.sysl": c19Rich}})
	// several views of one application, each with nested untyped transforms (anonymous types)
	for i := 0; i < 3; i++ {
		specs = append(specs, &c07Spec{Name: fmt.Sprintf("views%d", i), Root: "main.sysl", Files: map[string]string{"main.sysl": genViewsModel(rnd)}})
	}
	// foreign specifications imported into the compilation (the importers run inside the compiler)
	specs = append(specs,
		&c07Spec{Name: "swagger-import", Root: "main.sysl", Files: map[string]string{
			"main.sysl":    "import greeter.yaml as Greeter ~swagger\n\nClient:\n    Hello:\n        Greeter <- GET /greeting\n",
			"greeter.yaml": c07Greeter}},
		&c07Spec{Name: "openapi3-import", Root: "main.sysl", Files: map[string]string{
			"main.sysl": "import pets.yaml as Pets ~openapi3\n\nClient:\n    Hello:\n        Pets <- GET /owners\n",
			"pets.yaml": c07Pets}})
	// a model imported in serialised form next to source text (statements the grammar cannot write)
	specs = append(specs, &c07Spec{Name: "textpb-import", Root: "main.sysl", Files: map[string]string{
		"main.sysl":  "import dep.textpb\n\nApp:\n    Ep:\n        Missing <- Nope\n    Ep2:\n        Gone <- Nope\n",
		"dep.textpb": `apps { key: "Dep" value { name { part: "Dep" } endpoints { key: "E" value { name: "E" stmt {} } } endpoints { key: "F" value { name: "F" stmt { call { target { part: "Missing" } endpoint: "Nope" } } } } } }` + "\n" + `apps { key: "Zed" value { name { part: "Zed" } endpoints { key: "E" value { name: "E" stmt {} } } } }` + "\n"}})
	// the same import line in files of two directories means two different files
	twin := map[string]string{
		"main.sysl":    "import x/part\nimport y/part\n\nRoot:\n    Ep:\n        ...\n",
		"x/part.sysl":  "import types\n\nXPart:\n    !type P:\n        t <: XTypes.XT\n",
		"x/types.sysl": "XTypes:\n    !type XT:\n        a <: int\n",
		"y/part.sysl":  "import types\n\nYPart:\n    !type P:\n        t <: YTypes.YT\n",
		"y/types.sysl": "YTypes:\n    !type YT:\n        b <: string\n",
	}
	specs = append(specs,
		&c07Spec{Name: "twin-directories-x", Root: "x/part.sysl", Files: twin, Must: []string{`key: "XTypes"`, `key: "XT"`}},
		&c07Spec{Name: "twin-directories-y", Root: "y/part.sysl", Files: twin, Must: []string{`key: "YTypes"`, `key: "YT"`}},
		&c07Spec{Name: "twin-directories-both", Root: "main.sysl", Files: twin, Must: []string{`key: "XT"`, `key: "YT"`, `key: "XPart"`, `key: "YPart"`}})
	// import graphs that reach a file more than once (a diamond, a duplicate import line, a cycle back to the root,
	// one file under two names): the "already retrieved" branch of the fetch runs beside the first fetch
	leaf := func(n string) string { return n + ":\n    Ep:\n        ...\n" }
	specs = append(specs, &c07Spec{Name: "import-diamond", Root: "main.sysl", Files: map[string]string{
		"main.sysl":   "import a\nimport b\nimport c\nimport shared\nimport shared\n" + leaf("Main"),
		"a.sysl":      "import shared\nimport deep\n" + leaf("A"),
		"b.sysl":      "import shared\nimport deep\nimport main\n" + leaf("B"),
		"c.sysl":      "import ./shared\nimport a\nimport b\n" + leaf("C"),
		"shared.sysl": "import deep\n" + leaf("Shared"),
		"deep.sysl":   "import shared\n" + leaf("Deep"),
	}, Must: []string{`key: "Shared"`, `key: "Deep"`, `key: "A"`, `key: "B"`, `key: "C"`}})
	// a wide and deep closure: twenty files imported by the root, each with an import of its own and a shared leaf
	{
		files := map[string]string{"shared.sysl": leaf("SharedLeaf")}
		var root strings.Builder
		for i := 0; i < 20; i++ {
			fmt.Fprintf(&root, "import m%d\n", i)
			files[fmt.Sprintf("m%d.sysl", i)] = fmt.Sprintf("import l%d\nimport shared\n", i) + leaf(fmt.Sprintf("M%d", i))
			files[fmt.Sprintf("l%d.sysl", i)] = fmt.Sprintf("import k%d\n", i) + leaf(fmt.Sprintf("L%d", i))
			files[fmt.Sprintf("k%d.sysl", i)] = leaf(fmt.Sprintf("K%d", i))
		}
		files["main.sysl"] = root.String() + leaf("WideRoot")
		specs = append(specs, &c07Spec{Name: "import-wide-and-deep", Root: "main.sysl", Files: files, Must: []string{`key: "K19"`, `key: "L0"`, `key: "SharedLeaf"`}})
	}
	// compilations that fail half-way (open bracket, open string, bad indentation) followed by a specification
	// using native type names and free text: what a failed compilation leaves behind must not reach the next one
	for i, bad := range []string{
		"App [~wip, owner=\"x\":\n    Ep:\n        ...\n",
		"App [~wip, labels=[\"a\", [\"b\":\n    Ep:\n        ...\n",
		"App:\n    !type T [~x:\n        a <: int\n",
		"App:\n    Ep (a <: int [~p:\n        ...\n",
		"App:\n    Ep:\n        Other <- Call [~tls\n",
		"App:\n    Ep:\n        return ok <: \"text\n",
		"App:\n    /path/{id <: int:\n        GET:\n            ...\n",
		"App:\n    !view V(a <: int) -> int:\n        a -> (:\n            out = a +\n",
	} {
		specs = append(specs,
			&c07Spec{Name: fmt.Sprintf("fails-halfway-%d", i), Root: "main.sysl", Files: map[string]string{"main.sysl": bad}},
			&c07Spec{Name: fmt.Sprintf("natives-after-failure-%d", i), Root: "main.sysl",
				Files: map[string]string{"main.sysl": "Acct:\n    !type T:\n        a <: int\n        b <: string\n        c <: decimal\n        d <: datetime\n    Ep:\n        look up the balance\n        return ok <: T\n"},
				Must:  []string{"primitive: INT", "primitive: STRING", "primitive: DECIMAL", "primitive: DATETIME", `action: "look up the balance"`}})
	}
	return specs
}

func (s *c07Spec) input() map[string]any {
	in := map[string]any{"spec": s.Name}
	if s.Dir != "" {
		in["corpus_file"] = filepath.Join(s.Dir, s.Root)
	} else {
		in["text"] = s.Files[s.Root]
	}
	return in
}

func init() { runners["C07"] = runC07 }

func runC07(res *Result, tier string, rnd *Rand, replay string) {
	res.Rule = "sets of k specifications (repository test models and generated ones: mixin chains, call graphs, data models) compiled by k = 2..64 goroutines with randomised start offsets under GOMAXPROCS 1..16, all-same / all-different / mixed; each result compared byte for byte (textpb, JSON) with the sequential result; sequential repetition of every specification; the same scenarios under the race detector; non-trivial = a specification that compiles to a model; distinct by (specification, k, GOMAXPROCS, mode)"
	if secs := os.Getenv("VERIF_C07_CHURN"); secs != "" {
		c07ChurnChild(secs)
		return
	}
	inner := os.Getenv("VERIF_C07_INNER") != ""
	specs := c07Specs(rnd, tier)
	// ---- the same scenarios under the race detector (separate binary), beside this run ----
	var bg sync.WaitGroup
	if !inner {
		bg.Add(1)
		go func() { defer bg.Done(); c07Race(res, tier) }()
	}
	// ---- under the race detector: concurrent compilations on a cold process first (caches that
	// are filled lazily race only while they are still being filled) ----
	if inner {
		var cw sync.WaitGroup
		for g := 0; g < 24 && g < len(specs); g++ {
			cw.Add(1)
			go func(g int) {
				defer cw.Done()
				_ = specs[(g*7)%len(specs)].compile()
			}(g)
		}
		cw.Wait()
		res.Count("race-run:cold-concurrent-start")
	}
	// ---- sequential baseline and sequential determinism ----
	base := make([]c07Out, len(specs))
	unstable := make([]bool, len(specs)) // already reported as differing sequentially
	dur := make([]time.Duration, len(specs)) // how long one compilation takes in this binary (the race build is slower)
	seqReps := 6
	if tier == "thorough" {
		seqReps = 8
	}
	if inner {
		seqReps = 2
	}
	for i, s := range specs {
		func() {
			defer Track(s.input())()
			t0 := time.Now()
			base[i] = s.compile()
			dur[i] = time.Since(t0)
			for j := 1; j < seqReps; j++ {
				o := s.compile()
				if !o.same(base[i]) {
					what, got := "textpb", firstDiffLine(base[i].Text, o.Text)
					if o.Text == base[i].Text {
						what, got = "JSON", firstDiffLine(base[i].JSON, o.JSON)
					}
					if o.Err != base[i].Err || o.Panic != base[i].Panic {
						what, got = "outcome", fmt.Sprintf("%q/%q vs %q/%q", base[i].Err, base[i].Panic, o.Err, o.Panic)
					}
					unstable[i] = true
					res.Violate(Violation{Sig: "sequential-recompile-differs:" + what, What: "compiling the same sources twice, one after the other, gives a different " + what, Input: s.input(), Got: got})
					break
				}
			}
		}()
		res.Eval("seq\x00"+s.Name, base[i].Text != "")
		res.Traces++
		switch {
		case base[i].Panic != "":
			res.Count("baseline:panic")
		case base[i].Err != "":
			res.Count("baseline:error")
			if s.Dir == "" && s.Name != "textpb-import" {
				res.Count("baseline:error:generated")
				res.Note("generated specification %s does not compile: %s", s.Name, firstLine(base[i].ErrMsg))
			}
		default:
			res.Count("baseline:model")
		}
		if base[i].Text != "" || len(s.Must) > 0 {
			flat := strings.Join(strings.Fields(base[i].Text), " ")
			for _, must := range s.Must {
				if !strings.Contains(flat, strings.Join(strings.Fields(must), " ")) {
					res.Violate(Violation{Sig: "compiled-after-others-lacks-declared", What: "compiled after other specifications in the same process, the model lacks `" + must + "`, which its sources declare (or it did not compile)", Input: s.input(), Got: firstLine(base[i].ErrMsg)})
					break
				}
			}
		}
	}
	// ---- concurrent rounds ----
	rounds := 30
	if tier == "thorough" {
		rounds = 100
	}
	if inner {
		rounds = 8
		if tier == "thorough" {
			rounds = 24
		}
	}
	ks := []int{2, 3, 4, 8, 16, 32, 64}
	oldProcs := runtime.GOMAXPROCS(0)
	defer runtime.GOMAXPROCS(oldProcs)
	for round := 0; round < rounds; round++ {
		k := ks[rnd.Intn(len(ks))]
		procs := 1 + rnd.Intn(16)
		mode := []string{"same", "different", "mixed"}[rnd.Intn(3)]
		idx := make([]int, k)
		first := rnd.Intn(len(specs))
		for g := range idx {
			switch mode {
			case "same":
				idx[g] = first
			case "different":
				idx[g] = (first + g) % len(specs)
			default:
				if rnd.Bool() {
					idx[g] = first
				} else {
					idx[g] = rnd.Intn(len(specs))
				}
			}
		}
		// a round is meant to take seconds: with a specification that takes long to compile (a .proto import
		// under the race detector) fewer goroutines run it, and the time allowed follows the work there is
		var work time.Duration
		for g := range idx {
			work += dur[idx[g]]
		}
		for k > 2 && work/time.Duration(procs) > 20*time.Second {
			work -= dur[idx[k-1]]
			k--
			idx = idx[:k]
		}
		allowed := 4*time.Minute + 8*work/time.Duration(procs)
		offs := make([]int, k)
		for g := range offs {
			offs[g] = rnd.Intn(2000) // microseconds
		}
		runtime.GOMAXPROCS(procs)
		outs := make([]c07Out, k)
		var wg sync.WaitGroup
		done := make(chan struct{})
		desc := map[string]any{"round": round, "k": k, "gomaxprocs": procs, "mode": mode, "first": specs[idx[0]].Name}
		untrack := Track(desc)
		for g := 0; g < k; g++ {
			wg.Add(1)
			go func(g int) {
				defer wg.Done()
				t0 := time.Now()
				for time.Since(t0) < time.Duration(offs[g])*time.Microsecond {
					runtime.Gosched()
				}
				outs[g] = specs[idx[g]].compile()
			}(g)
		}
		go func() { wg.Wait(); close(done) }()
		select {
		case <-done:
		case <-time.After(allowed):
			stacks := make([]byte, 1<<20)
			stacks = stacks[:runtime.Stack(stacks, true)]
			res.Violate(Violation{Sig: "concurrent-compile-hang", What: fmt.Sprintf("%d concurrent compilations did not finish in %v (GOMAXPROCS %d; sequentially they take %v)", k, allowed, procs, work), Input: desc, Got: string(stacks)})
			res.Count("round:hang")
			untrack()
			return // the stuck goroutines keep the process busy: stop here
		}
		untrack()
		for g := 0; g < k; g++ {
			s := specs[idx[g]]
			if !outs[g].same(base[idx[g]]) && !unstable[idx[g]] {
				what, got := "textpb", firstDiffLine(base[idx[g]].Text, outs[g].Text)
				if outs[g].Text == base[idx[g]].Text {
					what, got = "JSON", firstDiffLine(base[idx[g]].JSON, outs[g].JSON)
				}
				if outs[g].Err != base[idx[g]].Err || outs[g].Panic != base[idx[g]].Panic {
					what, got = "outcome", fmt.Sprintf("alone %q/%q %s, concurrently %q/%q %s", base[idx[g]].Err, base[idx[g]].Panic, base[idx[g]].ErrMsg, outs[g].Err, outs[g].Panic, outs[g].ErrMsg)
				}
				in := s.input()
				for kk, v := range desc {
					in[kk] = v
				}
				res.Violate(Violation{Sig: "concurrent-result-differs:" + what, What: "a compilation running next to others gives a different " + what + " from the one it gives alone", Input: in, Got: got})
			}
			res.Eval(fmt.Sprintf("conc\x00%s\x00%d\x00%d\x00%s", s.Name, k, procs, mode), base[idx[g]].Text != "")
			res.Traces++
		}
		res.Count(fmt.Sprintf("k:%d", k))
		res.Count("mode:" + mode)
		res.Count(fmt.Sprintf("gomaxprocs:%d", procs))
	}
	runtime.GOMAXPROCS(oldProcs)
	// ---- lexer-state churn: many short parses side by side (separate process, bounded memory) ----
	if !inner {
		c07Churn(res, tier)
	}
	bg.Wait()
	res.Sample(map[string]any{"specs": len(specs), "rounds": rounds})
}

var reRaceFrame = regexp.MustCompile(`(?m)^  (github\.com/anz-bank/sysl/[^\s(]+|github\.com/[^\s(]+)\(`)

func c07Race(res *Result, tier string) {
	bin := os.Getenv("VERIF_RACE_BIN")
	if bin == "" {
		bin = "/verif/.cache/verifh-race"
	}
	if !fileExists(bin) {
		res.Disagree(Disagreement{What: "race-binary-missing: the harness could not be built with the race detector; the no-data-race half of the property is not checked"})
		return
	}
	dir, err := os.MkdirTemp(filepath.Dir(bin), "race")
	if err != nil {
		res.Note("race: %v", err)
		return
	}
	defer os.RemoveAll(dir)
	cmd := exec.Command(bin, "C07", "--tier", tier, "--out", filepath.Join(dir, "inner.json"))
	cmd.Env = append(os.Environ(), "VERIF_C07_INNER=1", "VERIF_JOURNAL=", "GORACE=log_path="+filepath.Join(dir, "race")+" history_size=5 halt_on_error=0")
	out, err := cmd.CombinedOutput()
	var inner Result
	readJSON(filepath.Join(dir, "inner.json"), &inner)
	res.CountN("race-run:evaluations", inner.Evaluations)
	for _, v := range inner.Violations {
		v.Sig = "race-run:" + v.Sig
		res.Violate(v)
	}
	logs, _ := filepath.Glob(filepath.Join(dir, "race.*"))
	nrep := 0
	for _, lf := range logs {
		b, _ := os.ReadFile(lf)
		for _, rep := range strings.Split(string(b), "==================") {
			if !strings.Contains(rep, "DATA RACE") {
				continue
			}
			nrep++
			var frames []string
			for _, m := range reRaceFrame.FindAllStringSubmatch(rep, -1) {
				f := m[1]
				if len(frames) == 0 || frames[len(frames)-1] != f {
					frames = append(frames, f)
				}
				if len(frames) >= 2 {
					break
				}
			}
			sort.Strings(frames)
			if len(rep) > 6000 {
				rep = rep[:6000]
			}
			res.Violate(Violation{Sig: "data-race:" + strings.Join(frames, "|"), What: "the race detector reports a data race between concurrent compilations", Input: map[string]any{"scenario": "verifh-race C07 --tier " + tier, "seed": envSeed()}, Got: rep})
		}
	}
	res.CountN("race-run:reports", nrep)
	if err != nil && inner.Evaluations == 0 {
		tail := string(out)
		if len(tail) > 1500 {
			tail = tail[len(tail)-1500:]
		}
		res.Disagree(Disagreement{What: "race-run-failed: the race-detector run did not complete: " + err.Error(), Impl: tail})
	}
}

// c07ChurnChild: g goroutines create a lexer, lex a small text and delete the lexer state, over
// and over.  The per-lexer state lives in a process-global map; the map must not grow with the
// number of parses that have finished.
func c07ChurnChild(secs string) {
	var n int
	fmt.Sscan(secs, &n)
	// a clean failure instead of exhausting the machine
	_ = syscall.Setrlimit(syscall.RLIMIT_AS, &syscall.Rlimit{Cur: 8 << 30, Max: 8 << 30})
	deadline := time.Now().Add(time.Duration(n) * time.Second)
	var wg sync.WaitGroup
	var parses int64
	stop := make(chan struct{})
	for g := 0; g < 32; g++ {
		wg.Add(1)
		go func() {
			defer wg.Done()
			for time.Now().Before(deadline) {
				select {
				case <-stop:
					return
				default:
				}
				_, _ = lexAll("A:\n    E:\n        B <- F\nB:\n    F:\n        ...\n")
				atomic.AddInt64(&parses, 1)
			}
		}()
	}
	go func() {
		var ms runtime.MemStats
		for {
			time.Sleep(100 * time.Millisecond)
			runtime.ReadMemStats(&ms)
			if ms.Sys > 3<<30 {
				fmt.Printf("LEXER-STATE-GROWTH sys=%d MiB after %d parses\n", ms.Sys>>20, atomic.LoadInt64(&parses))
				os.Exit(7)
			}
		}
	}()
	wg.Wait()
	fmt.Printf("CHURN-OK parses=%d\n", atomic.LoadInt64(&parses))
}

func c07Churn(res *Result, tier string) {
	self, err := os.Executable()
	if err != nil {
		res.Note("churn: %v", err)
		return
	}
	secs := "8"
	if tier == "thorough" {
		secs = "60"
	}
	cmd := exec.Command(self, "C07", "--tier", tier, "--out", os.DevNull)
	cmd.Env = append(os.Environ(), "VERIF_C07_CHURN="+secs, "VERIF_JOURNAL=")
	out, err := cmd.CombinedOutput()
	txt := string(out)
	in := map[string]any{"scenario": "32 goroutines x (new lexer, lex a 6-line model, delete lexer state) for " + secs + " s", "replay": "VERIF_C07_CHURN=" + secs + " verifh C07"}
	switch {
	case strings.Contains(txt, "CHURN-OK"):
		res.Count("churn:ok")
		res.Eval("churn", true)
	case strings.Contains(txt, "LEXER-STATE-GROWTH") || strings.Contains(txt, "out of memory") || strings.Contains(txt, "cannot allocate"):
		site := "memory"
		if strings.Contains(txt, "hashmap.(*HashMap).grow") {
			site = "hashmap.grow"
		}
		if len(txt) > 3000 {
			txt = txt[:3000]
		}
		res.Violate(Violation{Sig: "concurrent-parses-exhaust-memory:" + site, What: "short parses running side by side make the process-global lexer state map grow without bound until memory is exhausted", Input: in, Got: txt})
		res.Eval("churn", true)
	default:
		if len(txt) > 3000 {
			txt = txt[len(txt)-3000:]
		}
		res.Violate(Violation{Sig: "concurrent-parses-crash", What: "short parses running side by side crash the process: " + fmt.Sprint(err), Input: in, Got: txt})
		res.Eval("churn", true)
	}
}

const c07Greeter = `swagger: "2.0"
info:
  title: Greeter
  version: "1"
paths:
  /greeting:
    get:
      responses:
        200:
          description: a plain string body
          schema:
            type: string
  /other:
    get:
      responses:
        200:
          description: another plain string body
          schema:
            type: string
        404:
          description: an object
          schema:
            $ref: "#/definitions/Err"
definitions:
  Err:
    type: object
    properties:
      code: {type: integer}
      msg: {type: string}
`

const c07Pets = `openapi: "3.0.0"
info:
  title: Pets
  version: "1"
paths:
  /owners:
    get:
      parameters:
        - name: limit
          in: query
          schema:
            type: integer
      responses:
        "200":
          description: ok
          content:
            application/json:
              schema:
                type: array
                items:
                  $ref: "#/components/schemas/Owner"
components:
  schemas:
    Owner:
      type: object
      properties:
        name:
          type: string
        phone:
          type: string
`
