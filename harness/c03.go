package main

// C03 — Layout does not change meaning: indentation scale, blank lines, comments.
// B1: the real lexer's emitted token stream vs the model's `synth` of the raw stream.
// B2 / direct oracle: compile original and layout-transformed text; acceptance and model
// (source contexts cleared) must be equal.

import (
	"fmt"
	"os"
	"path/filepath"
	"sort"
	"strings"
	"sync"

	"github.com/antlr/antlr4/runtime/Go/antlr"
	parser "github.com/anz-bank/sysl/pkg/grammar"
	"github.com/anz-bank/sysl/pkg/parse"
	"github.com/anz-bank/sysl/pkg/sysl"
	"github.com/spf13/afero"
	"google.golang.org/protobuf/proto"
	"google.golang.org/protobuf/reflect/protoreflect"
)

func init() { runners["C03"] = runC03 }

var repoRoot = func() string {
	if r := os.Getenv("VERIF_REPO"); r != "" {
		return r
	}
	return "/repo"
}()

func corpusSysl() []string {
	var out []string
	_ = filepath.Walk(repoRoot, func(p string, info os.FileInfo, err error) error {
		if err != nil {
			return nil
		}
		if info.IsDir() && (info.Name() == ".git" || info.Name() == "node_modules") {
			return filepath.SkipDir
		}
		if !info.IsDir() && strings.HasSuffix(p, ".sysl") {
			out = append(out, p)
		}
		return nil
	})
	sort.Strings(out)
	return out
}

type lexTok struct {
	Ty     int
	Hidden bool
	Text   string
}

func lexAll(text string) (toks []lexTok, panicked string) {
	defer func() {
		if x := recover(); x != nil {
			panicked = fmt.Sprint(x)
		}
	}()
	lx := parser.NewThreadSafeSyslLexer(antlr.NewInputStream(text))
	lx.RemoveErrorListeners()
	defer parser.DeleteLexerState(lx)
	for i := 0; i < 20*len(text)+1000; i++ {
		t := lx.NextToken()
		lt := lexTok{Ty: t.GetTokenType(), Hidden: t.GetChannel() == antlr.TokenHiddenChannel}
		if lt.Ty == parser.SyslLexerWS || lt.Ty == parser.SyslLexerE_WS {
			lt.Text = t.GetText()
		}
		toks = append(toks, lt)
		if lt.Ty == antlr.TokenEOF {
			break
		}
	}
	return
}

// stripSourceContexts clears every field named source_context / source_contexts, recursively.
func stripSourceContexts(m protoreflect.Message) {
	m.Range(func(fd protoreflect.FieldDescriptor, v protoreflect.Value) bool {
		name := string(fd.Name())
		if name == "source_context" || name == "source_contexts" {
			m.Clear(fd)
			return true
		}
		switch {
		case fd.IsMap():
			if fd.MapValue().Kind() == protoreflect.MessageKind {
				v.Map().Range(func(_ protoreflect.MapKey, mv protoreflect.Value) bool {
					stripSourceContexts(mv.Message())
					return true
				})
			}
		case fd.IsList():
			if fd.Kind() == protoreflect.MessageKind {
				l := v.List()
				for i := 0; i < l.Len(); i++ {
					stripSourceContexts(l.Get(i).Message())
				}
			}
		case fd.Kind() == protoreflect.MessageKind:
			stripSourceContexts(v.Message())
		}
		return true
	})
}

func stripped(m *sysl.Module) *sysl.Module {
	c := proto.Clone(m).(*sysl.Module)
	stripSourceContexts(c.ProtoReflect())
	return c
}

// compileWith compiles file `name` of directory `dir`, with `text` replacing its content.
func compileWith(dir, name, text string) (m *sysl.Module, errs string, panicked string) {
	defer func() {
		if x := recover(); x != nil {
			panicked = fmt.Sprint(x)
		}
	}()
	layer := afero.NewMemMapFs()
	var fs afero.Fs = layer
	if dir != "" && dir != "<generated>" {
		base := afero.NewBasePathFs(afero.NewReadOnlyFs(afero.NewOsFs()), dir)
		fs = afero.NewCopyOnWriteFs(base, layer)
	}
	if err := afero.WriteFile(layer, name, []byte(text), 0o644); err != nil {
		return nil, err.Error(), ""
	}
	p := parse.NewParser()
	mod, err := p.ParseFromFs(name, fs)
	if err != nil {
		return nil, err.Error(), ""
	}
	return mod, "", ""
}

// ---------- layout transformations (on text) ----------

// protectedLines: lines that begin inside a multi-line token (e.g. a quoted string spanning
// lines); their leading whitespace is content, not layout, so no transformation touches them.
func protectedLines(text string) map[int]bool {
	prot := map[int]bool{}
	defer func() { _ = recover() }()
	lx := parser.NewThreadSafeSyslLexer(antlr.NewInputStream(text))
	lx.RemoveErrorListeners()
	defer parser.DeleteLexerState(lx)
	for i := 0; i < 5_000_000; i++ {
		t := lx.NextToken()
		if t.GetTokenType() == antlr.TokenEOF {
			break
		}
		if t.GetTokenType() == parser.SyslLexerINDENT || t.GetTokenType() == parser.SyslLexerDEDENT {
			continue
		}
		tx := strings.TrimSuffix(t.GetText(), "\n")
		n := strings.Count(tx, "\n")
		for k := 1; k <= n; k++ {
			prot[t.GetLine()-1+k] = true
		}
	}
	return prot
}

func splitLines(s string) []string { return strings.SplitAfter(s, "\n") }

// a line of the file plus whether it begins inside a multi-line token
type tline struct {
	txt  string
	prot bool
}

func toLines(text string) []tline {
	prot := protectedLines(text)
	var out []tline
	for i, l := range splitLines(text) {
		out = append(out, tline{l, prot[i]})
	}
	return out
}

func fromLines(ls []tline) string {
	var b strings.Builder
	for _, l := range ls {
		b.WriteString(l.txt)
	}
	return b.String()
}

func leadingRun(line string) (string, string) {
	i := 0
	for i < len(line) && (line[i] == ' ' || line[i] == '\t') {
		i++
	}
	return line[:i], line[i:]
}

func isBlankOrEnd(rest string) bool {
	r := strings.TrimRight(rest, "\r\n")
	return r == ""
}

func tScale(ls []tline, k int) []tline {
	out := make([]tline, 0, len(ls))
	for _, l := range ls {
		lead, rest := leadingRun(l.txt)
		if isBlankOrEnd(rest) || l.prot {
			out = append(out, l)
			continue
		}
		var b strings.Builder
		for i := 0; i < len(lead); i++ {
			b.WriteString(strings.Repeat(string(lead[i]), k))
		}
		b.WriteString(rest)
		out = append(out, tline{b.String(), false})
	}
	return out
}

func tTabify(ls []tline, r *Rand) []tline {
	out := make([]tline, 0, len(ls))
	for _, l := range ls {
		lead, rest := leadingRun(l.txt)
		if isBlankOrEnd(rest) || l.prot || strings.Contains(lead, "\t") || !r.Chance(2, 3) {
			out = append(out, l)
			continue
		}
		n := len(lead) / 4
		out = append(out, tline{strings.Repeat("\t", n) + lead[n*4:] + rest, false})
	}
	return out
}

func tBlank(ls []tline, r *Rand, p, q int) []tline {
	out := make([]tline, 0, len(ls)*2)
	for i, l := range ls {
		out = append(out, l)
		if strings.HasSuffix(l.txt, "\n") && i < len(ls)-1 && !ls[i+1].prot && r.Chance(p, q) {
			switch r.Intn(3) {
			case 0:
				out = append(out, tline{"\n", false})
			case 1:
				out = append(out, tline{"    \n", false})
			default:
				out = append(out, tline{"\n", false}, tline{"\n", false})
			}
		}
	}
	return out
}

// whole-line comments before declaration headers (lines that end with ':') and at the end
func tComment(ls []tline, r *Rand, p, q int) []tline {
	out := make([]tline, 0, len(ls)*2)
	viewIndent := -1 // indentation of the enclosing `!view` header, -1 when outside a view body
	for _, l := range ls {
		lead, rest := leadingRun(l.txt)
		tr := strings.TrimRight(rest, "\r\n \t")
		if tr != "" && !l.prot {
			if viewIndent >= 0 && calcW(lead) <= viewIndent {
				viewIndent = -1
			}
		}
		inView := viewIndent >= 0
		if tr != "" && !l.prot && viewIndent < 0 && strings.HasPrefix(tr, "!view") {
			viewIndent = calcW(lead)
		}
		if strings.HasSuffix(tr, ":") && !l.prot && !strings.HasPrefix(tr, "#") && !strings.HasPrefix(tr, "|") && !strings.HasPrefix(tr, "@") && r.Chance(p, q) {
			k := r.Intn(5)
			if (k == 1 || k == 3) && lead != "" && inView {
				// a column-0 comment inside a view/transform body would sit inside an expression,
				// not between declarations
				k = 0
			}
			switch k {
			case 0:
				out = append(out, tline{lead + "# layout comment\n", false})
			case 1:
				out = append(out, tline{"# layout comment at column 0\n", false})
			case 3:
				out = append(out, tline{"#\n", false}) // bare hash at column 0
			case 4:
				out = append(out, tline{lead + "# \n", false})
			default:
				out = append(out, tline{lead + "#\n", false})
			}
		}
		out = append(out, l)
	}
	if n := len(out); n > 0 && !strings.HasSuffix(out[n-1].txt, "\n") && out[n-1].txt != "" {
		out[n-1].txt += "\n"
	}
	out = append(out, tline{"# trailing comment\n", false})
	return out
}

// genMixedSpec: a small valid spec whose leading runs mix tabs and spaces (every run of width w
// is spelled as a random sequence of ' ' (1) and '\t' (4) adding up to w).
func genMixedSpec(r *Rand) string {
	unit := Pick(r, []int{4, 5, 6, 8, 9})
	spell := func(w int) string {
		var b strings.Builder
		for w > 0 {
			if w >= 4 && r.Chance(1, 2) {
				b.WriteByte('\t')
				w -= 4
			} else {
				b.WriteByte(' ')
				w--
			}
		}
		return b.String()
	}
	var b strings.Builder
	// wild mode: every depth has two arbitrary spellings (any mix of spaces and tabs, not
	// necessarily of equal width); each line picks one. Layout invariance must hold for
	// every input text, also for files that nest oddly or do not compile.
	wild := r.Chance(1, 2)
	alts := map[int][2]string{}
	randRun := func(minW int) string {
		var rb strings.Builder
		n := 1 + r.Intn(4)
		for i := 0; i < n || calcW(rb.String()) <= minW; i++ {
			if r.Chance(1, 3) {
				rb.WriteByte('\t')
			} else {
				rb.WriteString(strings.Repeat(" ", 1+r.Intn(3)))
			}
		}
		return rb.String()
	}
	line := func(depth int, txt string) {
		if !wild || depth == 0 {
			b.WriteString(spell(depth*unit) + txt + "\n")
			return
		}
		a, ok := alts[depth]
		if !ok {
			minW := 0
			if p, has := alts[depth-1]; has {
				minW = max(calcW(p[0]), calcW(p[1]))
			}
			x := randRun(minW)
			y := x
			if r.Bool() {
				y = randRun(minW)
			}
			a = [2]string{x, y}
			alts[depth] = a
		}
		b.WriteString(a[r.Intn(2)] + txt + "\n")
	}
	napps := 1 + r.Intn(2)
	for a := 0; a < napps; a++ {
		line(0, fmt.Sprintf("App%d:", a))
		line(1, "!type T:")
		for f := 0; f < 2+r.Intn(3); f++ {
			line(2, fmt.Sprintf("f%d <: %s", f, Pick(r, []string{"int", "string", "bool", "T?"})))
		}
		for e := 0; e < 1+r.Intn(3); e++ {
			line(1, fmt.Sprintf("Ep%d:", e))
			var stmts func(d, budget int)
			stmts = func(d, budget int) {
				n := 1 + r.Intn(3)
				for i := 0; i < n; i++ {
					switch k := r.Intn(5); {
					case k == 0 && budget > 0:
						line(d, "if cond:")
						stmts(d+1, budget-1)
						if r.Bool() {
							line(d, "else:")
							stmts(d+1, budget-1)
						}
					case k == 1 && budget > 0:
						line(d, "for each x in xs:")
						stmts(d+1, budget-1)
					case k == 2:
						line(d, "return ok <: T")
					default:
						line(d, fmt.Sprintf("do thing %d", r.Intn(100)))
					}
				}
			}
			stmts(2, 3)
		}
		if !wild && r.Chance(1, 3) {
			// a view closing the application: the next line is the next application's header (or the end)
			line(1, fmt.Sprintf("!view V%d(a <: int) -> int:", a))
			line(2, "a -> (:")
			line(3, "out = a + 1")
			if r.Bool() {
				line(3, "more = a * 2")
			}
			line(2, ")")
		}
	}
	return b.String()
}

func calcW(s string) int {
	w := 0
	for i := 0; i < len(s); i++ {
		if s[i] == ' ' {
			w++
		} else if s[i] == '\t' {
			w += 4
		}
	}
	return w
}

type c03Transform struct {
	Name string `json:"name"`
	Seed uint64 `json:"seed"`
}

func applyTransform(text string, t c03Transform) string {
	r := NewRand(t.Seed)
	ls := toLines(text)
	for _, step := range strings.Split(t.Name, "+") {
		switch {
		case strings.HasPrefix(step, "scale"):
			k := int(step[len(step)-1] - '0')
			ls = tScale(ls, k)
		case step == "tabs":
			ls = tTabify(ls, r)
		case step == "blank":
			ls = tBlank(ls, r, 1, 3)
		case step == "blankall":
			ls = tBlank(ls, r, 1, 1)
		case step == "comment":
			ls = tComment(ls, r, 1, 2)
		case step == "commentall":
			ls = tComment(ls, r, 1, 1)
		}
	}
	return fromLines(ls)
}

var c03Compositions = []string{"scale2", "scale3", "scale4", "tabs", "blank", "blankall", "comment", "commentall",
	"scale2+blank", "scale3+comment", "blank+comment", "scale2+tabs", "scale4+blank+comment+tabs", "comment+scale2", "tabs+blankall"}

var replayText string

func runC03(res *Result, tier string, rnd *Rand, replay string) {
	res.Rule = "corpus = every .sysl file under /repo plus generated specs whose leading runs mix tabs and spaces; for each: (B1) real lexer token stream vs model synth of its raw stream; (B2) compile under compositions of {indent scale 2..4, tabs for 4-space units, blank-line insertion at random/all line boundaries, whole-line comments before declaration headers and at the end}; non-trivial = file has at least one indented line and compiles; distinct by (file, composition, seed)"
	files := corpusSysl()
	nComp := 4
	if tier == "thorough" {
		nComp = len(c03Compositions) * 2
	}
	type job struct {
		file string
		tr   c03Transform
	}
	var jobs []job
	if replay != "" {
		var rp struct {
			Input struct {
				File      string       `json:"file"`
				Text      string       `json:"text"`
				Transform c03Transform `json:"transform"`
			} `json:"input"`
		}
		readJSON(replay, &rp)
		files = []string{rp.Input.File}
		jobs = []job{{rp.Input.File, rp.Input.Transform}}
		replayText = rp.Input.Text
	} else {
		for _, f := range files {
			// always the pure scales on every file; plus sampled compositions
			comps := []string{"scale2", "blankall", "commentall"}
			for i := 0; i < nComp; i++ {
				comps = append(comps, Pick(rnd, c03Compositions))
			}
			seen := map[string]bool{}
			for _, c := range comps {
				if seen[c] && !strings.Contains(c, "blank") && !strings.Contains(c, "comment") && !strings.Contains(c, "tabs") {
					continue
				}
				seen[c] = true
				jobs = append(jobs, job{f, c03Transform{c, rnd.Next()}})
			}
		}
	}

	// ---- B1: token streams ----
	var reqs []any
	type lexCase struct {
		file string
		emit []int
	}
	var lexCases []lexCase
	for _, f := range files {
		b, err := os.ReadFile(f)
		if err != nil {
			continue
		}
		toks, pan := lexAll(string(b))
		if pan != "" {
			res.Note("lexer panicked on %s: %s", f, pan)
			continue
		}
		var emit []int
		var raw []any
		for _, t := range toks {
			switch t.Ty {
			case parser.SyslLexerINDENT:
				emit = append(emit, -100)
			case parser.SyslLexerDEDENT:
				emit = append(emit, -200)
			default:
				emit = append(emit, t.Ty)
				h := 0
				if t.Hidden {
					h = 1
				}
				raw = append(raw, []any{t.Ty, h, t.Text})
			}
		}
		lexCases = append(lexCases, lexCase{f, emit})
		reqs = append(reqs, map[string]any{"op": "indent.synth", "toks": raw})
	}
	reps, err := RunOracleChunks(reqs, 8)
	if err != nil {
		res.Disagree(Disagreement{What: "oracle failed: " + err.Error()})
		return
	}
	for i, lc := range lexCases {
		out, _ := reps[i]["out"].([]any)
		same := len(out) == len(lc.emit)
		if same {
			for k := range out {
				var v int
				fmt.Sscan(fmt.Sprint(out[k]), &v)
				if v != lc.emit[k] {
					same = false
					break
				}
			}
		}
		res.Traces++
		nin := 0
		for _, e := range lc.emit {
			if e == -100 {
				nin++
			}
		}
		res.Eval("lex\x00"+lc.file, nin > 0)
		if !same {
			res.Disagree(Disagreement{Input: map[string]any{"file": lc.file}, What: "INDENT/DEDENT synthesis: model token stream differs from the real lexer's", Model: fmt.Sprint(out)[:min(400, len(fmt.Sprint(out)))], Impl: fmt.Sprint(lc.emit)[:min(400, len(fmt.Sprint(lc.emit)))]})
		}
	}

	// ---- B2 / direct oracle: metamorphic compile ----
	type orig struct {
		m    *sysl.Module
		err  string
		text string
	}
	origs := map[string]*orig{}
	var mu sync.Mutex
	var wg sync.WaitGroup
	sem := make(chan struct{}, workers(12))
	for _, f := range files {
		wg.Add(1)
		sem <- struct{}{}
		go func(f string) {
			defer wg.Done()
			defer func() { <-sem }()
			b, err := os.ReadFile(f)
			if err != nil {
				if replayText == "" {
					return
				}
				b = []byte(replayText)
			}
			m, e, pan := compileWith(filepath.Dir(f), filepath.Base(f), string(b))
			o := &orig{text: string(b), err: e}
			if pan != "" {
				o.err = "panic: " + pan
			}
			if m != nil {
				o.m = stripped(m)
			}
			mu.Lock()
			origs[f] = o
			mu.Unlock()
		}(f)
	}
	wg.Wait()
	// generated specs with mixed tab/space leading runs
	if replay == "" {
		nGen := 60
		if tier == "thorough" {
			nGen = 600
		}
		for i := 0; i < nGen; i++ {
			txt := genMixedSpec(rnd)
			name := fmt.Sprintf("<generated>/g%d.sysl", i)
			m, e, pan := compileWith("<generated>", "g.sysl", txt)
			o := &orig{text: txt, err: e}
			if pan != "" {
				o.err = "panic: " + pan
			}
			if m != nil {
				o.m = stripped(m)
			} else {
				res.Count("generated-not-compiling")
			}
			origs[name] = o
			for _, c := range []string{"scale2", "scale3", "tabs", "blank+comment"} {
				jobs = append(jobs, job{name, c03Transform{c, rnd.Next()}})
			}
		}
	}
	nOK := 0
	for _, o := range origs {
		if o.m != nil {
			nOK++
		}
	}
	res.CountN("corpus_files", len(files))
	res.CountN("corpus_files_compiling", nOK)
	for _, j := range jobs {
		wg.Add(1)
		sem <- struct{}{}
		go func(j job) {
			defer wg.Done()
			defer func() { <-sem }()
			o := origs[j.file]
			if o == nil {
				return
			}
			txt := applyTransform(o.text, j.tr)
			in := map[string]any{"file": j.file, "transform": j.tr}
			if strings.HasPrefix(j.file, "<generated>") {
				in["text"] = o.text
			}
			defer Track(in)()
			m, e, pan := compileWith(filepath.Dir(j.file), filepath.Base(j.file), txt)
			if pan != "" {
				e = "panic: " + pan
			}
			res.Eval(j.file+"\x00"+j.tr.Name+fmt.Sprint(j.tr.Seed), o.m != nil && strings.Contains(o.text, "\n    "))
			res.Count("transform:" + j.tr.Name)
			if (o.m == nil) != (m == nil) {
				res.Violate(Violation{Sig: "acceptance:" + classify03(j.tr.Name) + ":" + relRepo(j.file), What: "layout transformation changes whether the file compiles", Input: in,
					Got: e, Want: o.err})
				return
			}
			if m != nil && !proto.Equal(stripped(m), o.m) {
				res.Violate(Violation{Sig: "model:" + classify03(j.tr.Name) + ":" + relRepo(j.file), What: "layout transformation changes the compiled model", Input: in})
				return
			}
			if res.Evaluations%400 == 0 {
				res.Sample(map[string]any{"file": j.file, "transform": j.tr, "compiles": m != nil})
			}
		}(j)
	}
	wg.Wait()
}

func relRepo(f string) string {
	r, err := filepath.Rel(repoRoot, f)
	if err != nil {
		return f
	}
	return r
}

// classify03: which basic transformation is involved (for violation signatures)
func classify03(name string) string {
	var ks []string
	for _, k := range []string{"scale", "tabs", "blank", "comment"} {
		if strings.Contains(name, k) {
			ks = append(ks, k)
		}
	}
	return strings.Join(ks, "+")
}
