module verifh

go 1.21

require (
	github.com/antlr/antlr4/runtime/Go/antlr v0.0.0-20211115101625-aeaa445b4d4f
	github.com/anz-bank/golden-retriever v0.43.0
	github.com/anz-bank/sysl v0.0.0
	github.com/arr-ai/arrai v0.321.0
	github.com/getkin/kin-openapi v0.124.0
	github.com/ghodss/yaml v1.0.0
	github.com/sirupsen/logrus v1.9.3
	github.com/spf13/afero v1.11.0
	google.golang.org/protobuf v1.34.2
)

require (
	aqwari.net/xml v0.0.0-20210331023308-d9421b293817 // indirect
	dario.cat/mergo v1.0.0 // indirect
	github.com/ProtonMail/go-crypto v1.0.0 // indirect
	github.com/PuerkitoBio/purell v1.1.1 // indirect
	github.com/PuerkitoBio/urlesc v0.0.0-20170810143723-de5bf2ad4578 // indirect
	github.com/alecthomas/template v0.0.0-20190718012654-fb15b899a751 // indirect
	github.com/alecthomas/units v0.0.0-20190717042225-c3de453c63f4 // indirect
	github.com/anz-bank/pkg v0.0.48 // indirect
	github.com/arr-ai/frozen v0.20.3 // indirect
	github.com/arr-ai/hash v1.1.0 // indirect
	github.com/arr-ai/wbnf v0.35.3 // indirect
	github.com/cloudflare/circl v1.3.9 // indirect
	github.com/cornelk/hashmap v1.0.1 // indirect
	github.com/cpuguy83/go-md2man/v2 v2.0.4 // indirect
	github.com/cyphar/filepath-securejoin v0.2.5 // indirect
	github.com/davecgh/go-spew v1.1.1 // indirect
	github.com/dchest/siphash v1.1.0 // indirect
	github.com/emirpasic/gods v1.18.1 // indirect
	github.com/go-errors/errors v1.5.1 // indirect
	github.com/go-git/gcfg v1.5.1-0.20230307220236-3a3c6141e376 // indirect
	github.com/go-git/go-billy/v5 v5.5.1-0.20240427054813-8453aa90c6ec // indirect
	github.com/go-git/go-git/v5 v5.12.1-0.20240729070005-9debed20a895 // indirect
	github.com/go-openapi/jsonpointer v0.20.2 // indirect
	github.com/go-openapi/jsonreference v0.19.6 // indirect
	github.com/go-openapi/spec v0.20.4 // indirect
	github.com/go-openapi/swag v0.22.8 // indirect
	github.com/golang/groupcache v0.0.0-20210331224755-41bb18bfe9da // indirect
	github.com/golang/protobuf v1.5.4 // indirect
	github.com/google/go-github/v32 v32.1.0 // indirect
	github.com/google/go-querystring v1.1.0 // indirect
	github.com/iancoleman/strcase v0.3.0 // indirect
	github.com/imdario/mergo v0.3.15 // indirect
	github.com/invopop/yaml v0.2.0 // indirect
	github.com/jbenet/go-context v0.0.0-20150711004518-d14ea06fba99 // indirect
	github.com/josharian/intern v1.0.0 // indirect
	github.com/kevinburke/ssh_config v1.2.0 // indirect
	github.com/mailru/easyjson v0.7.7 // indirect
	github.com/mattn/go-isatty v0.0.20 // indirect
	github.com/mohae/deepcopy v0.0.0-20170929034955-c48cc78d4826 // indirect
	github.com/perimeterx/marshmallow v1.1.5 // indirect
	github.com/pjbgf/sha1cd v0.3.0 // indirect
	github.com/pkg/errors v0.9.1 // indirect
	github.com/pmezard/go-difflib v1.0.0 // indirect
	github.com/richardlehane/mscfb v1.0.4 // indirect
	github.com/richardlehane/msoleps v1.0.3 // indirect
	github.com/russross/blackfriday/v2 v2.1.0 // indirect
	github.com/sergi/go-diff v1.3.2-0.20230802210424-5b0b94c5c0d3 // indirect
	github.com/skeema/knownhosts v1.3.0 // indirect
	github.com/stretchr/objx v0.5.2 // indirect
	github.com/stretchr/testify v1.9.0 // indirect
	github.com/urfave/cli/v2 v2.2.0 // indirect
	github.com/xanzy/ssh-agent v0.3.3 // indirect
	github.com/xuri/efp v0.0.0-20240408161823-9ad904a10d6d // indirect
	github.com/xuri/excelize/v2 v2.8.1 // indirect
	github.com/xuri/nfp v0.0.0-20240318013403-ab9948c2c4a7 // indirect
	golang.org/x/crypto v0.26.0 // indirect
	golang.org/x/net v0.28.0 // indirect
	golang.org/x/oauth2 v0.22.0 // indirect
	golang.org/x/sync v0.8.0 // indirect
	golang.org/x/sys v0.24.0 // indirect
	golang.org/x/text v0.17.0 // indirect
	gopkg.in/alecthomas/kingpin.v2 v2.2.6 // indirect
	gopkg.in/warnings.v0 v0.1.2 // indirect
	gopkg.in/yaml.v2 v2.4.0 // indirect
	gopkg.in/yaml.v3 v3.0.1 // indirect
)

replace github.com/anz-bank/sysl => /repo
