module verifh

go 1.21

require (
	github.com/anz-bank/sysl v0.0.0
	github.com/spf13/afero v1.11.0
)

require (
	github.com/davecgh/go-spew v1.1.1 // indirect
	github.com/golang/protobuf v1.5.4 // indirect
	github.com/pkg/errors v0.9.1 // indirect
	github.com/pmezard/go-difflib v1.0.0 // indirect
	github.com/sirupsen/logrus v1.9.3 // indirect
	github.com/stretchr/objx v0.5.2 // indirect
	github.com/stretchr/testify v1.9.0 // indirect
	golang.org/x/sys v0.24.0 // indirect
	golang.org/x/text v0.17.0 // indirect
	google.golang.org/protobuf v1.34.2 // indirect
	gopkg.in/yaml.v3 v3.0.1 // indirect
)

replace github.com/anz-bank/sysl => /repo
