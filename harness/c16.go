package main

// C16 — database scripts are complete and dependency-ordered; delta scripts are sound.
// Real code: database.ScriptView.GenerateDatabaseScriptCreate / ProcessModSysls on modules
// compiled from generated relational models.  Model: SyslModel.DbScript (create order,
// depths) + Sql.exec, the reference interpreter that executes the REAL emitted SQL.

import (
	"fmt"
	"regexp"
	"sort"
	"strings"

	"github.com/anz-bank/sysl/pkg/database"
	"github.com/anz-bank/sysl/pkg/parse"
	"github.com/anz-bank/sysl/pkg/sysl"
	"github.com/sirupsen/logrus"
	"github.com/spf13/afero"
)

type dbCol struct {
	Name string `json:"name"`
	Line int    `json:"line"`
	Ty   string `json:"ty,omitempty"`    // mapped SQL type for primitives
	Sysl string `json:"sysl,omitempty"`  // sysl spelling of the primitive
	RefT string `json:"ref_t,omitempty"` // foreign key target
	RefC string `json:"ref_c,omitempty"`
	PK   bool   `json:"pk"`
	Auto bool   `json:"auto"`
}
type dbTable struct {
	Name string  `json:"name"`
	Line int     `json:"line"`
	File int     `json:"file"`
	Cols []dbCol `json:"cols"`
}
type dbSchema struct {
	Tables []dbTable `json:"tables"`
	NFiles int       `json:"nfiles"`
}

var dbPrims = []struct{ sysl, sql string }{
	{"int", "integer"}, {"string", "varchar (50)"}, {"string(30)", "varchar (30)"}, {"string(120)", "varchar (120)"},
	{"date", "date"}, {"bool", "varchar (50)"}, {"float", "varchar (50)"}, {"datetime", "varchar (50)"},
}

func genDbSchema(r *Rand, n int) *dbSchema {
	s := &dbSchema{NFiles: 1 + r.Intn(2)}
	for i := 0; i < n; i++ {
		t := dbTable{Name: fmt.Sprintf("T%d", i), File: r.Intn(s.NFiles)}
		npk := 1
		if r.Chance(1, 4) {
			npk = 2
		}
		for k := 0; k < npk; k++ {
			c := dbCol{Name: fmt.Sprintf("id%d", k), PK: true, Sysl: "int", Ty: "integer"}
			if npk == 1 && r.Chance(1, 3) {
				c.Auto = true
			}
			if r.Chance(1, 5) {
				c.Sysl, c.Ty = "string(30)", "varchar (30)"
				c.Auto = false
			}
			t.Cols = append(t.Cols, c)
		}
		nc := r.Intn(4)
		for k := 0; k < nc; k++ {
			p := Pick(r, dbPrims)
			t.Cols = append(t.Cols, dbCol{Name: fmt.Sprintf("c%d", k), Sysl: p.sysl, Ty: p.sql})
		}
		// references to earlier tables only (acyclic); several to the same target allowed
		if i > 0 {
			nr := r.Intn(3)
			for k := 0; k < nr; k++ {
				tt := s.Tables[r.Intn(i)]
				tc := tt.Cols[r.Intn(len(tt.Cols))]
				t.Cols = append(t.Cols, dbCol{Name: fmt.Sprintf("r%d", k), RefT: tt.Name, RefC: tc.Name, PK: r.Chance(1, 8)})
			}
		}
		Shuffle(r, t.Cols)
		s.Tables = append(s.Tables, t)
	}
	return s
}

// render the schema as sysl text (one file per s.NFiles; file 0 imports the others) with tables
// in a random textual order; fills in Line numbers (0-based like source_context).
func (s *dbSchema) render(r *Rand) map[string]string {
	files := map[string]string{}
	order := make([]int, len(s.Tables))
	for i := range order {
		order[i] = i
	}
	Shuffle(r, order)
	for f := 0; f < s.NFiles; f++ {
		var b strings.Builder
		line := 0
		w := func(x string) { b.WriteString(x + "\n"); line++ }
		if f == 0 {
			for g := 1; g < s.NFiles; g++ {
				w(fmt.Sprintf("import part%d", g))
			}
		}
		w("Model:")
		any := false
		for _, ti := range order {
			t := &s.Tables[ti]
			if t.File != f {
				continue
			}
			any = true
			t.Line = line
			w(fmt.Sprintf("    !table %s:", t.Name))
			for ci := range t.Cols {
				c := &t.Cols[ci]
				c.Line = line
				ty := c.Sysl
				if c.RefT != "" {
					ty = c.RefT + "." + c.RefC
				}
				var at []string
				if c.PK {
					at = append(at, "~pk")
				}
				if c.Auto {
					at = append(at, "~autoinc")
				}
				as := ""
				if len(at) > 0 {
					as = " [" + strings.Join(at, ", ") + "]"
				}
				w(fmt.Sprintf("        %s <: %s%s", c.Name, ty, as))
			}
		}
		if !any {
			w("    ...")
		}
		name := "main.sysl"
		if f > 0 {
			name = fmt.Sprintf("part%d.sysl", f)
		}
		files[name] = b.String()
	}
	return files
}

func compileFiles(files map[string]string, root string) (*sysl.Module, error) {
	fs := afero.NewMemMapFs()
	for n, c := range files {
		_ = afero.WriteFile(fs, n, []byte(c), 0o644)
	}
	return parse.NewParser().ParseFromFs(root, fs)
}

// ---------- parser for the emitted SQL subset ----------

var (
	reCreate   = regexp.MustCompile(`(?s)^CREATE TABLE (\S+?)\((.*)\)$`)
	rePK       = regexp.MustCompile(`^CONSTRAINT (\S+) PRIMARY KEY\((.*)\)$`)
	reFK       = regexp.MustCompile(`^CONSTRAINT (\S+) FOREIGN KEY\((\S+)\) REFERENCES (\S+) ?\((\S+)\)$`)
	reAddCol   = regexp.MustCompile(`^ALTER TABLE (\S+) ADD COLUMN (\S+) (.*)$`)
	reDropCol  = regexp.MustCompile(`^ALTER TABLE (\S+) DROP COLUMN (\S+)$`)
	reAlterTy  = regexp.MustCompile(`^ALTER TABLE (\S+) ALTER COLUMN (\S+) TYPE (.*)$`)
	reAddFK    = regexp.MustCompile(`^ALTER TABLE (\S+) ADD CONSTRAINT (\S+) FOREIGN KEY\((\S+)\) REFERENCES (\S+?) ?\((\S+)\)$`)
	reAddPK    = regexp.MustCompile(`^ALTER TABLE (\S+) ADD CONSTRAINT (\S+) PRIMARY KEY\((.*)\)$`)
	reDropCons = regexp.MustCompile(`^ALTER TABLE (\S+) DROP CONSTRAINT (\S+)$`)
	reComment  = regexp.MustCompile(`(?s)/\*.*?\*/`)
)

func parseSQL(text string) ([]map[string]any, []string) {
	var out []map[string]any
	var unknown []string
	text = reComment.ReplaceAllString(text, "")
	for _, st := range strings.Split(text, ";\n") {
		st = strings.TrimSpace(st)
		st = strings.TrimSuffix(st, ";")
		if st == "" {
			continue
		}
		if m := reCreate.FindStringSubmatch(st); m != nil {
			d := map[string]any{"k": "create", "t": m[1]}
			cols := [][]string{}
			pk := []string{}
			fks := [][]string{}
			for _, ln := range strings.Split(m[2], "\n") {
				ln = strings.TrimSpace(ln)
				ln = strings.TrimSuffix(ln, ",")
				if ln == "" {
					continue
				}
				if p := rePK.FindStringSubmatch(ln); p != nil {
					for _, c := range strings.Split(p[2], ",") {
						pk = append(pk, strings.TrimSpace(c))
					}
				} else if f := reFK.FindStringSubmatch(ln); f != nil {
					fks = append(fks, []string{f[2], f[3], f[4]})
				} else {
					sp := strings.SplitN(ln, " ", 2)
					ty := ""
					if len(sp) == 2 {
						ty = sp[1]
					}
					cols = append(cols, []string{sp[0], ty})
				}
			}
			d["cols"], d["pk"], d["fks"] = cols, pk, fks
			out = append(out, d)
			continue
		}
		one := strings.Join(strings.Fields(st), " ")
		switch {
		case reAddCol.MatchString(one):
			m := reAddCol.FindStringSubmatch(one)
			out = append(out, map[string]any{"k": "addcol", "t": m[1], "c": m[2], "ty": m[3]})
		case reDropCol.MatchString(one):
			m := reDropCol.FindStringSubmatch(one)
			out = append(out, map[string]any{"k": "dropcol", "t": m[1], "c": m[2]})
		case reAlterTy.MatchString(one):
			m := reAlterTy.FindStringSubmatch(one)
			out = append(out, map[string]any{"k": "altertype", "t": m[1], "c": m[2], "ty": m[3]})
		case reAddFK.MatchString(one):
			m := reAddFK.FindStringSubmatch(one)
			out = append(out, map[string]any{"k": "addfk", "t": m[1], "c": m[3], "rt": m[4], "rc": m[5]})
		case reAddPK.MatchString(one):
			m := reAddPK.FindStringSubmatch(one)
			cols := []string{}
			for _, c := range strings.Split(m[3], ",") {
				if c = strings.TrimSpace(c); c != "" {
					cols = append(cols, c)
				}
			}
			out = append(out, map[string]any{"k": "addpk", "t": m[1], "cols": cols})
		case reDropCons.MatchString(one):
			m := reDropCons.FindStringSubmatch(one)
			out = append(out, map[string]any{"k": "dropcons", "t": m[1], "n": m[2]})
		case strings.HasPrefix(one, "CREATE SEQUENCE"), strings.HasPrefix(one, "ALTER SEQUENCE"),
			strings.HasPrefix(one, "select setval"), strings.Contains(one, " SET DEFAULT "):
			out = append(out, map[string]any{"k": "other", "text": one})
		default:
			unknown = append(unknown, one)
			out = append(out, map[string]any{"k": "other", "text": one})
		}
	}
	return out, unknown
}

// schema JSON for the oracle, with the line numbers the REAL module recorded
func (s *dbSchema) oracleJSON(app *sysl.Application) []any {
	var out []any
	for _, t := range s.Tables {
		line := t.Line
		var cols []any
		rt := app.GetTypes()[t.Name]
		if rt != nil {
			line = int(rt.GetSourceContext().GetStart().GetLine()) //nolint:staticcheck
		}
		for _, c := range t.Cols {
			cl := c.Line
			if rt != nil && rt.GetRelation() != nil {
				if a := rt.GetRelation().GetAttrDefs()[c.Name]; a != nil {
					cl = int(a.GetSourceContext().GetStart().GetLine()) //nolint:staticcheck
				}
			}
			m := map[string]any{"name": c.Name, "line": cl, "pk": c.PK, "auto": c.Auto}
			if c.RefT != "" {
				m["ref_t"], m["ref_c"] = c.RefT, c.RefC
			} else {
				m["ty"] = c.Ty
			}
			cols = append(cols, m)
		}
		out = append(out, map[string]any{"name": t.Name, "line": line, "cols": cols})
	}
	return out
}

// ---------- edit scripts for delta ----------

func (s *dbSchema) clone() *dbSchema {
	n := &dbSchema{NFiles: s.NFiles}
	for _, t := range s.Tables {
		t2 := t
		t2.Cols = append([]dbCol{}, t.Cols...)
		n.Tables = append(n.Tables, t2)
	}
	return n
}

// applyEdits returns the edited schema and the list of edit kinds applied
func applyEdits(r *Rand, old *dbSchema, k int) (*dbSchema, []string) {
	s := old.clone()
	var kinds []string
	for e := 0; e < k; e++ {
		if len(s.Tables) == 0 {
			break
		}
		ti := r.Intn(len(s.Tables))
		t := &s.Tables[ti]
		referenced := func(tn, cn string) bool {
			for _, u := range s.Tables {
				for _, c := range u.Cols {
					if c.RefT == tn && (cn == "" || c.RefC == cn) {
						return true
					}
				}
			}
			return false
		}
		switch r.Intn(12) {
		case 10: // the key moves to a column added in the same step; the old key columns stay as plain columns
			ok := true
			for _, c := range t.Cols {
				if c.PK && (c.RefT != "" || c.Auto || referenced(t.Name, c.Name)) {
					ok = false
				}
			}
			nm := fmt.Sprintf("sk%d", r.Intn(1000))
			if ok && !findColIn(t, nm) {
				for ci := range t.Cols {
					t.Cols[ci].PK = false
				}
				t.Cols = append(t.Cols, dbCol{Name: nm, PK: true, Sysl: "int", Ty: "integer"})
				kinds = append(kinds, "key-moves-to-added-column")
			}
		case 11: // the table loses its key altogether (a later step may give it one on an existing column)
			ok := true
			for _, c := range t.Cols {
				if c.PK && (c.RefT != "" || c.Auto || referenced(t.Name, c.Name)) {
					ok = false
				}
			}
			if ok {
				for ci := range t.Cols {
					t.Cols[ci].PK = false
				}
				kinds = append(kinds, "drop-key")
			}
		case 9: // several columns added to one table in one step, references among them
			n := 2 + r.Intn(2)
			added := 0
			for q := 0; q < n; q++ {
				nm := fmt.Sprintf("%c%d", 'a'+rune(r.Intn(26)), r.Intn(100))
				if findColIn(t, nm) {
					continue
				}
				if ti > 0 && r.Chance(2, 3) {
					tt := s.Tables[r.Intn(ti)]
					tc := tt.Cols[r.Intn(len(tt.Cols))]
					t.Cols = append(t.Cols, dbCol{Name: nm, RefT: tt.Name, RefC: tc.Name})
				} else {
					p := Pick(r, dbPrims)
					t.Cols = append(t.Cols, dbCol{Name: nm, Sysl: p.sysl, Ty: p.sql})
				}
				added++
			}
			if added > 0 {
				kinds = append(kinds, "add-several-columns")
			}
		case 0: // add a primitive column
			p := Pick(r, dbPrims)
			t.Cols = append(t.Cols, dbCol{Name: fmt.Sprintf("n%d", r.Intn(1000)), Sysl: p.sysl, Ty: p.sql})
			kinds = append(kinds, "add-column")
		case 1: // drop a non-key, unreferenced primitive column
			for ci, c := range t.Cols {
				if !c.PK && c.RefT == "" && !referenced(t.Name, c.Name) && len(t.Cols) > 1 {
					t.Cols = append(t.Cols[:ci], t.Cols[ci+1:]...)
					kinds = append(kinds, "drop-column")
					break
				}
			}
		case 2: // retype a primitive, unreferenced column
			for ci, c := range t.Cols {
				if c.RefT == "" && !c.Auto && !referenced(t.Name, c.Name) {
					p := Pick(r, dbPrims)
					if p.sql != c.Ty {
						t.Cols[ci].Sysl, t.Cols[ci].Ty = p.sysl, p.sql
						kinds = append(kinds, "retype-column")
						break
					}
				}
			}
		case 3: // add a table referencing an existing one
			nt := dbTable{Name: fmt.Sprintf("N%d", r.Intn(1000)), File: 0,
				Cols: []dbCol{{Name: "id0", PK: true, Sysl: "int", Ty: "integer"}}}
			tt := s.Tables[r.Intn(len(s.Tables))]
			tc := tt.Cols[r.Intn(len(tt.Cols))]
			nt.Cols = append(nt.Cols, dbCol{Name: "r0", RefT: tt.Name, RefC: tc.Name})
			s.Tables = append(s.Tables, nt)
			kinds = append(kinds, "add-table")
		case 4: // drop an unreferenced table
			if !referenced(t.Name, "") && len(s.Tables) > 1 {
				s.Tables = append(s.Tables[:ti], s.Tables[ti+1:]...)
				kinds = append(kinds, "drop-table")
			}
		case 5: // change key: toggle pk on a primitive column
			for ci, c := range t.Cols {
				if c.RefT == "" && !c.Auto && r.Chance(1, 2) {
					npk := 0
					for _, d := range t.Cols {
						if d.PK {
							npk++
						}
					}
					if c.PK && (npk <= 1 || referenced(t.Name, c.Name)) {
						continue
					}
					t.Cols[ci].PK = !c.PK
					kinds = append(kinds, "change-key")
					break
				}
			}
		case 6: // add a reference column to an earlier table
			if ti > 0 {
				tt := s.Tables[r.Intn(ti)]
				tc := tt.Cols[r.Intn(len(tt.Cols))]
				t.Cols = append(t.Cols, dbCol{Name: fmt.Sprintf("nr%d", r.Intn(1000)), RefT: tt.Name, RefC: tc.Name})
				kinds = append(kinds, "add-reference")
			}
		case 7: // drop a reference column
			for ci, c := range t.Cols {
				if c.RefT != "" && !c.PK && !referenced(t.Name, c.Name) && len(t.Cols) > 1 {
					t.Cols = append(t.Cols[:ci], t.Cols[ci+1:]...)
					kinds = append(kinds, "drop-reference")
					break
				}
			}
		case 8: // toggle autoincrement on a single integer key
			for ci, c := range t.Cols {
				if c.PK && c.RefT == "" && c.Ty == "integer" && !referenced(t.Name, c.Name) {
					t.Cols[ci].Auto = !c.Auto
					kinds = append(kinds, "toggle-autoinc")
					break
				}
			}
		}
	}
	sort.Strings(kinds)
	return s, kinds
}

func init() { runners["C16"] = runC16 }

type c16Case struct {
	Old   *dbSchema `json:"old"`
	New   *dbSchema `json:"new,omitempty"`
	Kinds []string  `json:"edit_kinds,omitempty"`
	Seed  uint64    `json:"seed"`
}

func runC16(res *Result, tier string, rnd *Rand, replay string) {
	res.Rule = "relational models: 1..7 tables in 1..2 files (tables of different files may share a source line), acyclic foreign keys to any column of earlier tables, composite keys, autoincrement, sized strings, shuffled textual order; creation scripts executed by the Lean reference interpreter (Sql.exec); (old,new) pairs from random edit scripts (add/drop/retype column, add/drop table, change key, add/drop reference, toggle autoincrement) incl. chains v1->v2->v3; non-trivial = has a foreign key or an edit; distinct by schema text"
	nCreate, nDelta := 150, 150
	if tier == "thorough" {
		nCreate, nDelta = 3000, 4000
	}
	var cases []c16Case
	if replay != "" {
		var rp struct {
			Input c16Case `json:"input"`
		}
		readJSON(replay, &rp)
		cases = []c16Case{rp.Input}
	} else {
		for i := 0; i < nCreate; i++ {
			s := genDbSchema(rnd, 1+rnd.Intn(7))
			cases = append(cases, c16Case{Old: s, Seed: rnd.Next()})
		}
		for i := 0; i < nDelta; i++ {
			s := genDbSchema(rnd, 1+rnd.Intn(5))
			n, kinds := applyEdits(rnd, s, 1+rnd.Intn(3))
			cases = append(cases, c16Case{Old: s, New: n, Kinds: kinds, Seed: rnd.Next()})
			if rnd.Chance(1, 4) { // chain v2 -> v3
				n2, k2 := applyEdits(rnd, n, 1+rnd.Intn(2))
				cases = append(cases, c16Case{Old: n, New: n2, Kinds: k2, Seed: rnd.Next()})
			}
		}
	}
	logger := logrus.New()
	logger.SetLevel(logrus.PanicLevel)
	type pending struct {
		c        c16Case
		kind     string
		realDDL  []map[string]any
		modelReq int
		checkReq int
	}
	var reqs []any
	var pend []pending
	for _, c := range cases {
		in := c
		done := Track(in)
		func() {
			defer done()
			defer func() {
				if x := recover(); x != nil {
					res.Violate(Violation{Sig: "panic", What: fmt.Sprint("panic: ", x), Input: in})
				}
			}()
			r := NewRand(c.Seed)
			filesOld := c.Old.render(r)
			modOld, err := compileFiles(filesOld, "main.sysl")
			if err != nil {
				res.Note("generated schema does not compile: %v\n%s", err, filesOld["main.sysl"])
				res.Count("generated-not-compiling")
				return
			}
			appOld := modOld.Apps["Model"]
			// determinism + create: run the generator several times (map iteration order)
			var first string
			for rep := 0; rep < 6; rep++ {
				v := database.MakeDatabaseScriptView("t", logger)
				sql := v.GenerateDatabaseScriptCreate(appOld.GetTypes(), "postgres", "Model")
				if rep == 0 {
					first = sql
				} else if sql != first {
					res.Violate(Violation{Sig: "create:nondeterministic", What: "the creation script differs between two runs on the same model", Input: in, Got: sql, Want: first})
					break
				}
			}
			ddlOld, unk := parseSQL(first)
			for _, u := range unk {
				res.Disagree(Disagreement{Input: in, What: "emitted SQL statement outside the modelled subset", Impl: u})
			}
			if c.New == nil {
				p := pending{c: c, kind: "create", realDDL: ddlOld}
				p.modelReq = len(reqs)
				reqs = append(reqs, map[string]any{"op": "db.create", "schema": c.Old.oracleJSON(appOld)})
				p.checkReq = len(reqs)
				reqs = append(reqs, map[string]any{"op": "db.check", "want": c.Old.oracleJSON(appOld), "pre": []any{}, "ddl": ddlOld})
				pend = append(pend, p)
				res.Eval(filesOld["main.sysl"]+filesOld["part1.sysl"], strings.Contains(first, "REFERENCES"))
				return
			}
			filesNew := c.New.render(r)
			modNew, err := compileFiles(filesNew, "main.sysl")
			if err != nil {
				res.Count("generated-not-compiling")
				return
			}
			appNew := modNew.Apps["Model"]
			v := database.MakeDatabaseScriptView("t", logger)
			outs := v.ProcessModSysls(modOld.GetApps(), modNew.GetApps(), []string{"Model"}, "out", "postgres")
			mfs := afero.NewMemMapFs()
			if err := database.GenerateFromSQLMap(outs, mfs, logger); err != nil {
				res.Violate(Violation{Sig: "delta:write-error", What: err.Error(), Input: in})
				return
			}
			b, _ := afero.ReadFile(mfs, "out/Model.sql")
			ddl, unk2 := parseSQL(string(b))
			for _, u := range unk2 {
				res.Disagree(Disagreement{Input: in, What: "emitted SQL statement outside the modelled subset", Impl: u})
			}
			p := pending{c: c, kind: "delta", realDDL: ddl}
			p.modelReq = -1
			p.checkReq = len(reqs)
			reqs = append(reqs, map[string]any{"op": "db.check", "want": c.New.oracleJSON(appNew), "pre": ddlOld, "ddl": ddl})
			pend = append(pend, p)
			res.Eval(filesOld["main.sysl"]+"=>"+filesNew["main.sysl"], len(c.Kinds) > 0)
			for _, k := range c.Kinds {
				res.Count("edit:" + k)
			}
			if len(c.Kinds) == 0 && len(ddl) != 0 {
				res.Violate(Violation{Sig: "delta:identity-not-empty", What: "the delta between identical versions contains statements", Input: in, Got: string(b)})
			}
		}()
	}
	reps, err := RunOracleChunks(reqs, 8)
	if err != nil {
		res.Disagree(Disagreement{What: "oracle failed: " + err.Error()})
		return
	}
	for i, p := range pend {
		res.Traces++
		if p.modelReq >= 0 {
			m := reps[p.modelReq]
			if mbool(m, "diverges") {
				res.Disagree(Disagreement{Input: p.c, What: "model says the depth computation diverges but the implementation returned"})
			} else {
				want := fmt.Sprint(normDDL(m["ddl"]))
				got := fmt.Sprint(normDDL(anyList(p.realDDL)))
				if want != got {
					res.Disagree(Disagreement{Input: p.c, What: "creation script: statements differ from the model's", Model: want, Impl: got})
				}
			}
		}
		ck := reps[p.checkReq]
		if tag := mstr(ck, "tag"); tag != "" {
			if mstr(ck, "phase") == "pre" && p.kind == "delta" {
				continue // the old version's own creation script is judged by the create cases
			}
			sig := p.kind + ":exec-" + tag
			if p.kind == "delta" {
				sig += ":" + strings.Join(uniq(p.c.Kinds), "+")
			}
			res.Violate(Violation{Sig: sig, What: "the emitted SQL does not execute: " + mstr(ck, "err"), Input: p.c, Got: p.realDDL})
			continue
		}
		if !mbool(ck, "ok") {
			diffs := fmt.Sprint(ck["diffs"])
			tagset := map[string]bool{}
			if ds, ok := ck["diffs"].([]any); ok {
				for _, d := range ds {
					if dd, ok := d.([]any); ok && len(dd) == 2 {
						tagset[fmt.Sprint(dd[1])] = true
					}
				}
			}
			sig := p.kind + ":catalog-" + strings.Join(sortedKeys(tagset), "+")
			if p.kind == "delta" {
				// name the root cause, not the combination of edits that happened to expose it
				causes := map[string]bool{}
				if cds, ok := ck["coldiffs"].([]any); ok {
					for _, cd := range cds {
						q, _ := cd.([]any)
						if len(q) == 4 {
							causes[c16Cause(p.c, fmt.Sprint(q[0]), fmt.Sprint(q[1]), fmt.Sprint(q[2]), fmt.Sprint(q[3]))] = true
						}
					}
				}
				for tg := range tagset {
					if tg != "column-types" {
						causes[tg+":"+strings.Join(uniq(p.c.Kinds), "+")] = true
					}
				}
				sig = "delta:" + strings.Join(sortedKeys(causes), "|")
			}
			res.Violate(Violation{Sig: sig, What: "after executing the script the catalog differs from the model version: " + diffs, Input: p.c, Got: ck["catalog"]})
		}
		if i%(len(pend)/4+1) == 0 {
			res.Sample(map[string]any{"kind": p.kind, "edit_kinds": p.c.Kinds, "tables": len(p.c.Old.Tables), "ddl": p.realDDL})
		}
	}
}

func findColIn(t *dbTable, c string) bool {
	for _, x := range t.Cols {
		if x.Name == c {
			return true
		}
	}
	return false
}

func findCol(s *dbSchema, t, c string) *dbCol {
	for i := range s.Tables {
		if s.Tables[i].Name == t {
			for j := range s.Tables[i].Cols {
				if s.Tables[i].Cols[j].Name == c {
					return &s.Tables[i].Cols[j]
				}
			}
		}
	}
	return nil
}

// root of a reference chain: the primitive column a foreign key ultimately points to
func rootCol(s *dbSchema, c *dbCol) *dbCol {
	for i := 0; c != nil && c.RefT != "" && i < 50; i++ {
		c = findCol(s, c.RefT, c.RefC)
	}
	return c
}

// c16Cause classifies one column whose type after the delta differs from the new version
func c16Cause(c c16Case, table, col, want, got string) string {
	nc := findCol(c.New, table, col)
	oc := findCol(c.Old, table, col)
	switch {
	case nc != nil && oc != nil && nc.RefT == "" && nc.Auto && !oc.Auto && want == "bigint" && got == "integer":
		return "autoinc-added:column-stays-integer"
	case nc != nil && nc.RefT != "" && oc != nil && oc.RefT == nc.RefT && oc.RefC == nc.RefC:
		// an unchanged foreign-key column whose target's type changed
		nr, or := rootCol(c.New, nc), rootCol(c.Old, oc)
		if nr != nil && or != nil && (nr.Auto != or.Auto || nr.Ty != or.Ty) {
			return "fk-column-type-does-not-follow-retyped-target"
		}
	}
	return fmt.Sprintf("unclassified-type:want=%s,got=%s", want, got)
}

func uniq(xs []string) []string {
	m := map[string]bool{}
	for _, x := range xs {
		m[x] = true
	}
	return sortedKeys(m)
}

func anyList(xs []map[string]any) any {
	out := make([]any, len(xs))
	for i, x := range xs {
		out[i] = x
	}
	return out
}

// normDDL renders a DDL list canonically (JSON decoded values and Go values alike)
func normDDL(v any) []string {
	var out []string
	l, _ := v.([]any)
	for _, e := range l {
		m, _ := e.(map[string]any)
		keys := sortedKeys(m)
		var parts []string
		for _, k := range keys {
			parts = append(parts, k+"="+flat(m[k]))
		}
		out = append(out, strings.Join(parts, " "))
	}
	return out
}

func flat(v any) string {
	switch x := v.(type) {
	case []any:
		var p []string
		for _, e := range x {
			p = append(p, flat(e))
		}
		return "[" + strings.Join(p, ",") + "]"
	case []string:
		return "[" + strings.Join(x, ",") + "]"
	case [][]string:
		var p []string
		for _, e := range x {
			p = append(p, "["+strings.Join(e, ",")+"]")
		}
		return "[" + strings.Join(p, ",") + "]"
	default:
		return fmt.Sprint(v)
	}
}
