package main

// C12 — OpenAPI export is a valid document that carries every type and endpoint.
// Real code: syslwrapper + exporter (OpenAPI3 and Swagger), kin-openapi's loader/validator on the
// output, importer.Factory + parser on the re-import.  The generator knows the types and
// endpoints it wrote; the census below is model-free.  Model: SyslModel.Export.

import (
	"bytes"
	"context"
	"encoding/json"
	"fmt"
	"sort"
	"strings"
	"sync"

	"github.com/anz-bank/sysl/pkg/exporter"
	"github.com/anz-bank/sysl/pkg/importer"
	"github.com/anz-bank/sysl/pkg/sysl"
	"github.com/anz-bank/sysl/pkg/syslutil"
	"github.com/anz-bank/sysl/pkg/syslwrapper"
	"github.com/getkin/kin-openapi/openapi3"
	yaml "github.com/ghodss/yaml"
	"github.com/sirupsen/logrus"
)

type xField struct {
	Name string
	Prim string // "" = reference
	Ref  string
	Seq  bool
	Opt  bool
}
type xType struct {
	Name   string
	Enum   []string
	Nums   []int // the numbers of the enum's values, as declared (any distinct numbers, any order)
	Fields []xField
}
type xParam struct {
	Name, In string // path query header body
	Prim     string
	Ref      string
	Opt      bool
}
type xResp struct {
	Code string // ok, 201, 404
	Ref  string
	Prim string
	Seq  bool
}
type xEp struct {
	Verb, Path string
	Params     []xParam
	Resps      []xResp
}
type xApp struct {
	Types []xType
	Eps   []xEp
	Text  string
}

var xPrims = map[string][2]string{"int": {"integer", "int64"}, "string": {"string", ""}, "bool": {"boolean", ""}, "float": {"number", "float"},
	"decimal": {"number", "double"}, "date": {"string", "date"}, "datetime": {"string", "date-time"}}

func genXApp(r *Rand) *xApp {
	a := &xApp{}
	prims := []string{"int", "string", "bool", "float", "decimal", "date", "datetime"}
	nt := 1 + r.Intn(5)
	var tnames []string
	for i := 0; i < nt; i++ {
		tnames = append(tnames, fmt.Sprintf("T%d", i))
	}
	if r.Chance(1, 3) {
		// a type name written in lower case (as the repository's own examples do: `request`, `order`)
		tnames[r.Intn(nt)] = Pick(r, []string{"order", "customer", "user", "foo", "quote", "entry", "note"})
	}
	hasEnum := r.Bool()
	for i, tn := range tnames {
		t := xType{Name: tn}
		nf := 1 + r.Intn(6)
		for f := 0; f < nf; f++ {
			fd := xField{Name: fmt.Sprintf("f%d", f), Opt: r.Chance(1, 3), Seq: r.Chance(1, 4)}
			switch k := r.Intn(6); {
			case k == 0:
				fd.Ref = tnames[r.Intn(nt)] // self- and mutually-recursive types
			case k == 1 && hasEnum && !fd.Seq:
				fd.Ref = "Status"
			default:
				fd.Prim = Pick(r, prims)
			}
			t.Fields = append(t.Fields, fd)
		}
		a.Types = append(a.Types, t)
		_ = i
	}
	if hasEnum {
		et := xType{Name: "Status", Enum: []string{"NEW", "PAID", "SENT", "LOST"}[:1+r.Intn(4)]}
		// numbering: dense from 1 or 0, offset, sparse, or declared in descending order
		scheme := Pick(r, [][]int{{1, 2, 3, 4}, {0, 1, 2, 3}, {10, 11, 12, 13}, {1, 4, 5, 9}, {4, 3, 2, 1}, {7, 2, 40, 3}})
		et.Nums = scheme[:len(et.Enum)]
		a.Types = append(a.Types, et)
	}
	verbs := []string{"GET", "POST", "PUT", "DELETE", "PATCH"}
	np := 1 + r.Intn(3)
	for p := 0; p < np; p++ {
		path := fmt.Sprintf("/res%d", p)
		var pathParams []xParam
		if r.Bool() {
			path += fmt.Sprintf("/{id%d}", p)
			pathParams = append(pathParams, xParam{Name: fmt.Sprintf("id%d", p), In: "path", Prim: Pick(r, []string{"int", "string"})})
		}
		vs := append([]string{}, verbs...)
		Shuffle(r, vs)
		for m := 0; m < 1+r.Intn(3); m++ {
			ep := xEp{Verb: vs[m], Path: path, Params: append([]xParam{}, pathParams...)}
			for q := 0; q < r.Intn(4); q++ {
				ep.Params = append(ep.Params, xParam{Name: fmt.Sprintf("q%d", q), In: "query", Prim: Pick(r, []string{"int", "string", "bool"}), Opt: r.Chance(1, 2)})
			}
			if r.Chance(1, 3) {
				ep.Params = append(ep.Params, xParam{Name: "hdr", In: "header", Prim: "string"})
			}
			if (ep.Verb == "POST" || ep.Verb == "PUT" || ep.Verb == "PATCH") && r.Chance(2, 3) {
				ep.Params = append(ep.Params, xParam{Name: Pick(r, []string{"body", "payload", "zreq", "a_req"}), In: "body", Ref: tnames[r.Intn(nt)]})
			}
			codes := []string{"ok", "201", "404", "500"}
			Shuffle(r, codes)
			for c := 0; c < 1+r.Intn(3); c++ {
				rs := xResp{Code: codes[c]}
				if r.Chance(3, 4) {
					rs.Ref = tnames[r.Intn(nt)]
					rs.Seq = r.Chance(1, 4)
				} else {
					rs.Prim = "string"
					rs.Seq = r.Chance(1, 3)
				}
				ep.Resps = append(ep.Resps, rs)
			}
			a.Eps = append(a.Eps, ep)
		}
	}
	var b strings.Builder
	b.WriteString("Shop [version=\"1.0\"]:\n")
	for _, t := range a.Types {
		if t.Enum != nil {
			fmt.Fprintf(&b, "    !enum %s:\n", t.Name)
			for i, e := range t.Enum {
				fmt.Fprintf(&b, "        %s: %d\n", e, t.Nums[i])
			}
			continue
		}
		fmt.Fprintf(&b, "    !type %s:\n", t.Name)
		for _, f := range t.Fields {
			ty := f.Prim
			if ty == "" {
				ty = f.Ref
			}
			if f.Seq {
				ty = "sequence of " + ty
			}
			if f.Opt {
				ty += "?"
			}
			fmt.Fprintf(&b, "        %s <: %s\n", f.Name, ty)
		}
	}
	byPath := map[string][]xEp{}
	var paths []string
	for _, e := range a.Eps {
		if _, ok := byPath[e.Path]; !ok {
			paths = append(paths, e.Path)
		}
		byPath[e.Path] = append(byPath[e.Path], e)
	}
	for _, p := range paths {
		src := p
		for _, pp := range byPath[p][0].Params {
			if pp.In == "path" {
				src = strings.Replace(src, "{"+pp.Name+"}", "{"+pp.Name+" <: "+pp.Prim+"}", 1)
			}
		}
		fmt.Fprintf(&b, "    %s:\n", src)
		for _, e := range byPath[p] {
			var ps, qs []string
			for _, pp := range e.Params {
				switch pp.In {
				case "query":
					t := pp.Prim
					if pp.Opt {
						t += "?"
					}
					qs = append(qs, pp.Name+"="+t)
				case "header":
					ps = append(ps, pp.Name+" <: "+pp.Prim+" [~header]")
				case "body":
					ps = append(ps, pp.Name+" <: "+pp.Ref+" [~body]")
				}
			}
			line := "        " + e.Verb
			if len(ps) > 0 {
				line += " (" + strings.Join(ps, ", ") + ")"
			}
			if len(qs) > 0 {
				line += " ?" + strings.Join(qs, "&")
			}
			b.WriteString(line + ":\n")
			for _, rs := range e.Resps {
				ty := rs.Prim
				if ty == "" {
					ty = rs.Ref
				}
				if rs.Seq {
					ty = "sequence of " + ty
				}
				fmt.Fprintf(&b, "            return %s <: %s\n", rs.Code, ty)
			}
		}
	}
	a.Text = b.String()
	return a
}

func exportOpenAPI3(m *sysl.Module, mode string, logger *logrus.Logger) ([]byte, error) {
	app := m.Apps["Shop"]
	mod := &sysl.Module{Apps: map[string]*sysl.Application{syslutil.GetAppName(app.Name): app}}
	mapper := syslwrapper.MakeAppMapper(mod)
	mapper.IndexTypes()
	mapper.ConvertTypes()
	simpleApps, err := mapper.Map()
	if err != nil {
		return nil, err
	}
	e := exporter.MakeOpenAPI3Exporter(simpleApps, logger)
	if err := e.Export(); err != nil {
		return nil, err
	}
	return e.SerializeOutput("Shop", mode)
}

// exportOpenAPI3Twice: one exporter asked for both encodings, `first` first: what it returns for an encoding must
// not depend on what it was asked for before
func exportOpenAPI3Twice(m *sysl.Module, first string, logger *logrus.Logger) (map[string][]byte, error) {
	app := m.Apps["Shop"]
	mod := &sysl.Module{Apps: map[string]*sysl.Application{syslutil.GetAppName(app.Name): app}}
	mapper := syslwrapper.MakeAppMapper(mod)
	mapper.IndexTypes()
	mapper.ConvertTypes()
	simpleApps, err := mapper.Map()
	if err != nil {
		return nil, err
	}
	e := exporter.MakeOpenAPI3Exporter(simpleApps, logger)
	if err := e.Export(); err != nil {
		return nil, err
	}
	second := "json"
	if first == "json" {
		second = "yaml"
	}
	out := map[string][]byte{}
	for _, mode := range []string{first, second} {
		b, err := e.SerializeOutput("Shop", mode)
		if err != nil {
			return nil, err
		}
		out[mode] = b
	}
	return out, nil
}

func init() { runners["C12"] = runC12 }

func runC12(res *Result, tier string, rnd *Rand, replay string) {
	res.Rule = "generated REST-style applications (1-5 tuple types with primitive, optional, sequence and reference fields, self- and mutually-recursive types, an enum; 1-3 paths with path parameters x 1-3 methods with query, header and body parameters and 1-3 typed responses) x {openapi3, swagger} x {yaml, json}; non-trivial = an application that compiles and exports; distinct by (text hash, format, encoding)"
	logger := logrus.New()
	logger.SetLevel(logrus.PanicLevel)
	n := 80
	if tier == "thorough" {
		n = 240
	}
	for i := 0; i < n; i++ {
		r := rnd.Fork()
		a := genXApp(r)
		mod, err := compileFiles(map[string]string{"main.sysl": a.Text}, "main.sysl")
		if err != nil {
			res.Count("not-compiling")
			res.Note("not compiling: %s", firstLine(err.Error()))
			continue
		}
		for _, mode := range []string{"yaml", "json"} {
			in := map[string]any{"text": a.Text, "format": "openapi3", "encoding": mode}
			key := hashOf(a.Text) + "o3" + mode
			var out []byte
			var xerr string
			func() {
				defer Track(in)()
				defer func() {
					if x := recover(); x != nil {
						xerr = fmt.Sprint("panic: ", x)
					}
				}()
				b, e := exportOpenAPI3(mod, mode, logger)
				if e != nil {
					xerr = e.Error()
				}
				out = b
			}()
			if xerr != "" {
				res.Violate(Violation{Sig: "export-fails:openapi3:" + c01Site(xerr), What: "export of an application in the exportable subset fails: " + firstLine(xerr), Input: in})
				res.Eval(key, false)
				continue
			}
			res.Traces++
			res.Eval(key, true)
			res.Count("export:openapi3:" + mode)
			c12CheckOpenAPI3(res, in, a, out, mode)
			if mode == "yaml" {
				// the same application through one exporter, both encodings, in either order
				func() {
					defer func() { _ = recover() }()
					first := []string{"yaml", "json"}[i%2]
					both, err := exportOpenAPI3Twice(mod, first, logger)
					if err != nil {
						return
					}
					res.Count("export:openapi3:one-exporter-both-encodings")
					for _, m2 := range []string{"yaml", "json"} {
						fresh, err := exportOpenAPI3(mod, m2, logger)
						if err == nil && !bytes.Equal(fresh, both[m2]) {
							res.Violate(Violation{Sig: "serialisation-depends-on-earlier-call:" + m2, What: "asked for " + first + " first, the exporter's " + m2 + " output is not what a fresh exporter writes", Input: in})
						}
					}
				}()
			}
			if mode == "yaml" && ((tier == "thorough" && i%3 == 0) || i%8 == 0) {
				c12Reimport(res, in, a, out, "spec.yaml", logger)
			}
		}
		for _, mode := range []string{"yaml", "json"} {
			in := map[string]any{"text": a.Text, "format": "swagger", "encoding": mode}
			key := hashOf(a.Text) + "sw" + mode
			var out []byte
			var xerr string
			func() {
				defer Track(in)()
				defer func() {
					if x := recover(); x != nil {
						xerr = fmt.Sprint("panic: ", x)
					}
				}()
				e := exporter.MakeSwaggerExporter(mod.Apps["Shop"], logger)
				if err := e.GenerateSwagger(); err != nil {
					xerr = err.Error()
					return
				}
				b, err := e.SerializeOutput(mode)
				if err != nil {
					xerr = err.Error()
				}
				out = b
			}()
			if xerr != "" {
				res.Violate(Violation{Sig: "export-fails:swagger:" + c01Site(xerr), What: "swagger export of an application in the exportable subset fails: " + firstLine(xerr), Input: in})
				res.Eval(key, false)
				continue
			}
			res.Traces++
			res.Eval(key, true)
			res.Count("export:swagger:" + mode)
			c12CheckSwagger(res, in, a, out, mode)
		}
		if i == 0 {
			res.Sample(map[string]any{"text": a.Text})
		}
	}
}

func c12CheckOpenAPI3(res *Result, in map[string]any, a *xApp, out []byte, mode string) {
	viol := func(sig, what string) {
		res.Violate(Violation{Sig: sig, What: what, Input: in})
	}
	data := out
	if mode == "yaml" {
		j, err := yaml.YAMLToJSON(out)
		if err != nil {
			viol("output-not-well-formed:yaml", "the YAML output cannot be read: "+firstLine(err.Error()))
			return
		}
		data = j
	} else if !json.Valid(out) {
		viol("output-not-well-formed:json", "the JSON output is not well-formed")
		return
	}
	loader := openapi3.NewLoader()
	doc, err := loader.LoadFromData(data)
	if err != nil && strings.Contains(err.Error(), "kin-openapi bug found") {
		// the validating library gives up on some cycles of schema references (it says so itself); that is its
		// limit, not a fault of the document: such a document is not judged
		res.Count("validator-gives-up-on-reference-cycle")
		return
	}
	if err != nil {
		viol("openapi3-not-loadable", "the output is not an OpenAPI 3 document: "+firstLine(err.Error()))
		return
	}
	if err := doc.Validate(context.Background()); err != nil {
		viol("openapi3-invalid:"+c12ValClass(err.Error()), "the output does not validate as OpenAPI 3: "+firstLine(err.Error()))
	}
	// ---- types ----
	schemas := map[string]*openapi3.SchemaRef{}
	if doc.Components != nil {
		schemas = doc.Components.Schemas
	}
	model := c12ModelAnswers(a)
	for _, t := range a.Types {
		sr := schemas[t.Name]
		if sr == nil || sr.Value == nil {
			viol("schema-missing", "type "+t.Name+" has no schema")
			continue
		}
		s := sr.Value
		if t.Enum != nil {
			var got []string
			for _, e := range s.Enum {
				got = append(got, fmt.Sprint(e))
			}
			// what Export.exportEnum says the schema lists (every declared value once, by ascending number)
			want, ok := model["enum:"+t.Name]
			if !ok {
				viol("oracle-failed", "export.enum")
			}
			if strings.Join(got, ",") != strings.Join(want, ",") {
				viol("enum-values-differ", fmt.Sprintf("enum %s: schema lists %v, declared %v (in number order)", t.Name, got, want))
			}
			continue
		}
		var wantReq []string
		for _, f := range t.Fields {
			p := s.Properties[f.Name]
			if p == nil {
				viol("property-missing", "type "+t.Name+" has no property "+f.Name)
				continue
			}
			c12CheckSchema(viol, t.Name+"."+f.Name, p, f.Prim, f.Ref, f.Seq)
			if !f.Opt {
				wantReq = append(wantReq, f.Name)
			}
		}
		if len(s.Properties) != len(t.Fields) {
			viol("property-extra", fmt.Sprintf("type %s has %d properties, declared %d fields", t.Name, len(s.Properties), len(t.Fields)))
		}
		gotReq := append([]string{}, s.Required...)
		sort.Strings(gotReq)
		sort.Strings(wantReq)
		// Export.exportTuple's `required` (the sorted names of the non-optional fields) is what is expected
		if m, ok := model["required:"+t.Name]; !ok {
			viol("oracle-failed", "export.required")
		} else if strings.Join(m, ",") != strings.Join(wantReq, ",") {
			viol("model-census-mismatch", fmt.Sprintf("type %s: the model requires %v, the census %v", t.Name, m, wantReq))
		}
		if strings.Join(gotReq, ",") != strings.Join(wantReq, ",") {
			viol("required-differs", fmt.Sprintf("type %s: required %v, the non-optional fields are %v", t.Name, gotReq, wantReq))
		}
	}
	// ---- endpoints ----
	nops := 0
	if doc.Paths != nil {
		for _, item := range doc.Paths.Map() {
			nops += len(item.Operations())
		}
	}
	if nops != len(a.Eps) {
		viol("operation-count", fmt.Sprintf("the document has %d operations, the application %d REST endpoints", nops, len(a.Eps)))
	}
	for _, e := range a.Eps {
		var op *openapi3.Operation
		if doc.Paths != nil {
			if item := doc.Paths.Find(e.Path); item != nil {
				op = item.GetOperation(e.Verb)
			}
		}
		if op == nil {
			viol("operation-missing", "no operation for "+e.Verb+" "+e.Path)
			continue
		}
		nparams := 0
		for _, p := range e.Params {
			if p.In == "body" {
				rb := op.RequestBody
				if rb == nil || rb.Value == nil || rb.Value.Content.Get("application/json") == nil {
					viol("request-body-missing", e.Verb+" "+e.Path+" has no JSON request body")
					continue
				}
				c12CheckSchema(viol, e.Verb+" "+e.Path+" body", rb.Value.Content.Get("application/json").Schema, "", p.Ref, false)
				continue
			}
			nparams++
			var got *openapi3.Parameter
			for _, pr := range op.Parameters {
				if pr.Value != nil && pr.Value.Name == p.Name && pr.Value.In == p.In {
					got = pr.Value
				}
			}
			if got == nil {
				viol("parameter-missing:"+p.In, e.Verb+" "+e.Path+" has no "+p.In+" parameter "+p.Name)
				continue
			}
			if got.Required != !p.Opt {
				viol("parameter-required-differs:"+p.In, fmt.Sprintf("%s %s parameter %s: required=%v, declared optional=%v", e.Verb, e.Path, p.Name, got.Required, p.Opt))
			}
			c12CheckSchema(viol, e.Verb+" "+e.Path+" "+p.Name, got.Schema, p.Prim, p.Ref, false)
		}
		if len(op.Parameters) != nparams {
			viol("parameter-extra", fmt.Sprintf("%s %s has %d parameters, declared %d", e.Verb, e.Path, len(op.Parameters), nparams))
		}
		for _, rs := range e.Resps {
			code := rs.Code
			if code == "ok" {
				code = "200"
			}
			var rr *openapi3.ResponseRef
			if op.Responses != nil {
				rr = op.Responses.Value(code)
			}
			if rr == nil || rr.Value == nil {
				viol("response-missing", e.Verb+" "+e.Path+" has no response "+code)
				continue
			}
			mt := rr.Value.Content.Get("application/json")
			if mt == nil {
				viol("response-schema-missing", e.Verb+" "+e.Path+" response "+code+" has no JSON schema")
				continue
			}
			c12CheckSchema(viol, e.Verb+" "+e.Path+" response "+code, mt.Schema, rs.Prim, rs.Ref, rs.Seq)
		}
	}
}

func c12ValClass(msg string) string {
	msg = firstLine(msg)
	if i := strings.Index(msg, ":"); i > 0 && i < 60 {
		return msg[:i]
	}
	if len(msg) > 50 {
		return msg[:50]
	}
	return msg
}

func c12CheckSchema(viol func(sig, what string), where string, sr *openapi3.SchemaRef, prim, ref string, seq bool) {
	if sr == nil {
		viol("schema-absent", where+" has no schema")
		return
	}
	if seq {
		if sr.Value == nil || !sr.Value.Type.Is("array") {
			viol("array-ness-lost", where+" is a sequence but its schema is not an array")
			return
		}
		if sr.Value.Items == nil {
			viol("array-items-missing", where+" is an array without items")
			return
		}
		sr = sr.Value.Items
	} else if sr.Ref == "" && sr.Value != nil && sr.Value.Type.Is("array") {
		viol("array-ness-added", where+" is not a sequence but its schema is an array")
		return
	}
	if ref != "" {
		if sr.Ref != "#/components/schemas/"+ref {
			viol("reference-target-differs", fmt.Sprintf("%s refers to %s, its schema to %q", where, ref, sr.Ref))
		}
		return
	}
	want := xPrims[prim]
	if sr.Value == nil || !sr.Value.Type.Is(want[0]) || sr.Value.Format != want[1] {
		got := "nil"
		if sr.Value != nil {
			got = fmt.Sprint(sr.Value.Type, "/", sr.Value.Format)
		}
		viol("primitive-kind-differs:"+prim, fmt.Sprintf("%s is %s, its schema is %s", where, prim, got))
	}
}

func c12CheckSwagger(res *Result, in map[string]any, a *xApp, out []byte, mode string) {
	viol := func(sig, what string) {
		res.Violate(Violation{Sig: "swagger:" + sig, What: what, Input: in})
	}
	data := out
	if mode == "yaml" {
		j, err := yaml.YAMLToJSON(out)
		if err != nil {
			viol("output-not-well-formed:yaml", "the YAML output cannot be read")
			return
		}
		data = j
	}
	var doc struct {
		Swagger     string `json:"swagger"`
		Definitions map[string]struct {
			Properties map[string]json.RawMessage `json:"properties"`
		} `json:"definitions"`
		Paths map[string]map[string]struct {
			Parameters []struct {
				Name string `json:"name"`
				In   string `json:"in"`
			} `json:"parameters"`
			Responses map[string]json.RawMessage `json:"responses"`
		} `json:"paths"`
	}
	if err := json.Unmarshal(data, &doc); err != nil {
		viol("output-not-well-formed:"+mode, "the output cannot be read as a Swagger document: "+firstLine(err.Error()))
		return
	}
	if doc.Swagger != "2.0" {
		viol("not-swagger-2", "the document does not say swagger: 2.0")
	}
	for _, t := range a.Types {
		if t.Enum != nil {
			continue
		}
		d, ok := doc.Definitions[t.Name]
		if !ok {
			viol("definition-missing", "type "+t.Name+" has no definition")
			continue
		}
		for _, f := range t.Fields {
			if _, ok := d.Properties[f.Name]; !ok {
				viol("property-missing", "definition "+t.Name+" has no property "+f.Name)
			}
		}
	}
	for _, e := range a.Eps {
		op, ok := doc.Paths[e.Path][strings.ToLower(e.Verb)]
		if !ok {
			viol("operation-missing", "no operation for "+e.Verb+" "+e.Path)
			continue
		}
		for _, p := range e.Params {
			// the Swagger exporter reads header and body parameters from name="..", header="..",
			// body=".." attributes (its own input convention), not from ~header / ~body
			if p.In == "header" || p.In == "body" {
				continue
			}
			found := false
			for _, gp := range op.Parameters {
				found = found || (gp.Name == p.Name && gp.In == p.In)
			}
			if !found {
				viol("parameter-missing:"+p.In, e.Verb+" "+e.Path+" has no "+p.In+" parameter "+p.Name)
			}
		}
		for _, rs := range e.Resps {
			code := rs.Code
			if code == "ok" {
				continue // the Swagger exporter handles numeric status codes only
			}
			if _, ok := op.Responses[code]; !ok {
				viol("response-missing", e.Verb+" "+e.Path+" has no response "+code)
			}
		}
	}
}

func c12Reimport(res *Result, in map[string]any, a *xApp, doc []byte, name string, logger *logrus.Logger) {
	var text string
	var ierr string
	func() {
		defer func() {
			if x := recover(); x != nil {
				ierr = fmt.Sprint("panic: ", x)
			}
		}()
		imp, err := importer.Factory(name, false, "", doc, logger)
		if err != nil {
			ierr = err.Error()
			return
		}
		imp, err = imp.Configure(&importer.ImporterArg{AppName: "Shop", PackageName: "pkg"})
		if err != nil {
			ierr = err.Error()
			return
		}
		text, err = imp.Load(string(doc))
		if err != nil {
			ierr = err.Error()
		}
	}()
	if ierr != "" {
		res.Violate(Violation{Sig: "reimport-fails:" + c12ValClass(ierr), What: "the exported document cannot be imported back: " + firstLine(ierr), Input: in})
		return
	}
	m, err := compileFiles(map[string]string{"main.sysl": text}, "main.sysl")
	if err != nil {
		res.Violate(Violation{Sig: "reimport-does-not-compile", What: "the Sysl text imported from the exported document does not compile: " + firstLine(err.Error()), Input: in, Got: text})
		return
	}
	res.Count("reimport:ok")
	app := m.Apps["Shop"]
	if app == nil {
		res.Violate(Violation{Sig: "reimport-app-missing", What: "the re-imported model has no application Shop", Input: in})
		return
	}
	for _, t := range a.Types {
		rt := app.Types[t.Name]
		if rt == nil {
			res.Violate(Violation{Sig: "reimport-type-missing", What: "type " + t.Name + " is missing after export and re-import", Input: in})
			continue
		}
		if t.Enum != nil {
			continue
		}
		for _, f := range t.Fields {
			if rt.GetTuple().GetAttrDefs()[f.Name] == nil {
				res.Violate(Violation{Sig: "reimport-field-missing", What: "field " + t.Name + "." + f.Name + " is missing after export and re-import", Input: in})
			}
		}
	}
	for _, e := range a.Eps {
		if app.Endpoints[e.Verb+" "+e.Path] == nil {
			res.Violate(Violation{Sig: "reimport-endpoint-missing", What: "endpoint " + e.Verb + " " + e.Path + " is missing after export and re-import", Input: in})
		}
	}
}

var c12ModelCache = map[*xApp]map[string][]string{}
var c12ModelMu sync.Mutex

// c12ModelAnswers: the Lean model's enum value lists and required lists for the types of an application (one oracle
// run per application, reused for every format and encoding)
func c12ModelAnswers(a *xApp) map[string][]string {
	c12ModelMu.Lock()
	defer c12ModelMu.Unlock()
	if m, ok := c12ModelCache[a]; ok {
		return m
	}
	out := map[string][]string{}
	var reqs []any
	var keys []string
	for _, t := range a.Types {
		if t.Enum != nil {
			var items []any
			for k, e := range t.Enum {
				items = append(items, []any{t.Nums[k], e})
			}
			reqs = append(reqs, map[string]any{"op": "export.enum", "items": items})
			keys = append(keys, "enum:"+t.Name)
			continue
		}
		fl := []any{}
		for _, f := range t.Fields {
			fl = append(fl, []any{f.Name, f.Opt})
		}
		reqs = append(reqs, map[string]any{"op": "export.required", "fields": fl})
		keys = append(keys, "required:"+t.Name)
	}
	if rep, err := RunOracle(reqs); err == nil && len(rep) == len(keys) {
		for i, k := range keys {
			if strings.HasPrefix(k, "enum:") {
				out[k] = mstrs(rep[i], "values")
			} else {
				out[k] = mstrs(rep[i], "required")
			}
		}
	}
	c12ModelCache[a] = out
	return out
}
