package main

// C14 — integration diagrams show exactly the calls among the selected applications.
// Real code: integrationdiagram.MakeBuilderfromStmt (DepsOut / FinalApps) and
// GenerateIntegrations (PlantUML text).  Model: SyslModel.Ints (oracle op ints.build).

import (
	"fmt"
	"regexp"
	"runtime/debug"
	"sort"
	"strings"
	"time"

	"github.com/anz-bank/sysl/pkg/cmdutils"
	"github.com/anz-bank/sysl/pkg/integrationdiagram"
	"github.com/anz-bank/sysl/pkg/syslutil"
	"github.com/sirupsen/logrus"
)

// abstract call-graph description (shared with C13/C20 generators)
type gStmt struct {
	Kind string    `json:"kind"` // call | action | ret | if | else | foreach | loop | alt | group
	App  string    `json:"app,omitempty"`
	Ep   string    `json:"ep,omitempty"`
	Text string    `json:"text,omitempty"`
	Body []gStmt   `json:"body,omitempty"`
	Alts [][]gStmt `json:"alts,omitempty"`
}
type gEp struct {
	Name   string  `json:"name"`
	Hidden bool    `json:"hidden,omitempty"`
	Stmts  []gStmt `json:"stmts"`
}
type gApp struct {
	Name  string `json:"name"`
	Human bool   `json:"human,omitempty"`
	Eps   []gEp  `json:"eps"`
}
type gModel struct {
	Apps     []gApp   `json:"apps"`
	Seeds    []string `json:"seeds"`
	Excludes []string `json:"excludes"`
	Passthru []string `json:"passthru"`
	// further views of the same project, generated in the same call, with their own exclude lists
	Extra []gView `json:"extra,omitempty"`
}
type gView struct {
	Seeds    []string `json:"seeds"`
	Excludes []string `json:"excludes"`
}

func (s gStmt) render(b *strings.Builder, ind string) {
	switch s.Kind {
	case "call":
		fmt.Fprintf(b, "%s%s <- %s\n", ind, s.App, s.Ep)
	case "action":
		fmt.Fprintf(b, "%s%s\n", ind, s.Text)
	case "ret":
		fmt.Fprintf(b, "%sreturn %s\n", ind, s.Text)
	case "if":
		fmt.Fprintf(b, "%sif %s:\n", ind, s.Text)
		renderBody(b, s.Body, ind+"    ")
	case "else":
		fmt.Fprintf(b, "%selse:\n", ind)
		renderBody(b, s.Body, ind+"    ")
	case "foreach":
		fmt.Fprintf(b, "%sfor each %s:\n", ind, s.Text)
		renderBody(b, s.Body, ind+"    ")
	case "loop":
		fmt.Fprintf(b, "%swhile %s:\n", ind, s.Text)
		renderBody(b, s.Body, ind+"    ")
	case "group":
		fmt.Fprintf(b, "%s%s:\n", ind, s.Text)
		renderBody(b, s.Body, ind+"    ")
	case "alt":
		fmt.Fprintf(b, "%sone of:\n", ind)
		for i, a := range s.Alts {
			fmt.Fprintf(b, "%s    case%d:\n", ind, i)
			renderBody(b, a, ind+"        ")
		}
	}
}

func renderBody(b *strings.Builder, ss []gStmt, ind string) {
	if len(ss) == 0 {
		fmt.Fprintf(b, "%s...\n", ind)
		return
	}
	for _, s := range ss {
		s.render(b, ind)
	}
}

// calls of a statement list in source order, all statement kinds (independent of ProcessCalls)
func flattenCalls(ss []gStmt) [][2]string {
	var out [][2]string
	for _, s := range ss {
		if s.Kind == "call" {
			out = append(out, [2]string{s.App, s.Ep})
		}
		out = append(out, flattenCalls(s.Body)...)
		for _, a := range s.Alts {
			out = append(out, flattenCalls(a)...)
		}
	}
	return out
}

func genStmts(r *Rand, apps []gApp, depth int, n int) []gStmt {
	var out []gStmt
	lastIf := false
	for i := 0; i < n; i++ {
		k := r.Intn(10)
		switch {
		case k < 4:
			a := Pick(r, apps)
			ep := "missing"
			if len(a.Eps) > 0 && !r.Chance(1, 12) {
				ep = Pick(r, a.Eps).Name
			}
			out = append(out, gStmt{Kind: "call", App: a.Name, Ep: ep})
			lastIf = false
		case k == 4:
			out = append(out, gStmt{Kind: "action", Text: fmt.Sprintf("do step %d", r.Intn(50))})
			lastIf = false
		case k == 5 && depth > 0:
			out = append(out, gStmt{Kind: "if", Text: "cond", Body: genStmts(r, apps, depth-1, 1+r.Intn(2))})
			lastIf = true
			continue
		case k == 6 && depth > 0 && lastIf:
			out = append(out, gStmt{Kind: "else", Body: genStmts(r, apps, depth-1, 1+r.Intn(2))})
			lastIf = false
		case k == 7 && depth > 0:
			kind := Pick(r, []string{"foreach", "loop", "group"})
			txt := map[string]string{"foreach": "x in xs", "loop": "busy", "group": "phase"}[kind]
			out = append(out, gStmt{Kind: kind, Text: txt, Body: genStmts(r, apps, depth-1, 1+r.Intn(2))})
			lastIf = false
		case k == 8 && depth > 0:
			na := 2 + r.Intn(2)
			s := gStmt{Kind: "alt"}
			for j := 0; j < na; j++ {
				s.Alts = append(s.Alts, genStmts(r, apps, depth-1, 1+r.Intn(2)))
			}
			out = append(out, s)
			lastIf = false
		case k == 9 && r.Bool():
			// a return anywhere in a statement list: what follows it is still part of the endpoint
			out = append(out, gStmt{Kind: "ret", Text: Pick(r, []string{"ok <: string", "error", "ok <: Order"})})
			lastIf = false
		default:
			out = append(out, gStmt{Kind: "action", Text: "note"})
			lastIf = false
		}
	}
	return out
}

func genCallModel(r *Rand, nApps int) *gModel {
	m := &gModel{}
	names := []string{"Alpha", "Beta", "Gamma", "Delta", "Eps", "Zeta", "Eta", "Theta", "Iota"}
	for i := 0; i < nApps; i++ {
		a := gApp{Name: names[i], Human: r.Chance(1, 10)}
		ne := 1 + r.Intn(3)
		for e := 0; e < ne; e++ {
			a.Eps = append(a.Eps, gEp{Name: fmt.Sprintf("%sOp%d", strings.ToLower(names[i][:1]), e), Hidden: r.Chance(1, 8)})
		}
		m.Apps = append(m.Apps, a)
	}
	for i := range m.Apps {
		for e := range m.Apps[i].Eps {
			m.Apps[i].Eps[e].Stmts = genStmts(r, m.Apps, 3, 1+r.Intn(4))
		}
	}
	for _, a := range m.Apps {
		if r.Chance(1, 2) {
			m.Seeds = append(m.Seeds, a.Name)
		}
		if r.Chance(1, 6) {
			m.Excludes = append(m.Excludes, a.Name)
		}
		if r.Chance(1, 3) {
			m.Passthru = append(m.Passthru, a.Name)
		}
	}
	if len(m.Seeds) == 0 {
		m.Seeds = []string{m.Apps[0].Name}
	}
	if r.Chance(1, 8) {
		m.Seeds = append(m.Seeds, "NoSuchApp") // a listed name that is not an application
	}
	// other views of the same project with different exclude lists (never excluding a listed app)
	if r.Chance(1, 2) {
		nv := 1 + r.Intn(2)
		for v := 0; v < nv; v++ {
			gv := gView{Seeds: append([]string{}, m.Seeds...)}
			for _, a := range m.Apps {
				listed := false
				for _, sd := range gv.Seeds {
					if sd == a.Name {
						listed = true
					}
				}
				if !listed && r.Chance(1, 3) {
					gv.Excludes = append(gv.Excludes, a.Name)
				}
			}
			m.Extra = append(m.Extra, gv)
		}
	}
	// mostly keep listed applications off the exclude list (the excluded point is sampled too)
	if !r.Chance(1, 10) {
		var ex []string
		for _, e := range m.Excludes {
			keep := true
			for _, s := range m.Seeds {
				if s == e {
					keep = false
				}
			}
			if keep {
				ex = append(ex, e)
			}
		}
		m.Excludes = ex
	}
	return m
}

func (m *gModel) text() string {
	var b strings.Builder
	for _, a := range m.Apps {
		at := ""
		if a.Human {
			at = " [~human]"
		}
		fmt.Fprintf(&b, "%s%s:\n", a.Name, at)
		for _, e := range a.Eps {
			at := ""
			if e.Hidden {
				at = " [~hidden]"
			}
			fmt.Fprintf(&b, "    %s%s:\n", e.Name, at)
			renderBody(&b, e.Stmts, "        ")
		}
	}
	q := func(xs []string) string {
		var p []string
		for _, x := range xs {
			p = append(p, fmt.Sprintf("%q", x))
		}
		return "[" + strings.Join(p, ", ") + "]"
	}
	var attrs []string
	// always give an explicit exclude list: with none, the command excludes the project app itself
	attrs = append(attrs, "exclude="+q(append([]string{"Project"}, m.Excludes...)))
	if len(m.Passthru) > 0 {
		attrs = append(attrs, "passthrough="+q(m.Passthru))
	}
	fmt.Fprintf(&b, "Project [appfmt=\"%%(appname)\"]:\n    Proj [%s]:\n", strings.Join(attrs, ", "))
	for _, s := range m.Seeds {
		fmt.Fprintf(&b, "        %s\n", s)
	}
	for i, v := range m.Extra {
		fmt.Fprintf(&b, "    View%d [exclude=%s]:\n", i, q(append([]string{"Project"}, v.Excludes...)))
		for _, s := range v.Seeds {
			fmt.Fprintf(&b, "        %s\n", s)
		}
	}
	return b.String()
}

func c14StmtTree(ss []gStmt) []any {
	out := []any{}
	for _, s := range ss {
		switch s.Kind {
		case "call":
			out = append(out, map[string]any{"k": "call", "app": s.App, "ep": s.Ep})
		case "ret":
			out = append(out, map[string]any{"k": "ret"})
		case "alt":
			var alts []any
			for _, a := range s.Alts {
				alts = append(alts, c14StmtTree(a))
			}
			out = append(out, map[string]any{"k": "alt", "alts": alts})
		case "if", "else", "foreach", "loop", "group":
			out = append(out, map[string]any{"k": "block", "body": c14StmtTree(s.Body)})
		default:
			out = append(out, map[string]any{"k": "action"})
		}
	}
	return out
}

func (m *gModel) oracleReq() map[string]any {
	apps := append([]gApp{}, m.Apps...)
	apps = append(apps, gApp{Name: "Project", Eps: []gEp{{Name: "Proj"}}})
	sort.Slice(apps, func(i, j int) bool { return apps[i].Name < apps[j].Name })
	var ja []any
	for _, a := range apps {
		eps := append([]gEp{}, a.Eps...)
		sort.Slice(eps, func(i, j int) bool { return eps[i].Name < eps[j].Name })
		var je []any
		for _, e := range eps {
			// the statement tree itself: which calls an endpoint makes is the model's own reading of it (Ints.flatL)
			je = append(je, map[string]any{"name": e.Name, "hidden": e.Hidden, "stmts": c14StmtTree(e.Stmts)})
		}
		ja = append(ja, map[string]any{"name": a.Name, "human": a.Human, "eps": je})
	}
	return map[string]any{"op": "ints.build", "apps": ja, "seeds": m.Seeds,
		"excludes": append([]string{"Project"}, m.Excludes...), "passthru": m.Passthru}
}

func (m *gModel) hasPassthruCycle() bool {
	pt := map[string]bool{}
	for _, p := range m.Passthru {
		pt[p] = true
	}
	// edges among pass-through apps
	adj := map[string][]string{}
	for _, a := range m.Apps {
		if !pt[a.Name] {
			continue
		}
		for _, e := range a.Eps {
			for _, c := range flattenCalls(e.Stmts) {
				if pt[c[0]] {
					adj[a.Name] = append(adj[a.Name], c[0])
				}
			}
		}
	}
	state := map[string]int{}
	var dfs func(x string) bool
	dfs = func(x string) bool {
		state[x] = 1
		for _, y := range adj[x] {
			if state[y] == 1 || (state[y] == 0 && dfs(y)) {
				return true
			}
		}
		state[x] = 2
		return false
	}
	for x := range adj {
		if state[x] == 0 && dfs(x) {
			return true
		}
	}
	return false
}

var (
	reAlias = regexp.MustCompile(`^\[(.*)\] as (_\d+)( <<highlight>>)?$`)
	reArrow = regexp.MustCompile(`^(_\d+) --> (_\d+)( <<indirect>>)?$`)
)

func parseIntsArrows(text string) (arrows [][2]string, ok bool) {
	alias := map[string]string{}
	for _, ln := range strings.Split(text, "\n") {
		ln = strings.TrimSpace(ln)
		if m := reAlias.FindStringSubmatch(ln); m != nil {
			alias[m[2]] = m[1]
		}
		if m := reArrow.FindStringSubmatch(ln); m != nil {
			a, okA := alias[m[1]]
			b, okB := alias[m[2]]
			if !okA || !okB {
				return nil, false
			}
			arrows = append(arrows, [2]string{a, b})
		}
	}
	return arrows, true
}

var (
	reEpaApp   = regexp.MustCompile(`^state "([^"]*)" as (X_\d+)`)
	reEpaState = regexp.MustCompile(`^state "[^"]*" as (_\d+)`)
	reEpaArrow = regexp.MustCompile(`^(_\d+) -\[#\w+\]-*> (_\d+)`)
)

// parseEpaArrows: the endpoint-analysis view nests endpoint states in application states; an arrow between states
// of two applications is a call drawn from the first to the second
func parseEpaArrows(text string) (arrows [][2]string, ok bool) {
	appOf := map[string]string{}
	cur := ""
	seen := map[[2]string]bool{}
	for _, ln := range strings.Split(text, "\n") {
		ln = strings.TrimSpace(ln)
		if m := reEpaApp.FindStringSubmatch(ln); m != nil {
			cur = m[1]
			continue
		}
		if ln == "}" {
			cur = ""
			continue
		}
		if m := reEpaState.FindStringSubmatch(ln); m != nil && cur != "" {
			appOf[m[1]] = cur
			continue
		}
		if m := reEpaArrow.FindStringSubmatch(ln); m != nil {
			a, okA := appOf[m[1]]
			b, okB := appOf[m[2]]
			if !okA || !okB {
				return nil, false
			}
			if a != b && !seen[[2]string{a, b}] {
				seen[[2]string{a, b}] = true
				arrows = append(arrows, [2]string{a, b})
			}
		}
	}
	return arrows, true
}

// c14Frame: the first sysl frame of a stack below the panic
func c14Frame(stack string) string {
	past := false
	for _, l := range strings.Split(stack, "\n") {
		if strings.HasPrefix(l, "panic(") {
			past = true
			continue
		}
		if past {
			if f := reC20Frame.FindStringSubmatch(l); f != nil && !strings.HasPrefix(l, "\t") {
				return f[1]
			}
		}
	}
	return "?"
}

func init() { runners["C14"] = runC14 }

func runC14(res *Result, tier string, rnd *Rand, replay string) {
	res.Rule = "generated models: 2..9 applications, 1..3 endpoints each, calls nested in if/else, for each, while, groups and alternatives (depth <= 3), human applications, hidden endpoints, calls to missing endpoints; project endpoint listing a random subset (sometimes a name that is no application), exclude and pass-through sets (cyclic pass-through chains included; listed-and-excluded sampled at 10%); non-trivial = at least one nested call and a non-empty pass-through or exclude set; distinct by model text"
	n := 300
	if tier == "thorough" {
		n = 8000
	}
	var models []*gModel
	if replay != "" {
		var rp struct {
			Input *gModel `json:"input"`
		}
		readJSON(replay, &rp)
		models = []*gModel{rp.Input}
	} else {
		models = append(models, c14Corpus()...)
		for i := 0; i < n; i++ {
			models = append(models, genCallModel(rnd, 2+rnd.Intn(8)))
		}
	}
	logger := logrus.New()
	logger.SetLevel(logrus.PanicLevel)
	type obs struct {
		m              *gModel
		deps           [][]string
		final          []string
		arrows         [][2]string
		clustered, epa string
		views          map[string]string
	}
	var all []obs
	var reqs []any
	for _, m := range models {
		m := m
		txt := m.text()
		mod, err := compileFiles(map[string]string{"main.sysl": txt}, "main.sysl")
		if err != nil {
			res.Count("generated-not-compiling")
			res.Note("not compiling: %v", err)
			continue
		}
		o := obs{m: m}
		type out struct {
			deps   [][]string
			final  []string
			text   string
			views  map[string]string
			panicv string
			// the other two renderings of the main view
			clustered, epa string
		}
		ch := make(chan out, 1)
		done := Track(m)
		go func() {
			var r out
			defer func() {
				if x := recover(); x != nil {
					r.panicv = fmt.Sprint(x) + " at " + c14Frame(string(debug.Stack()))
				}
				ch <- r
			}()
			ep := mod.Apps["Project"].Endpoints["Proj"]
			b := integrationdiagram.MakeBuilderfromStmt(mod, ep.GetStmt(),
				syslutil.MakeStrSet(append([]string{"Project"}, m.Excludes...)...), syslutil.MakeStrSet(m.Passthru...))
			for _, d := range b.DepsOut {
				r.deps = append(r.deps, []string{d.Self.Name, d.Self.Endpoint, d.Target.Name, d.Target.Endpoint})
			}
			r.final = b.FinalApps
			params := &cmdutils.CmdContextParamIntgen{Title: "t", Output: "%(epname).png", Project: "Project"}
			views, err := integrationdiagram.GenerateIntegrations(params, mod, logger)
			if err == nil {
				r.text = views["Proj.png"]
				r.views = views
			}
			// the same view drawn clustered and as an endpoint analysis
			pc := &cmdutils.CmdContextParamIntgen{Title: "t", Output: "%(epname).png", Project: "Project", Clustered: true}
			if vc, err := integrationdiagram.GenerateIntegrations(pc, mod, logger); err == nil {
				r.clustered = vc["Proj.png"]
			}
			pe := &cmdutils.CmdContextParamIntgen{Title: "t", Output: "%(epname).png", Project: "Project", EPA: true}
			if ve, err := integrationdiagram.GenerateIntegrations(pe, mod, logger); err == nil {
				r.epa = ve["Proj.png"]
			}
		}()
		var r out
		select {
		case r = <-ch:
			done()
		case <-time.After(30 * time.Second):
			// leave the job tracked: the watchdog / driver will isolate it
			res.Violate(Violation{Sig: "diverges", What: "integration diagram generation did not return within 30 s", Input: m})
			continue
		}
		if r.panicv != "" {
			res.Violate(Violation{Sig: "panic:" + firstLine(r.panicv), What: "integration diagram generation panicked: " + r.panicv, Input: m})
			continue
		}
		o.deps, o.final = r.deps, r.final
		ar, ok := parseIntsArrows(r.text)
		if !ok {
			res.Disagree(Disagreement{Input: m, What: "PlantUML arrow uses an undeclared alias", Impl: r.text})
		}
		o.arrows = ar
		o.views = r.views
		o.clustered, o.epa = r.clustered, r.epa
		all = append(all, o)
		reqs = append(reqs, m.oracleReq())
		nested := strings.Contains(txt, "            ")
		res.Eval(txt, nested && (len(m.Passthru) > 0 || len(m.Excludes) > 0))
		if m.hasPassthruCycle() {
			res.Count("passthrough-cycle")
		}
	}
	reps, err := RunOracleChunks(reqs, 8)
	if err != nil {
		res.Disagree(Disagreement{What: "oracle failed: " + err.Error()})
		return
	}
	for i, o := range all {
		rep := reps[i]
		res.Traces++
		// ---- correspondence: DepsOut and FinalApps equal to the model's, in order ----
		md := fmt.Sprint(rep["deps"])
		id := fmt.Sprint(anyOf(o.deps))
		if md != id {
			res.Disagree(Disagreement{Input: o.m, What: "DepsOut differs", Model: rep["deps"], Impl: o.deps})
		}
		if fmt.Sprint(rep["final"]) != fmt.Sprint(anyStrs(o.final)) {
			res.Disagree(Disagreement{Input: o.m, What: "FinalApps differs", Model: rep["final"], Impl: o.final})
		}
		// ---- direct oracle on the PlantUML arrows, for every view generated in the call ----
		c14DirectView(res, o.m, o.m.Seeds, o.m.Excludes, o.arrows)
		if o.clustered != "" {
			if ar, ok := parseIntsArrows(o.clustered); ok {
				res.Count("view:clustered")
				c14DirectView(res, o.m, o.m.Seeds, o.m.Excludes, ar)
			} else {
				res.Disagree(Disagreement{Input: o.m, What: "clustered view: arrow uses an undeclared alias", Impl: o.clustered})
			}
		}
		if o.epa != "" {
			if ar, ok := parseEpaArrows(o.epa); ok {
				res.Count("view:epa")
				c14DirectView(res, o.m, o.m.Seeds, o.m.Excludes, ar)
			} else {
				res.Disagree(Disagreement{Input: o.m, What: "endpoint-analysis view: arrow uses an undeclared state", Impl: o.epa})
			}
		}
		for vi, v := range o.m.Extra {
			txt, ok := o.views[fmt.Sprintf("View%d.png", vi)]
			if !ok {
				res.Disagree(Disagreement{Input: o.m, What: fmt.Sprintf("view View%d missing from the output", vi)})
				continue
			}
			ar, ok := parseIntsArrows(txt)
			if !ok {
				res.Disagree(Disagreement{Input: o.m, What: "PlantUML arrow uses an undeclared alias", Impl: txt})
			}
			c14DirectView(res, o.m, v.Seeds, v.Excludes, ar)
			res.Count("extra-views")
		}
		if i%(len(all)/4+1) == 0 {
			res.Sample(map[string]any{"seeds": o.m.Seeds, "excludes": o.m.Excludes, "passthru": o.m.Passthru, "deps": o.deps, "arrows": o.arrows})
		}
	}
}

// c14DirectView: the property itself on the arrows of one view (model-free)
func c14DirectView(res *Result, m *gModel, viewSeeds, viewExcl []string, arrows [][2]string) {
	calls := map[[2]string]bool{}
	for _, a := range m.Apps {
		for _, e := range a.Eps {
			for _, c := range flattenCalls(e.Stmts) {
				calls[[2]string{a.Name, c[0]}] = true
			}
		}
	}
	excl := map[string]bool{"Project": true}
	for _, e := range viewExcl {
		excl[e] = true
	}
	seedExcluded := false
	seeds := map[string]bool{}
	appBy := map[string]*gApp{}
	for k := range m.Apps {
		appBy[m.Apps[k].Name] = &m.Apps[k]
	}
	for _, s := range viewSeeds {
		if a := appBy[s]; a != nil && !a.Human {
			seeds[s] = true
			if excl[s] {
				seedExcluded = true
			}
		}
	}
	drawn := map[[2]string]bool{}
	for _, ar := range arrows {
		drawn[ar] = true
		if !calls[ar] {
			res.Violate(Violation{Sig: "arrow-without-call", What: fmt.Sprintf("arrow %s --> %s has no call statement behind it", ar[0], ar[1]), Input: m})
		}
		if excl[ar[0]] || excl[ar[1]] {
			sig := "arrow-touches-excluded"
			if seedExcluded && ((seeds[ar[0]] && excl[ar[0]]) || (seeds[ar[1]] && excl[ar[1]])) &&
				!(excl[ar[0]] && !seeds[ar[0]]) && !(excl[ar[1]] && !seeds[ar[1]]) {
				// the only excluded end(s) of the arrow are applications the project view lists itself
				sig = "arrow-touches-listed-and-excluded-application"
			}
			res.Violate(Violation{Sig: sig, What: fmt.Sprintf("arrow %s --> %s touches an excluded application", ar[0], ar[1]), Input: m})
		}
	}
	for s := range seeds {
		a := appBy[s]
		for _, e := range a.Eps {
			for _, c := range flattenCalls(e.Stmts) {
				t := appBy[c[0]]
				if t == nil || c[0] == s || excl[c[0]] || t.Human {
					continue
				}
				hidden := false
				for _, te := range t.Eps {
					if te.Name == c[1] && te.Hidden {
						hidden = true
					}
				}
				if hidden {
					continue
				}
				if !drawn[[2]string{s, c[0]}] {
					res.Violate(Violation{Sig: "call-not-drawn", What: fmt.Sprintf("call %s -> %s <- %s from a listed application is not drawn", s, c[0], c[1]), Input: m})
				}
			}
		}
	}
}

func c14Corpus() []*gModel {
	// a pass-through cycle A -> B -> A reachable from a seed
	call := func(a, e string) gStmt { return gStmt{Kind: "call", App: a, Ep: e} }
	return []*gModel{{
		Apps: []gApp{
			{Name: "Alpha", Eps: []gEp{{Name: "aOp0", Stmts: []gStmt{call("Beta", "bOp0")}}}},
			{Name: "Beta", Eps: []gEp{{Name: "bOp0", Stmts: []gStmt{call("Gamma", "gOp0")}}}},
			{Name: "Gamma", Eps: []gEp{{Name: "gOp0", Stmts: []gStmt{call("Beta", "bOp0"), call("Delta", "dOp0")}}}},
			{Name: "Delta", Eps: []gEp{{Name: "dOp0", Stmts: []gStmt{{Kind: "action", Text: "done"}}}}},
		},
		Seeds: []string{"Alpha"}, Passthru: []string{"Beta", "Gamma"},
	}}
}

func firstLine(s string) string {
	if i := strings.Index(s, "\n"); i >= 0 {
		s = s[:i]
	}
	if len(s) > 80 {
		s = s[:80]
	}
	return s
}

func anyOf(xs [][]string) any {
	out := make([]any, len(xs))
	for i, x := range xs {
		out[i] = anyStrs(x)
	}
	return out
}

func anyStrs(xs []string) any {
	out := make([]any, len(xs))
	for i, x := range xs {
		out[i] = x
	}
	return out
}
