package main

// C09 — serialised models round-trip, and importing a compiled model reproduces it.
// Real code: pbutil encoders/decoders and parse.Parser on `import x.pb|.pb.json|.textpb`.
// Model: SyslModel.JsonClean (the clean-up the JSON encoder's bytes go through), oracle op
// jsonclean.clean; Expect.C09 ties the pattern text and the decoder suffixes to the source.

import (
	"bytes"
	"encoding/json"
	"fmt"
	"strings"

	"github.com/anz-bank/sysl/pkg/pbutil"
	"github.com/anz-bank/sysl/pkg/sysl"
	"google.golang.org/protobuf/encoding/protojson"
	"google.golang.org/protobuf/proto"
	"google.golang.org/protobuf/reflect/protoreflect"
)

// attribute values that look like JSON syntax
var c09Nasty = []string{
	`plain`, `with "quotes"`, `back\slash`, "two\nlines", `tab	here`, `üñí ✓ 漢`, `"key":  value`, `x":  y`, `": `, `a":   b`,
	`{"a":  1}`, `["x",  "y"]`, ` leading`, `trailing `, `"`, `\"`, `\\":  `, `: `, `"":  `, "line1\n\"k\":  v",
}

// c09NastyText: a short text put together from the characters JSON's own syntax is made of, so that whatever a
// clean-up of the encoder's bytes looks for (a separator, a key, a brace, a run of spaces) also occurs
// inside, at the start and at the end of a string value
func c09NastyText(r *Rand) string {
	if r.Chance(1, 3) {
		return Pick(r, c09Nasty)
	}
	toks := []string{`"`, `,`, `:`, ` `, `  `, `{`, `}`, `[`, `]`, `\`, `a`, `k`, "\n", "\t", `, `, `: `, `", "`, `":`}
	var b strings.Builder
	for i := 0; i < 1+r.Intn(5); i++ {
		b.WriteString(Pick(r, toks))
	}
	return b.String()
}

func c09Models(rnd *Rand, tier string) []struct {
	name string
	mod  *sysl.Module
	text string
} {
	var out []struct {
		name string
		mod  *sysl.Module
		text string
	}
	n := 25
	if tier == "thorough" {
		n = 400
	}
	for i := 0; i < n; i++ {
		r := rnd.Fork()
		d := genDFile(r, tier)
		// sprinkle attribute values that look like JSON
		for ai := range d.Apps {
			a := &d.Apps[ai]
			if r.Chance(2, 3) {
				a.Attrs.KV = append(a.Attrs.KV, dKV{K: fmt.Sprintf("n%d", ai), V: dAttrVal{S: c09NastyText(r)}})
			}
			if r.Chance(1, 2) {
				v := dAttrVal{Arr: true}
				for k := 0; k < 1+r.Intn(3); k++ {
					v.A = append(v.A, dAttrVal{S: c09NastyText(r)})
				}
				a.Attrs.KV = append(a.Attrs.KV, dKV{K: fmt.Sprintf("arr%d", ai), V: v})
			}
		}
		// an application (and a field) whose name is key-like text, written URL-escaped
		if r.Chance(1, 2) {
			ai := r.Intn(len(d.Apps))
			old := appKey(d.Apps[ai].Parts)
			if len(d.Apps[ai].Mixins) == 0 && !c09Referenced(d, old) {
				d.Apps[ai].Parts = []string{Pick(r, []string{`K":  v`, `a": `, `x\":   y`})}
			}
		}
		text := renderDFileC09(d, r.Fork())
		m, err := compileFiles(map[string]string{"main.sysl": text}, "main.sysl")
		if err != nil {
			continue
		}
		out = append(out, struct {
			name string
			mod  *sysl.Module
			text string
		}{fmt.Sprintf("gen%d", i), m, text})
	}
	// names that are key-like text, written URL-escaped
	for i, nm := range []string{"K%22%3A%20%20v", "a%22%3A%20%20", "x%5C%22%3A%20%20%20y"} {
		text := nm + " [~x]:\n    !type T%22%3A%20%20t:\n        f%22%3A%20%20g <: int\n    Op:\n        " + nm + " <- Op\n"
		if m, err := compileFiles(map[string]string{"main.sysl": text}, "main.sysl"); err == nil {
			out = append(out, struct {
				name string
				mod  *sysl.Module
				text string
			}{fmt.Sprintf("keylike%d", i), m, text})
		}
	}
	return out
}

// the renderer quotes with ' or "; values containing both, or newlines, need escapes the surface
// syntax writes as \" \n \\ inside double quotes
func renderDFileC09(d *dFile, r *Rand) string {
	c09EscapeMode = true
	defer func() { c09EscapeMode = false }()
	return renderDFile(d, r)
}

var c09EscapeMode bool

func stripLocs(m protoreflect.ProtoMessage) protoreflect.ProtoMessage {
	c := proto.Clone(m)
	stripSourceContexts(c.ProtoReflect())
	return c
}

func init() { runners["C09"] = runC09 }

func runC09(res *Result, tier string, rnd *Rand, replay string) {
	res.Rule = "models compiled from generated specifications (C02 generator plus attribute values with quotes, backslashes, newlines, tabs, non-ASCII and key-like text such as `x\":  y`) and from the repository's test models x {pb, json, textpb} x {indented, compact} x {decode directly, re-import through an import statement}; non-trivial = a model with at least one application; distinct by (model, encoding, mode, path)"
	models := c09Models(rnd, tier)
	// corpus models
	nc := 25
	if tier == "thorough" {
		nc = 300
	}
	for _, f := range corpusSysl() {
		if nc == 0 {
			break
		}
		if !strings.Contains(f, "/tests/") {
			continue
		}
		sp := &c07Spec{Dir: dirOf(f), Root: baseOf(f)}
		var m *sysl.Module
		func() {
			defer func() { _ = recover() }()
			m = sp.module()
		}()
		if m == nil {
			continue
		}
		nc--
		models = append(models, struct {
			name string
			mod  *sysl.Module
			text string
		}{strings.TrimPrefix(f, repoRoot+"/"), m, ""})
	}
	var reqs []any
	type pend struct {
		name string
		raw  []byte
		got  []byte
		in   map[string]any
	}
	var pends []pend
	for _, md := range models {
		in := map[string]any{"model": md.name, "text": md.text}
		// ---- direct decode of every encoding ----
		for _, compact := range []bool{false, true} {
			opt := pbutil.OutputOptions{Compact: compact}
			mode := "indented"
			if compact {
				mode = "compact"
			}
			var jb, tb, bb bytes.Buffer
			_ = pbutil.FJSONPBWithOpt(&jb, md.mod, opt)
			_ = pbutil.FTextPBWithOpt(&tb, md.mod, opt)
			_ = pbutil.GeneratePBBinaryMessage(&bb, md.mod)
			for _, enc := range []struct {
				name, path string
				b          []byte
			}{{"json", "m.pb.json", jb.Bytes()}, {"textpb", "m.textpb", tb.Bytes()}, {"pb", "m.pb", bb.Bytes()}} {
				if enc.name == "pb" && compact {
					continue
				}
				key := md.name + "\x00" + enc.name + "\x00" + mode + "\x00direct"
				res.Eval(key, len(md.mod.Apps) > 0)
				res.Traces++
				res.Count("encoding:" + enc.name + ":" + mode)
				if enc.name == "json" && !json.Valid(enc.b) {
					res.Violate(Violation{Sig: "json-not-well-formed:" + mode, What: "the JSON output is not well-formed JSON", Input: in})
					continue
				}
				back, err := pbutil.FromPBByteContents(enc.path, enc.b)
				if err != nil {
					res.Violate(Violation{Sig: "decode-fails:" + enc.name + ":" + mode, What: "the emitted " + enc.name + " cannot be decoded: " + firstLine(err.Error()), Input: in})
					continue
				}
				want, got := protoreflect.ProtoMessage(md.mod), protoreflect.ProtoMessage(back)
				if enc.name == "json" && compact {
					want, got = stripLocs(want), stripLocs(got)
				}
				if !proto.Equal(want, got) {
					w, g := dumpModuleRows(want), dumpModuleRows(got)
					mi, ex := diffSorted(w, g)
					res.Violate(Violation{Sig: "roundtrip-differs:" + enc.name + ":" + mode, What: "decoding the emitted " + enc.name + " gives a different model", Input: in, Want: head(mi, 6), Got: head(ex, 6)})
				}
			}
			// the clean-up of the JSON bytes against the model (indented mode: that is where the pattern applies)
			if !compact {
				raw, err := protojson.MarshalOptions{Multiline: true, Indent: " "}.Marshal(md.mod)
				if err == nil {
					reqs = append(reqs, map[string]any{"op": "jsonclean.clean", "text": string(raw)})
					pends = append(pends, pend{md.name, raw, jb.Bytes(), in})
				}
			}
		}
		// ---- re-import through an import statement ----
		for _, enc := range []struct{ name, file string }{{"pb", "orig.pb"}, {"json", "orig.pb.json"}, {"textpb", "orig.textpb"}} {
			var b bytes.Buffer
			switch enc.name {
			case "pb":
				_ = pbutil.GeneratePBBinaryMessage(&b, md.mod)
			case "json":
				_ = pbutil.FJSONPB(&b, md.mod)
			default:
				_ = pbutil.FTextPB(&b, md.mod)
			}
			key := md.name + "\x00" + enc.name + "\x00reimport"
			res.Eval(key, len(md.mod.Apps) > 0)
			res.Traces++
			res.Count("reimport:" + enc.name)
			var re *sysl.Module
			var rerr string
			func() {
				defer func() {
					if x := recover(); x != nil {
						rerr = fmt.Sprint("panic: ", x)
					}
				}()
				m2, err := compileFiles(map[string]string{"main.sysl": "import " + enc.file + "\n", enc.file: b.String()}, "main.sysl")
				if err != nil {
					rerr = err.Error()
					return
				}
				re = m2
			}()
			if rerr != "" {
				res.Violate(Violation{Sig: "reimport-fails:" + enc.name + ":" + c01Site(rerr), What: "a specification that only imports the compiled model does not compile: " + firstLine(rerr), Input: in})
				continue
			}
			w := c04Rows(dumpModuleRows(md.mod))
			g := c04Rows(dumpModuleRows(re))
			mi, ex := diffSorted(w, g)
			if len(mi)+len(ex) > 0 {
				row, sig := "", "reimport-loses:"
				if len(mi) > 0 {
					row = mi[0]
				} else {
					row, sig = ex[0], "reimport-adds:"
				}
				res.Violate(Violation{Sig: sig + abstractRow(row), What: "importing the compiled model (" + enc.name + ") gives different applications from the original sources", Input: in, Want: head(mi, 6), Got: head(ex, 6)})
			}
		}
	}
	outs, err := RunOracleChunks(reqs, workers(8))
	if err != nil {
		res.Disagree(Disagreement{What: "oracle failed: " + err.Error()})
		return
	}
	for i, p := range pends {
		if mstr(outs[i], "text") != string(p.got) {
			res.Disagree(Disagreement{What: "the model's clean-up of the encoder's bytes differs from the bytes FJSONPB wrote", Input: p.in, Model: firstDiffLine(mstr(outs[i], "text"), string(p.got))})
		} else {
			res.Count("clean:agree")
		}
	}
	res.Sample(map[string]any{"models": len(models)})
}

func dirOf(p string) string  { return p[:strings.LastIndex(p, "/")] }
func baseOf(p string) string { return p[strings.LastIndex(p, "/")+1:] }

// c09Referenced: some other declaration names the application (renaming it would break the reference)
func c09Referenced(d *dFile, name string) bool {
	js, _ := json.Marshal(d)
	return strings.Count(string(js), strings.ReplaceAll(name, " :: ", `","`)) > 1 || len(d.Apps) > 1 && strings.Contains(name, " :: ")
}
