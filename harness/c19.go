package main

// C19 — every generator is deterministic: same model, byte-identical output.
// Real code: every library entry point that produces output, called repeatedly in-process
// (Go re-randomises map iteration order per loop) and, for the CLI, as separate processes.
// Model: SyslModel.Range (permutation laws) + Expect.C19 over the typed census of range-over-map
// sites regenerated from the generator packages.

import (
	"bytes"
	"fmt"
	"os"
	"os/exec"
	"path/filepath"
	"runtime/debug"
	"sort"
	"strings"
	"sync"

	"context"
	"github.com/anz-bank/sysl/pkg/arrai/relmod"
	"github.com/anz-bank/sysl/pkg/cmdutils"
	"github.com/anz-bank/sysl/pkg/database"
	"github.com/anz-bank/sysl/pkg/datamodeldiagram"
	"github.com/anz-bank/sysl/pkg/exporter"
	"github.com/anz-bank/sysl/pkg/importer"
	"github.com/anz-bank/sysl/pkg/integrationdiagram"
	mdata "github.com/anz-bank/sysl/pkg/mermaid/datamodeldiagram"
	mepa "github.com/anz-bank/sysl/pkg/mermaid/endpointanalysisdiagram"
	mints "github.com/anz-bank/sysl/pkg/mermaid/integrationdiagram"
	msd "github.com/anz-bank/sysl/pkg/mermaid/sequencediagram"
	"github.com/anz-bank/sysl/pkg/pbutil"
	"github.com/anz-bank/sysl/pkg/sequencediagram"
	"github.com/anz-bank/sysl/pkg/sysl"
	"github.com/anz-bank/sysl/pkg/syslutil"
	"github.com/anz-bank/sysl/pkg/syslwrapper"
	"github.com/sirupsen/logrus"
	"google.golang.org/protobuf/proto"
	"github.com/spf13/afero"
)

const c19Rich = `Shop [owner="alice", team="red", ~web]:
    !type Order:
        id <: int
        items <: sequence of Item
        status <: Status
        note <: string?
        buyer <: Customer
        ship <: Depot.Parcel?
    !type Item:
        sku <: string
        qty <: int
        price <: decimal?
        tags <: set of string
    !type Customer:
        name <: string
        email <: string
        age <: int?
        prev <: Order?
    !enum Status:
        NEW: 1
        PAID: 2
        SENT: 3
        LOST: 4
    !enum Dup:
        ALPHA: 1
        BETA: 1
        GAMMA: 2
        DELTA: 2
    !alias Skus:
        sequence of string
    !table Stock:
        sku <: string(20) [~pk]
        qty <: int
        depot <: string?
    !table Move:
        id <: int [~pk, ~autoinc]
        sku <: Stock.sku
        by <: string
        at <: date
    /orders/{id <: int}:
        GET ?limit=int&offset=int&q=string?:
            Bank <- Charge
            Depot <- Pick
            return ok <: Order
            return error <: string
        POST (body <: Order [~body]):
            Bank <- Refund
            return ok <: Order
            return 404 <: string
    /customers:
        GET:
            return ok <: sequence of Customer
            return 200 <: Order
            return fail <: string
            return oops <: Item
    Ship:
        Bank <- Charge [~tls, ~json, ~async, ~retry]
        Depot <- Pick [~grpc, ~mtls, ~batch]
        if urgent:
            Depot <- Rush
        return ok <: Order
Bank [team="blue", owner="bob", ~db, ~external, ~file]:
    !type Receipt:
        ref <: string
        amount <: decimal
    Charge [~rest, ~idempotent, ~audited, ~pci]:
        Ledger <- Post
        return ok <: Receipt
    Refund:
        Ledger <- Post
Depot [team="red", owner="carol"]:
    !type Parcel:
        weight <: int
        to <: string
    Pick:
        Shop <- Ship
    Rush:
        ...
Ledger [team="blue", ~topic, ~ui, ~cron]:
    Post:
        ...
Web [team="green", owner="dan"]:
    !type Page:
        title <: string
        body <: string?
        hits <: int
    !type Err:
        code <: int
        msg <: string
    /pages/{id <: int}:
        GET ?lang=string&raw=bool?:
            return ok <: Page
            return 404 <: Err
            return 500 <: Err
        DELETE:
            return ok <: string
    /pages:
        POST (p <: Page [~body]):
            return 201 <: Page
            return 400 <: Err
    !type Bag:
        items <: sequence of string
        extra <: set of int
    !type Box:
        items <: set of int
        extra <: sequence of string
    /foo%20bar:
        GET:
            | first
            return ok <: string
    /foo%20baz:
        GET:
            | second
            return ok <: int
A :: X:
    Run:
        B :: X <- Run
        B :: Y <- Run
A :: Y:
    Run:
        B :: Y <- Run
B :: X:
    Run:
        ...
B :: Y:
    Run:
        ...
C :: X:
    Run:
        A :: X <- Run
C :: Y:
    Run:
        A :: Y <- Run
a%2Fb:
    E1:
        ...
a :: b:
    E2:
        ...
SeqProject [seqtitle="%(epname) %(@release)"]:
    Alpha:
        Shop <- Ship
    Mid [groupby="team"]:
        Shop <- Ship
        Bank <- Charge
    Zeta [release="R9", blackboxes=[["Bank <- Charge", "hidden"]]]:
        Shop <- Ship
Project [appfmt="%(appname)", epfmt="%(patterns)"]:
    Proj:
        Shop
        Bank
        Depot
    Money [exclude=["Depot"]]:
        Bank
        Ledger
    Clusters:
        A :: X
        A :: Y
        B :: X
        B :: Y
        C :: X
        C :: Y
`

type c19Gen struct {
	name string
	run  func(m *sysl.Module) (string, error)
}

func c19Generators(logger *logrus.Logger) []c19Gen {
	gens := []c19Gen{
		{"pb-textpb", func(m *sysl.Module) (string, error) {
			var b bytes.Buffer
			err := pbutil.FTextPB(&b, m)
			return b.String(), err
		}},
		{"pb-json", func(m *sysl.Module) (string, error) {
			var b bytes.Buffer
			err := pbutil.FJSONPB(&b, m)
			return b.String(), err
		}},
		{"pb-json-compact", func(m *sysl.Module) (string, error) {
			var b bytes.Buffer
			err := pbutil.FJSONPBWithOpt(&b, m, pbutil.OutputOptions{Compact: true})
			return b.String(), err
		}},
		{"pb-binary", func(m *sysl.Module) (string, error) {
			var b bytes.Buffer
			err := pbutil.GeneratePBBinaryMessage(&b, m)
			return b.String(), err
		}},
		{"sd-grouped", func(m *sysl.Module) (string, error) {
			l := &cmdutils.Labeler{}
			p := &sequencediagram.SequenceDiagParam{AppLabeler: l, EndpointLabeler: l, Endpoints: []string{"Shop <- Ship"}, Blackboxes: map[string]*cmdutils.Upto{}, AppName: "Shop", Group: "team"}
			return sequencediagram.GenerateSequenceDiag(m, p, logger)
		}},
		{"sd-owner-grouped", func(m *sysl.Module) (string, error) {
			l := &cmdutils.Labeler{}
			p := &sequencediagram.SequenceDiagParam{AppLabeler: l, EndpointLabeler: l, Endpoints: []string{"Shop <- GET /orders/{id}"}, Blackboxes: map[string]*cmdutils.Upto{}, AppName: "Shop", Group: "owner"}
			return sequencediagram.GenerateSequenceDiag(m, p, logger)
		}},
	}
	gens = append(gens, c19Gen{"sd-project-views", func(m *sysl.Module) (string, error) {
		if m.Apps["SeqProject"] == nil {
			return "", nil
		}
		p := &cmdutils.CmdContextParamSeqgen{Output: "%(epname).png", AppsFlag: []string{"SeqProject"}, EndpointFormat: "%(epname)", AppFormat: "%(appname)"}
		r, err := sequencediagram.DoConstructSequenceDiagrams(p, m, logger)
		return flattenMap(r), err
	}})
	for _, v := range []struct {
		n         string
		clustered bool
		epa       bool
	}{{"ints", false, false}, {"ints-clustered", true, false}, {"ints-epa", false, true}} {
		v := v
		gens = append(gens, c19Gen{v.n, func(m *sysl.Module) (string, error) {
			p := &cmdutils.CmdContextParamIntgen{Title: "t", Output: "%(epname).png", Project: "Project", Clustered: v.clustered, EPA: v.epa}
			r, err := integrationdiagram.GenerateIntegrations(p, m, logger)
			return flattenMap(r), err
		}})
	}
	gens = append(gens,
		c19Gen{"datamodel", func(m *sysl.Module) (string, error) {
			p := &cmdutils.CmdContextParamDatagen{Title: "t", Output: "%(epname).png", Direct: true, ClassFormat: "%(classname)"}
			r, err := datamodeldiagram.GenerateDataModels(p, m, logger)
			return flattenMap(r), err
		}},
		c19Gen{"export-openapi3-yaml", func(m *sysl.Module) (string, error) { return c19OpenAPI3(m, "yaml", logger) }},
		c19Gen{"export-openapi3-json", func(m *sysl.Module) (string, error) { return c19OpenAPI3(m, "json", logger) }},
		c19Gen{"export-swagger-yaml", func(m *sysl.Module) (string, error) {
			app := m.Apps["Web"] // the Swagger exporter handles REST endpoints only
			if app == nil {
				app = m.Apps["Shop"]
			}
			e := exporter.MakeSwaggerExporter(app, logger)
			if err := e.GenerateSwagger(); err != nil {
				return "", err
			}
			b, err := e.SerializeOutput("yaml")
			return string(b), err
		}},
		c19Gen{"db-create", func(m *sysl.Module) (string, error) {
			v := database.MakeDatabaseScriptView("t", logger)
			return v.GenerateDatabaseScriptCreate(m.Apps["Shop"].GetTypes(), "postgres", "Shop"), nil
		}},
		c19Gen{"mermaid-integration", func(m *sysl.Module) (string, error) { return mints.GenerateFullIntegrationDiagram(m) }},
		c19Gen{"mermaid-integration-app", func(m *sysl.Module) (string, error) { return mints.GenerateIntegrationDiagram(m, "Shop") }},
		c19Gen{"mermaid-sequence", func(m *sysl.Module) (string, error) { return msd.GenerateSequenceDiagram(m, "Shop", "Ship") }},
		c19Gen{"mermaid-datamodel", func(m *sysl.Module) (string, error) { return mdata.GenerateFullDataDiagram(m) }},
		c19Gen{"mermaid-endpoint-analysis", func(m *sysl.Module) (string, error) { return mepa.GenerateEndpointAnalysisDiagram(m) }},
		c19Gen{"export-proto", func(m *sysl.Module) (string, error) {
			var b bytes.Buffer
			err := exporter.MakeTransformExporter(afero.NewMemMapFs(), logger, ".", "out.proto", "proto").ExportToWriter(&b, []*sysl.Module{m}, []string{"main.sysl"})
			return b.String(), err
		}},
		c19Gen{"export-spanner", func(m *sysl.Module) (string, error) {
			var b bytes.Buffer
			err := exporter.MakeTransformExporter(afero.NewMemMapFs(), logger, ".", "out.sql", "spanner").ExportToWriter(&b, []*sysl.Module{m}, []string{"main.sysl"})
			return b.String(), err
		}},
		c19Gen{"pb-split-applications", func(m *sysl.Module) (string, error) {
			fs := afero.NewMemMapFs()
			err := pbutil.OutputSplitApplications(m, "json", pbutil.OutputOptions{}, "/out", "data.json", fs)
			var b strings.Builder
			_ = afero.Walk(fs, "/out", func(p string, info os.FileInfo, e error) error {
				if e == nil && !info.IsDir() {
					c, _ := afero.ReadFile(fs, p)
					b.WriteString("=== " + p + "\n" + string(c) + "\n")
				}
				return nil
			})
			return b.String(), err
		}},
		c19Gen{"relmod-rows", func(m *sysl.Module) (string, error) {
			s, err := relmod.Normalize(context.Background(), m)
			if err != nil {
				return "", err
			}
			// the relational model is a set of relations: compared as sorted rows
			return strings.Join(sortRows(canonSchema(s)), "\n"), nil
		}},
	)
	return gens
}

func c19OpenAPI3(m *sysl.Module, mode string, logger *logrus.Logger) (string, error) {
	app := m.Apps["Shop"]
	mod := &sysl.Module{Apps: map[string]*sysl.Application{syslutil.GetAppName(app.Name): app}}
	mapper := syslwrapper.MakeAppMapper(mod)
	mapper.IndexTypes()
	mapper.ConvertTypes()
	simpleApps, err := mapper.Map()
	if err != nil {
		return "", err
	}
	e := exporter.MakeOpenAPI3Exporter(simpleApps, logger)
	if err := e.Export(); err != nil {
		return "", err
	}
	b, err := e.SerializeOutput("Shop", mode)
	return string(b), err
}

var c19SplitDb = map[string]string{
	// Customer: a table declared here and completed in a.sysl; its columns' lines and names are ordered differently
	// (name before address by line, address < grade < name by name)
	"main.sysl": "import a\nimport b\nimport c\n\nDb:\n    !table Root:\n        id <: int [~pk]\n    !table Customer:\n        cid <: int [~pk]\n        name <: string\n        address <: string\n        zip <: string\n",
	"a.sysl":    "Db:\n    !table A1:\n        id <: int [~pk]\n        r <: Root.id\n    !table A2:\n        id <: int [~pk]\n        r <: Root.id\n    !table Customer:\n        grade <: string\n        born <: date\n        tier <: int\n",
	"b.sysl":    "Db:\n    !table B1:\n        id <: int [~pk]\n        r <: Root.id\n    !table B2:\n        id <: int [~pk]\n        r <: Root.id\n",
	"c.sysl":    "Db:\n    !table C1:\n        id <: int [~pk]\n        r <: Root.id\n    !table C2:\n        id <: int [~pk]\n        r <: Root.id\n",
}

func c19NoDup() string {
	return strings.Replace(c19Rich, "    !enum Dup:\n        ALPHA: 1\n        BETA: 1\n        GAMMA: 2\n        DELTA: 2\n", "", 1)
}

func flattenMap(r map[string]string) string {
	var b strings.Builder
	for _, k := range sortedKeys(r) {
		b.WriteString("=== " + k + "\n" + r[k] + "\n")
	}
	return b.String()
}

func init() { runners["C19"] = runC19 }

func runC19(res *Result, tier string, rnd *Rand, replay string) {
	res.Rule = "a rich model (several entries in every map the generators walk: applications with attributes, tuple/table/enum/alias types with many fields, REST endpoints with several parameters and responses, call graph, project views) and generated models, x every output-producing entry point (pb textpb/json/compact json/binary; sequence diagram with grouping; integration diagrams plain/clustered/epa; data-model diagram; OpenAPI3 yaml/json and Swagger export; database script; mermaid integration/sequence/datamodel/endpoint-analysis; relational model as sorted rows; OpenAPI import text), each repeated in one process, and the CLI as separate processes; non-trivial = a (model, generator) pair whose output is non-empty; distinct by (model, generator)"
	logger := logrus.New()
	logger.SetLevel(logrus.PanicLevel)
	reps := 12
	nGen := 4
	if tier == "thorough" {
		reps, nGen = 30, 12
	}
	type model struct {
		name, text string
	}
	// "rich" has enum names that share a number; "rich-nodup" is the same model without them
	models := []model{{"rich", c19Rich}, {"rich-nodup", c19NoDup()}}
	for i := 0; i < nGen; i++ {
		g := genCallModel(rnd, 3+rnd.Intn(4))
		g.Excludes = nil
		// give every generated model the fixed names the generators are pointed at
		txt := strings.Replace(g.text(), "Alpha", "Shop", -1)
		txt = strings.Replace(txt, "aOp0", "Ship", -1)
		models = append(models, model{fmt.Sprintf("gen%d", i), txt})
	}
	gens := c19Generators(logger)
	// tables of one application spread over imported files, starting on the same source lines
	func() {
		mod, err := compileFiles(c19SplitDb, "main.sysl")
		if err != nil {
			res.Note("split db model does not compile: %v", err)
			return
		}
		in := map[string]any{"model": "split-db", "files": c19SplitDb}
		var first string
		for i := 0; i < reps; i++ {
			v := database.MakeDatabaseScriptView("t", logger)
			out := v.GenerateDatabaseScriptCreate(mod.Apps["Db"].GetTypes(), "postgres", "Db")
			if i == 0 {
				first = out
			} else if out != first {
				res.Violate(Violation{Sig: "nondeterministic:db-create", What: "two runs of db-create on tables spread over imported files give different scripts", Input: in, Got: firstDiffLine(first, out)})
				break
			}
		}
		res.Eval("split-db\x00db-create", first != "")
		res.Count("generator:db-create-split")
	}()
	// importers and the CLI matrix run beside the in-process generators
	var bg sync.WaitGroup
	bg.Add(2)
	go func() { defer bg.Done(); c19Importers(res, tier, logger) }()
	go func() { defer bg.Done(); c19CLI(res, tier) }()
	for _, md := range models {
		mod, err := compileFiles(map[string]string{"main.sysl": md.text}, "main.sysl")
		if err != nil {
			res.Count("generated-not-compiling")
			res.Note("not compiling: %v", err)
			continue
		}
		for _, g := range gens {
			slow := g.name == "export-proto" || g.name == "export-spanner" || g.name == "relmod-rows"
			if slow && tier != "thorough" && !strings.HasPrefix(md.name, "rich") {
				continue
			}
			in := map[string]any{"model": md.name, "generator": g.name, "text": md.text}
			var first string
			var firstErr string
			differs := false
			before := proto.Clone(mod)
			func() {
				defer Track(in)()
				defer func() {
					if x := recover(); x != nil {
						res.Count("generator-panic:" + g.name) // crash behaviour is C20's subject
						if os.Getenv("VERIF_DEBUG") != "" {
							fmt.Fprintf(os.Stderr, "PANIC %s %s: %v\n%s\n", md.name, g.name, x, debug.Stack())
						}
						first = ""
					}
				}()
				n := reps
				if slow {
					n = 2 + reps/4
				}
				for i := 0; i < n; i++ {
					out, err := g.run(mod)
					es := ""
					if err != nil {
						es = err.Error()
					}
					if i == 0 {
						first, firstErr = out, es
					} else if out != first || es != firstErr {
						differs = true
						sig := "nondeterministic:" + g.name
						if md.name == "rich" && (g.name == "export-proto" || g.name == "export-spanner") {
							sig += ":enum-names-sharing-a-number"
						}
						res.Violate(Violation{Sig: sig, What: "two runs of " + g.name + " on the same model give different output", Input: in,
							Got: firstDiffLine(first, out)})
						break
					}
				}
			}()
			if !proto.Equal(before, mod) {
				res.Violate(Violation{Sig: "generator-changes-the-model:" + g.name, What: g.name + " changed the compiled model it was given (a later run on the same model then sees different input)", Input: in})
				// continue with a fresh copy
				mod = proto.Clone(before).(*sysl.Module)
			}
			res.Eval(md.name+"\x00"+g.name, first != "" && !differs)
			res.mu.Lock()
			res.Traces++
			res.mu.Unlock()
			res.Count("generator:" + g.name)
		}
	}
	bg.Wait()
	res.Sample(map[string]any{"model": "rich", "generators": len(gens), "repetitions": reps})
}

func c19CLI(res *Result, tier string) {
	if bin := os.Getenv("VERIF_SYSL_BIN"); bin != "" || fileExists("/verif/.cache/sysl") {
		if bin == "" {
			bin = "/verif/.cache/sysl"
		}
		work := filepath.Join(filepath.Dir(bin), "c19work")
		_ = os.RemoveAll(work)
		_ = os.MkdirAll(work, 0o755)
		defer os.RemoveAll(work)
		_ = os.WriteFile(filepath.Join(work, "m.sysl"), []byte(c19Rich), 0o644)
		cmds := [][]string{
			{"pb", "--mode", "textpb", "-o", "o.textpb", "m.sysl"}, {"pb", "--mode", "json", "-o", "o.json", "m.sysl"},
			{"sd", "-s", "Shop <- Ship", "-g", "team", "-o", "sd.puml", "m.sysl"},
			{"sd", "-a", "SeqProject", "-o", "v_%(epname).puml", "m.sysl"},
			{"generate-db-scripts", "-a", "Db", "-d", "postgres", "-o", ".", "-t", "split", "main.sysl"},
			{"ints", "-j", "Project", "-o", "i_%(epname).puml", "m.sysl"},
			{"ints", "--clustered", "-j", "Project", "-o", "c_%(epname).puml", "m.sysl"},
			{"ints", "--epa", "-j", "Project", "-o", "e_%(epname).puml", "m.sysl"},
			{"import", "-i", "sw2.yaml", "-a", "Api", "-o", "sw2.sysl"},
			{"import", "-i", "oa3.yaml", "-a", "Api", "-o", "oa3.sysl"},
			{"datamodel", "-d", "-o", "dm.puml", "m.sysl"},
			{"export", "-f", "openapi3", "-a", "Shop", "-o", "o3.yaml", "m.sysl"},
			{"export", "-f", "swagger", "-a", "Web", "-o", "sw.yaml", "m.sysl"},
			{"export", "-f", "openapi3", "-a", "Web", "-o", "w3.json", "m.sysl"},
			{"export", "-f", "proto", "-a", "Shop", "-o", "shop.proto", "nodup.sysl"},
			{"export", "-f", "spanner", "-a", "Shop", "-o", "shop.sql", "nodup.sysl"},
			{"export", "-f", "proto", "-a", "Shop", "-o", "shopdup.proto", "m.sysl"},
			{"generate-db-scripts", "-a", "Shop", "-d", "postgres", "-o", ".", "-t", "t", "m.sysl"},
		}
		nproc := 3
		if tier == "thorough" {
			nproc = 8
		}
		var wg sync.WaitGroup
		sem := make(chan struct{}, 4)
		for ci, c := range cmds {
			ci, c := ci, c
			wg.Add(1)
			sem <- struct{}{}
			go func() {
				defer wg.Done()
				defer func() { <-sem }()
				var first string
				for i := 0; i < nproc; i++ {
					outdir := filepath.Join(work, fmt.Sprintf("c%d", ci), "run") // the same path every time: file names appear in the output
					_ = os.RemoveAll(outdir)
					_ = os.MkdirAll(outdir, 0o755)
					_ = os.WriteFile(filepath.Join(outdir, "m.sysl"), []byte(c19Rich), 0o644)
					_ = os.WriteFile(filepath.Join(outdir, "nodup.sysl"), []byte(c19NoDup()), 0o644)
				for fn, fc := range c19SplitDb {
					_ = os.WriteFile(filepath.Join(outdir, fn), []byte(fc), 0o644)
				}
					_ = os.WriteFile(filepath.Join(outdir, "sw2.yaml"), []byte(c19Swagger2Doc), 0o644)
					_ = os.WriteFile(filepath.Join(outdir, "oa3.yaml"), []byte(c19OpenAPIDoc), 0o644)
					cmd := exec.Command(bin, c...)
					cmd.Dir = outdir
					_ = cmd.Run()
					got := dirContents(outdir)
					if i == 0 {
						first = got
					} else if got != first {
						sig := "nondeterministic-cli:" + c[0] + ":" + c19Flag(c)
						if c[len(c)-2] == "shopdup.proto" {
							sig += ":enum-names-sharing-a-number"
						}
						res.Violate(Violation{Sig: sig, What: "two processes running `sysl " + strings.Join(c, " ") + "` write different files", Input: map[string]any{"cmd": c, "text": c19Rich}, Got: firstDiffLine(first, got)})
						break
					}
				}
				res.Eval("cli\x00"+strings.Join(c, " "), first != "")
				res.Count("cli:" + c[0])
			}()
		}
		wg.Wait()
	}
}

func c19Importers(res *Result, tier string, logger *logrus.Logger) {
	type doc struct{ path, content string }
	var docs []doc
	per := 2
	ireps := 2
	synthReps := 8
	if tier == "thorough" {
		per, ireps, synthReps = 40, 4, 20
	}
	for _, dir := range []string{"openapi3", "openapi2", "xsd"} {
		files, _ := filepath.Glob(filepath.Join(repoRoot, "pkg/importer/tests", dir, "*"))
		sort.Strings(files)
		n := 0
		for _, f := range files {
			ext := filepath.Ext(f)
			if ext != ".yaml" && ext != ".json" && ext != ".xsd" && ext != ".xml" {
				continue
			}
			c, err := os.ReadFile(f)
			if err != nil || n >= per {
				continue
			}
			n++
			docs = append(docs, doc{f, string(c)})
		}
	}
	docs = append(docs, doc{"/synthetic/spec.yaml", c19OpenAPIDoc}, doc{"/synthetic/swagger2.yaml", c19Swagger2Doc}, doc{"/synthetic/media.yaml", c19OpenAPI3MediaDoc})
	run := func(kind string, d doc, mk func() (importer.Importer, error)) {
		in := map[string]any{"importer": kind, "path": d.path, "doc": d.content}
		defer Track(in)()
		defer func() {
			if x := recover(); x != nil {
				res.Count("importer-panic:" + kind)
			}
		}()
		var first, firstErr string
		differs := false
		n := ireps
		if strings.HasPrefix(d.path, "/synthetic/") {
			n = synthReps
		}
		for i := 0; i < n; i++ {
			imp, err := mk()
			if err != nil {
				res.Count("importer-unavailable:" + kind)
				return
			}
			imp, err = imp.Configure(&importer.ImporterArg{AppName: "Api", PackageName: "pkg"})
			if err != nil {
				res.Count("importer-unavailable:" + kind)
				return
			}
			out, err := imp.Load(d.content)
			es := ""
			if err != nil {
				es = "error"
			}
			if i == 0 {
				first, firstErr = out, es
			} else if out != first || es != firstErr {
				differs = true
				res.Violate(Violation{Sig: "nondeterministic:import-" + kind, What: "importing the same document twice gives different Sysl text", Input: in, Got: firstDiffLine(first, out)})
				break
			}
		}
		res.Eval("import\x00"+kind+"\x00"+d.path, first != "" && !differs)
		res.mu.Lock()
		res.Traces++
		res.mu.Unlock()
		res.Count("generator:import-" + kind)
	}
	var wg sync.WaitGroup
	sem := make(chan struct{}, 4)
	for _, d := range docs {
		d := d
		wg.Add(1)
		sem <- struct{}{}
		go func() {
			defer wg.Done()
			defer func() { <-sem }()
			run("auto", d, func() (importer.Importer, error) {
				return importer.Factory(d.path, false, "", []byte(d.content), logger)
			})
			if strings.Contains(d.content, "openapi:") {
				run("openapi3-legacy", d, func() (importer.Importer, error) {
					return importer.NewLegacyOpenAPIV3Importer(logger, afero.NewOsFs()), nil
				})
			}
		}()
	}
	wg.Wait()
}

func c19Flag(c []string) string {
	for i, a := range c {
		if a == "-f" || a == "--mode" {
			return c[i+1]
		}
	}
	return ""
}

func fileExists(p string) bool { _, err := os.Stat(p); return err == nil }

func dirContents(dir string) string {
	var names []string
	_ = filepath.Walk(dir, func(p string, info os.FileInfo, err error) error {
		if err == nil && !info.IsDir() && filepath.Base(p) != "m.sysl" {
			names = append(names, p)
		}
		return nil
	})
	sort.Strings(names)
	var b strings.Builder
	for _, n := range names {
		c, _ := os.ReadFile(n)
		rel, _ := filepath.Rel(dir, n)
		b.WriteString("=== " + rel + "\n" + string(c) + "\n")
	}
	return b.String()
}

func firstDiffLine(a, b string) string {
	al, bl := strings.Split(a, "\n"), strings.Split(b, "\n")
	for i := 0; i < len(al) && i < len(bl); i++ {
		if al[i] != bl[i] {
			return fmt.Sprintf("line %d: %q vs %q", i+1, al[i], bl[i])
		}
	}
	return fmt.Sprintf("lengths %d vs %d lines", len(al), len(bl))
}

const c19Swagger2Doc = `swagger: "2.0"
info: {title: Api, version: "1"}
paths:
  /a:
    post:
      parameters:
        - {in: body, name: body, schema: {type: object, properties: {a: {type: string}}}}
      responses:
        "200": {description: ok, schema: {type: array, items: {type: object, properties: {a: {type: string}}}}}
        "400": {description: no, schema: {type: array, items: {type: object, properties: {b: {type: string}}}}}
    put:
      parameters:
        - {in: body, name: body, schema: {type: object, properties: {c: {type: string}}}}
      responses:
        "200": {description: ok}
  /b:
    post:
      parameters:
        - {in: body, name: body, schema: {type: object, properties: {b: {type: string}}}}
      responses:
        "200": {description: ok}
definitions:
  Parent: {type: object, properties: {child: {type: object, properties: {a: {type: string}}}}}
  Parent_child: {type: object, properties: {b: {type: string}}}
  1a: {type: object, properties: {p: {type: string}}}
  _1a: {type: object, properties: {q: {type: string}}}
  T:
    type: object
    properties:
      a_b: {type: object, properties: {x: {type: string}}}
      a: {type: object, properties: {b: {type: object, properties: {z: {type: string}}}}}
`

const c19OpenAPI3MediaDoc = `openapi: "3.0.0"
info: {title: Api, version: "1"}
paths:
  /m:
    post:
      requestBody:
        content:
          application/json: {schema: {type: object, properties: {a: {type: string}}}}
          application/xml: {schema: {type: object, properties: {b: {type: string}}}}
      responses:
        "200":
          description: ok
          content:
            application/json: {schema: {type: object, properties: {c: {type: string}}}}
            application/xml: {schema: {type: object, properties: {d: {type: string}}}}
        "201":
          description: arr
          content:
            application/json: {schema: {type: Arr}}
components:
  schemas:
    Arr: {type: array, minItems: 1, maxItems: 5, items: {type: string}}
`

const c19OpenAPIDoc = `openapi: "3.0.0"
info:
  title: Api
  version: "1"
paths:
  /pets/{id}:
    get:
      parameters:
        - {name: id, in: path, required: true, schema: {type: integer}}
        - {name: limit, in: query, schema: {type: integer}}
        - {name: tag, in: query, schema: {type: string}}
      responses:
        "200": {description: ok, content: {application/json: {schema: {$ref: "#/components/schemas/Pet"}}}}
        "404": {description: no, content: {application/json: {schema: {$ref: "#/components/schemas/Err"}}}}
        "500": {description: bad}
    post:
      requestBody: {content: {application/json: {schema: {$ref: "#/components/schemas/Pet"}}}}
      responses:
        "201": {description: made}
  /owners:
    get:
      responses:
        "200": {description: ok, content: {application/json: {schema: {type: array, items: {$ref: "#/components/schemas/Owner"}}}}}
components:
  schemas:
    Pet:
      type: object
      required: [name, kind, owner]
      properties:
        name: {type: string}
        kind: {type: string, enum: [cat, dog, eel]}
        age: {type: integer}
        owner: {$ref: "#/components/schemas/Owner"}
        tags: {type: array, items: {type: string}}
    Owner:
      type: object
      properties:
        name: {type: string}
        phone: {type: string}
        pets: {type: array, items: {$ref: "#/components/schemas/Pet"}}
    Err:
      type: object
      properties:
        code: {type: integer}
        msg: {type: string}
`
