package main

// Generic canonical dump of a protobuf message as (path, value) rows, by reflection: every set
// scalar becomes a row, map entries are addressed by key, repeated fields by index.  Source
// contexts are dropped.  Because the walk is generic, *everything* the compiler put into the
// module shows up - which is what "nothing undeclared appears" needs.

import (
	"fmt"
	"sort"
	"strings"

	"google.golang.org/protobuf/reflect/protoreflect"
)

func dumpMsg(m protoreflect.Message, path string, out *[]string) {
	fds := m.Descriptor().Fields()
	for i := 0; i < fds.Len(); i++ {
		fd := fds.Get(i)
		name := string(fd.Name())
		if name == "source_context" || name == "source_contexts" {
			continue
		}
		if !m.Has(fd) {
			continue
		}
		v := m.Get(fd)
		p := path + "." + name
		switch {
		case fd.IsMap():
			mp := v.Map()
			var keys []string
			kv := map[string]protoreflect.Value{}
			mp.Range(func(k protoreflect.MapKey, val protoreflect.Value) bool {
				ks := k.String()
				keys = append(keys, ks)
				kv[ks] = val
				return true
			})
			sort.Strings(keys)
			for _, k := range keys {
				dumpVal(fd.MapValue(), kv[k], fmt.Sprintf("%s[%q]", p, k), out)
			}
		case fd.IsList():
			l := v.List()
			for j := 0; j < l.Len(); j++ {
				dumpVal(fd, l.Get(j), fmt.Sprintf("%s[%d]", p, j), out)
			}
		default:
			dumpVal(fd, v, p, out)
		}
	}
}

func dumpVal(fd protoreflect.FieldDescriptor, v protoreflect.Value, p string, out *[]string) {
	switch fd.Kind() {
	case protoreflect.MessageKind, protoreflect.GroupKind:
		before := len(*out)
		dumpMsg(v.Message(), p, out)
		if len(*out) == before {
			*out = append(*out, p+" = {}") // a present but empty message is information too
		}
	case protoreflect.EnumKind:
		ev := fd.Enum().Values().ByNumber(v.Enum())
		if ev != nil {
			*out = append(*out, p+" = "+string(ev.Name()))
		} else {
			*out = append(*out, fmt.Sprintf("%s = enum(%d)", p, v.Enum()))
		}
	case protoreflect.StringKind:
		*out = append(*out, fmt.Sprintf("%s = %q", p, v.String()))
	default:
		*out = append(*out, fmt.Sprintf("%s = %v", p, v.Interface()))
	}
}

func dumpModuleRows(m protoreflect.ProtoMessage) []string {
	var out []string
	dumpMsg(m.ProtoReflect(), "", &out)
	for i := range out {
		out[i] = strings.TrimPrefix(out[i], ".")
	}
	sort.Strings(out)
	return out
}

// ---- source locations (C08) ----

type srcLoc struct {
	File                           string
	SLine, SCol, ELine, ECol int64
	HasEnd                         bool
}

// dumpLocs collects, for every message of the module that carries `source_contexts`, the list of
// locations in order, keyed by the message's path in the generic dump.
func dumpLocs(m protoreflect.ProtoMessage) map[string][]srcLoc {
	out := map[string][]srcLoc{}
	var walk func(m protoreflect.Message, path string)
	walk = func(m protoreflect.Message, path string) {
		fds := m.Descriptor().Fields()
		for i := 0; i < fds.Len(); i++ {
			fd := fds.Get(i)
			if !m.Has(fd) {
				continue
			}
			name := string(fd.Name())
			v := m.Get(fd)
			if name == "source_contexts" && fd.IsList() {
				l := v.List()
				for j := 0; j < l.Len(); j++ {
					out[path] = append(out[path], readLoc(l.Get(j).Message()))
				}
				continue
			}
			if name == "source_context" {
				continue
			}
			p := path + "." + name
			if path == "" {
				p = name
			}
			switch {
			case fd.IsMap():
				if fd.MapValue().Kind() != protoreflect.MessageKind {
					continue
				}
				v.Map().Range(func(k protoreflect.MapKey, val protoreflect.Value) bool {
					walk(val.Message(), fmt.Sprintf("%s[%q]", p, k.String()))
					return true
				})
			case fd.IsList():
				if fd.Kind() != protoreflect.MessageKind {
					continue
				}
				l := v.List()
				for j := 0; j < l.Len(); j++ {
					walk(l.Get(j).Message(), fmt.Sprintf("%s[%d]", p, j))
				}
			case fd.Kind() == protoreflect.MessageKind:
				walk(v.Message(), p)
			}
		}
	}
	walk(m.ProtoReflect(), "")
	return out
}

func readLoc(m protoreflect.Message) srcLoc {
	var l srcLoc
	fds := m.Descriptor().Fields()
	get := func(mm protoreflect.Message, n string) int64 {
		fd := mm.Descriptor().Fields().ByName(protoreflect.Name(n))
		if fd == nil {
			return 0
		}
		return mm.Get(fd).Int()
	}
	if fd := fds.ByName("file"); fd != nil {
		l.File = m.Get(fd).String()
	}
	if fd := fds.ByName("start"); fd != nil && m.Has(fd) {
		l.SLine, l.SCol = get(m.Get(fd).Message(), "line"), get(m.Get(fd).Message(), "col")
	}
	if fd := fds.ByName("end"); fd != nil && m.Has(fd) {
		l.HasEnd = true
		l.ELine, l.ECol = get(m.Get(fd).Message(), "line"), get(m.Get(fd).Message(), "col")
	}
	return l
}
