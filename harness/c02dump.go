package main

// Generic canonical dump of a protobuf message as (path, value) rows, by reflection: every set
// scalar becomes a row, map entries are addressed by key, repeated fields by index.  Source
// contexts are dropped.  Because the walk is generic, *everything* the compiler put into the
// module shows up - which is what "nothing undeclared appears" needs.

import (
	"fmt"
	"sort"
	"strings"

	"google.golang.org/protobuf/reflect/protoreflect"
)

func dumpMsg(m protoreflect.Message, path string, out *[]string) {
	fds := m.Descriptor().Fields()
	for i := 0; i < fds.Len(); i++ {
		fd := fds.Get(i)
		name := string(fd.Name())
		if name == "source_context" || name == "source_contexts" {
			continue
		}
		if !m.Has(fd) {
			continue
		}
		v := m.Get(fd)
		p := path + "." + name
		switch {
		case fd.IsMap():
			mp := v.Map()
			var keys []string
			kv := map[string]protoreflect.Value{}
			mp.Range(func(k protoreflect.MapKey, val protoreflect.Value) bool {
				ks := k.String()
				keys = append(keys, ks)
				kv[ks] = val
				return true
			})
			sort.Strings(keys)
			for _, k := range keys {
				dumpVal(fd.MapValue(), kv[k], fmt.Sprintf("%s[%q]", p, k), out)
			}
		case fd.IsList():
			l := v.List()
			for j := 0; j < l.Len(); j++ {
				dumpVal(fd, l.Get(j), fmt.Sprintf("%s[%d]", p, j), out)
			}
		default:
			dumpVal(fd, v, p, out)
		}
	}
}

func dumpVal(fd protoreflect.FieldDescriptor, v protoreflect.Value, p string, out *[]string) {
	switch fd.Kind() {
	case protoreflect.MessageKind, protoreflect.GroupKind:
		before := len(*out)
		dumpMsg(v.Message(), p, out)
		if len(*out) == before {
			*out = append(*out, p+" = {}") // a present but empty message is information too
		}
	case protoreflect.EnumKind:
		ev := fd.Enum().Values().ByNumber(v.Enum())
		if ev != nil {
			*out = append(*out, p+" = "+string(ev.Name()))
		} else {
			*out = append(*out, fmt.Sprintf("%s = enum(%d)", p, v.Enum()))
		}
	case protoreflect.StringKind:
		*out = append(*out, fmt.Sprintf("%s = %q", p, v.String()))
	default:
		*out = append(*out, fmt.Sprintf("%s = %v", p, v.Interface()))
	}
}

func dumpModuleRows(m protoreflect.ProtoMessage) []string {
	var out []string
	dumpMsg(m.ProtoReflect(), "", &out)
	for i := range out {
		out[i] = strings.TrimPrefix(out[i], ".")
	}
	sort.Strings(out)
	return out
}
