package main

// ChrootOps: per method of *ChrootFs that calls the underlying filesystem, how each
// path argument reaches it: checked (closure parameter of wrapCall/wrapCallWithData fed
// by a method parameter), joinedOnly (result of fs.join, never range-checked), raw.

import (
	"fmt"
	"go/ast"
	"go/token"
	"strings"
)

func init() { emitters["ChrootOps"] = emitChrootOps }

func isSel(e ast.Expr, parts ...string) bool {
	// matches a.b.c selector chains by name
	for i := len(parts) - 1; i > 0; i-- {
		s, ok := e.(*ast.SelectorExpr)
		if !ok || s.Sel.Name != parts[i] {
			return false
		}
		e = s.X
	}
	id, ok := e.(*ast.Ident)
	return ok && id.Name == parts[0]
}

func emitChrootOps() {
	fset := token.NewFileSet()
	f := parseFile(fset, "pkg/syslutil/chroot_fs.go")
	type op struct {
		name, under string
		kinds       []string
	}
	var ops []op
	for _, d := range f.Decls {
		fd, ok := d.(*ast.FuncDecl)
		if !ok || fd.Recv == nil || len(fd.Recv.List) != 1 || fd.Body == nil {
			continue
		}
		st, ok := fd.Recv.List[0].Type.(*ast.StarExpr)
		if !ok {
			continue
		}
		if id, ok := st.X.(*ast.Ident); !ok || id.Name != "ChrootFs" {
			continue
		}
		if len(fd.Recv.List[0].Names) != 1 {
			continue
		}
		recv := fd.Recv.List[0].Names[0].Name
		if fd.Name.Name == "wrapCall" || fd.Name.Name == "wrapCallWithData" || fd.Name.Name == "join" || fd.Name.Name == "openAllowed" {
			continue
		}
		// string parameters of the method
		strParams := map[string]bool{}
		for _, p := range fd.Type.Params.List {
			if id, ok := p.Type.(*ast.Ident); ok && id.Name == "string" {
				for _, n := range p.Names {
					strParams[n.Name] = true
				}
			}
		}
		// locals assigned from recv.join(x)
		joined := map[string]bool{}
		// closure parameters that are checked: FuncLit passed to recv.wrapCall*(param, lit)
		checked := map[string]bool{}
		ast.Inspect(fd.Body, func(n ast.Node) bool {
			switch x := n.(type) {
			case *ast.AssignStmt:
				if len(x.Rhs) == 1 {
					if c, ok := x.Rhs[0].(*ast.CallExpr); ok && isSel(c.Fun, recv, "join") {
						if id, ok := x.Lhs[0].(*ast.Ident); ok {
							joined[id.Name] = true
						}
					}
				}
			case *ast.CallExpr:
				if (isSel(x.Fun, recv, "wrapCall") || isSel(x.Fun, recv, "wrapCallWithData")) && len(x.Args) == 2 {
					if lit, ok := x.Args[1].(*ast.FuncLit); ok && len(lit.Type.Params.List) >= 1 {
						if a0, ok := x.Args[0].(*ast.Ident); ok && strParams[a0.Name] {
							for _, n := range lit.Type.Params.List[0].Names {
								checked[n.Name] = true
							}
						}
					}
				}
			}
			return true
		})
		// calls on the underlying filesystem recv.fs.X(...)
		ast.Inspect(fd.Body, func(n ast.Node) bool {
			c, ok := n.(*ast.CallExpr)
			if !ok {
				return true
			}
			s, ok := c.Fun.(*ast.SelectorExpr)
			if !ok || !isSel(s.X, recv, "fs") {
				return true
			}
			o := op{name: fd.Name.Name, under: s.Sel.Name}
			for _, a := range c.Args {
				id, ok := a.(*ast.Ident)
				if !ok {
					continue
				}
				switch {
				case checked[id.Name]:
					o.kinds = append(o.kinds, "checked")
				case joined[id.Name]:
					o.kinds = append(o.kinds, "joinedOnly")
				case strParams[id.Name]:
					o.kinds = append(o.kinds, "raw")
				}
			}
			ops = append(ops, o)
			return true
		})
	}
	var b strings.Builder
	b.WriteString("import SyslModel.Path.Model\nnamespace SyslModel.Gen\nopen SyslModel.Path\n\n")
	b.WriteString("/-- one entry per call of a `*ChrootFs` method on the underlying filesystem (pkg/syslutil/chroot_fs.go) -/\n")
	b.WriteString("def chrootOps : List OpSpec := [\n")
	for i, o := range ops {
		ks := make([]string, len(o.kinds))
		for j, k := range o.kinds {
			ks[j] = "." + k
		}
		sep := ","
		if i == len(ops)-1 {
			sep = ""
		}
		fmt.Fprintf(&b, "  { name := %s, under := %s, args := [%s] }%s\n", leanStr(o.name), leanStr(o.under), strings.Join(ks, ", "), sep)
	}
	b.WriteString("]\n\nend SyslModel.Gen\n")
	writeGen("ChrootOps.lean", b.String())
}
