package main

// ClosureFacts: how pkg/parse/parse.go turns an import target into the key under which a file is claimed
// (fileNameToIndex) and how it compares the versions two imports of one file ask for (collectSpecs).  (C05)

import (
	"bytes"
	"go/ast"
	"go/printer"
	"go/token"
	"strconv"
	"strings"
)

func init() { emitters["ClosureFacts"] = emitClosureFacts }

func emitClosureFacts() {
	fset := token.NewFileSet()
	f := parseFile(fset, "pkg/parse/parse.go")
	show := func(n ast.Node) string {
		var b bytes.Buffer
		_ = printer.Fprint(&b, fset, n)
		return strings.Join(strings.Fields(b.String()), " ")
	}
	// statements of a body, flattened in source order: assignments, conditions, returns
	var steps func(b *ast.BlockStmt, out *[]string)
	steps = func(b *ast.BlockStmt, out *[]string) {
		for _, st := range b.List {
			switch x := st.(type) {
			case *ast.IfStmt:
				*out = append(*out, "if "+show(x.Cond))
				steps(x.Body, out)
				if eb, ok := x.Else.(*ast.BlockStmt); ok {
					*out = append(*out, "else")
					steps(eb, out)
				} else if x.Else != nil {
					*out = append(*out, "else "+show(x.Else))
				}
			case *ast.BlockStmt:
				steps(x, out)
			default:
				*out = append(*out, show(st))
			}
		}
	}
	var indexSteps []string
	var atSearches []string    // every search for "@" in collectSpecs, with the function used
	var versionSlices []string // every slice expression of a file name in collectSpecs
	var defaults [][]string    // the string lists of the case clauses in collectSpecs
	for _, d := range f.Decls {
		fd, ok := d.(*ast.FuncDecl)
		if !ok || fd.Body == nil {
			continue
		}
		switch fd.Name.Name {
		case "fileNameToIndex":
			steps(fd.Body, &indexSteps)
		case "collectSpecs":
			ast.Inspect(fd.Body, func(n ast.Node) bool {
				switch x := n.(type) {
				case *ast.CallExpr:
					for _, a := range x.Args {
						if bl, ok := a.(*ast.BasicLit); ok && bl.Kind == token.STRING && bl.Value == `"@"` {
							atSearches = append(atSearches, show(x.Fun))
						}
					}
				case *ast.SliceExpr:
					if strings.Contains(show(x.X), "filename") {
						versionSlices = append(versionSlices, show(x))
					}
				case *ast.CaseClause:
					var lits []string
					for _, e := range x.List {
						if bl, ok := e.(*ast.BasicLit); ok && bl.Kind == token.STRING {
							if s, err := strconv.Unquote(bl.Value); err == nil {
								lits = append(lits, s)
							}
						}
					}
					if len(lits) > 0 {
						defaults = append(defaults, lits)
					}
				}
				return true
			})
		}
	}
	var b strings.Builder
	b.WriteString("namespace SyslModel.Gen\n\n")
	b.WriteString("/-- fileNameToIndex: its statements in source order -/\ndef indexSteps : List String := " + leanStrList(indexSteps) + "\n\n")
	b.WriteString("/-- collectSpecs: the function used by every search for \"@\" -/\ndef versionAtSearches : List String := " + leanStrList(atSearches) + "\n\n")
	b.WriteString("/-- collectSpecs: every slice of a file name -/\ndef versionSlices : List String := " + leanStrList(versionSlices) + "\n\n")
	b.WriteString("/-- collectSpecs: the version names treated as no version (one list per switch) -/\ndef versionDefaults : List (List String) := [")
	for i, d := range defaults {
		if i > 0 {
			b.WriteString(", ")
		}
		b.WriteString(leanStrList(d))
	}
	b.WriteString("]\n\nend SyslModel.Gen\n")
	writeGen("ClosureFacts.lean", b.String())
}
