module verifx

go 1.21
