package main

// Importer: the extra characters the importers escape (pkg/importer/utils.go), the names the
// writer suffixes because the lexer would read them as statement keywords (pkg/importer/writer.go),
// and the lexer's keyword list (pkg/grammar/lexer_impl.go).  (C11)

import (
	"go/ast"
	"go/token"
	"sort"
	"strconv"
)

func init() { emitters["ImporterFacts"] = emitImporterFacts }

func emitImporterFacts() {
	fset := token.NewFileSet()
	utils := parseFile(fset, "pkg/importer/utils.go")
	var repl []string
	for _, d := range utils.Decls {
		fd, ok := d.(*ast.FuncDecl)
		if !ok || fd.Name.Name != "escapeUnsafeSyslChars" {
			continue
		}
		ast.Inspect(fd.Body, func(n ast.Node) bool {
			if kv, ok := n.(*ast.KeyValueExpr); ok {
				k, ok1 := kv.Key.(*ast.BasicLit)
				v, ok2 := kv.Value.(*ast.BasicLit)
				if ok1 && ok2 {
					ks, _ := strconv.Unquote(k.Value)
					vs, _ := strconv.Unquote(v.Value)
					repl = append(repl, ks+"="+vs)
				}
			}
			return true
		})
	}
	sort.Strings(repl)
	writer := parseFile(fset, "pkg/importer/writer.go")
	var kws []string
	for _, d := range writer.Decls {
		fd, ok := d.(*ast.FuncDecl)
		if !ok || fd.Name.Name != "isStatementKeyword" {
			continue
		}
		ast.Inspect(fd.Body, func(n ast.Node) bool {
			if cc, ok := n.(*ast.CaseClause); ok {
				for _, e := range cc.List {
					if bl, ok := e.(*ast.BasicLit); ok {
						s, _ := strconv.Unquote(bl.Value)
						kws = append(kws, s)
					}
				}
			}
			return true
		})
	}
	sort.Strings(kws)
	lexer := parseFile(fset, "pkg/grammar/lexer_impl.go")
	var lexKw []string
	ast.Inspect(lexer, func(n ast.Node) bool {
		vs, ok := n.(*ast.ValueSpec)
		if !ok || len(vs.Names) != 1 || vs.Names[0].Name != "keywords" || len(vs.Values) != 1 {
			return true
		}
		if cl, ok := vs.Values[0].(*ast.CompositeLit); ok {
			for _, e := range cl.Elts {
				if bl, ok := e.(*ast.BasicLit); ok {
					s, _ := strconv.Unquote(bl.Value)
					lexKw = append(lexKw, s)
				}
			}
		}
		return true
	})
	writeGen("ImporterFacts.lean", "namespace SyslModel.Gen\n\n/-- escapeUnsafeSyslChars: character=replacement beyond url.PathEscape -/\ndef importerExtraEscapes : List String := "+leanStrList(repl)+
		"\n\n/-- isStatementKeyword of the importers' writer -/\ndef writerKeywords : List String := "+leanStrList(kws)+
		"\n\n/-- the lexer's keyword prefixes (startsWithKeyword) -/\ndef lexerKeywords : List String := "+leanStrList(lexKw)+"\n\nend SyslModel.Gen\n")
}
