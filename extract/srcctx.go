package main

// SrcCtx: the arithmetic of sourceCtxHelper.get (pkg/parse/utils.go): how token positions become
// zero-based locations.  (C08)

import (
	"bytes"
	"go/ast"
	"go/printer"
	"go/token"
	"strings"
)

func init() { emitters["SrcCtx"] = emitSrcCtx }

func emitSrcCtx() {
	fset := token.NewFileSet()
	f := parseFile(fset, "pkg/parse/utils.go")
	show := func(n ast.Node) string {
		var b bytes.Buffer
		_ = printer.Fprint(&b, fset, n)
		return strings.Join(strings.Fields(b.String()), " ")
	}
	var rows [][2]string
	for _, d := range f.Decls {
		fd, ok := d.(*ast.FuncDecl)
		if !ok || fd.Name.Name != "get" || fd.Recv == nil {
			continue
		}
		ast.Inspect(fd.Body, func(n ast.Node) bool {
			switch x := n.(type) {
			case *ast.KeyValueExpr:
				if id, ok := x.Key.(*ast.Ident); ok && (id.Name == "Start" || id.Name == "End") {
					if ue, ok := x.Value.(*ast.UnaryExpr); ok {
						if cl, ok := ue.X.(*ast.CompositeLit); ok {
							for _, e := range cl.Elts {
								if kv, ok := e.(*ast.KeyValueExpr); ok {
									rows = append(rows, [2]string{id.Name + "." + show(kv.Key), show(kv.Value)})
								}
							}
						}
					}
				}
			case *ast.AssignStmt:
				if len(x.Lhs) == 1 && strings.HasPrefix(show(x.Lhs[0]), "ctx.") {
					rows = append(rows, [2]string{show(x.Lhs[0]) + " " + x.Tok.String(), show(x.Rhs[0])})
				}
			}
			return true
		})
	}
	var b strings.Builder
	b.WriteString("namespace SyslModel.Gen\n\n/-- sourceCtxHelper.get: target and expression of every position computation -/\ndef srcCtxExprs : List (String × String) := [\n")
	for i, r := range rows {
		sep := ","
		if i == len(rows)-1 {
			sep = ""
		}
		b.WriteString("  (" + leanStr(r[0]) + ", " + leanStr(r[1]) + ")" + sep + "\n")
	}
	b.WriteString("]\n\nend SyslModel.Gen\n")
	writeGen("SrcCtx.lean", b.String())
}
