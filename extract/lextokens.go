package main

// LexTokens: per lexer token of SyslLexer.g4 — token type number, whether its action sets
// gotNewLine, resets spaces, calls calcSpaces, and whether it is on the hidden channel; the
// `case` list of getNextToken that returns newline-class tokens unprocessed; the constants
// of calcSpaces.

import (
	"fmt"
	"go/ast"
	"go/token"
	"os"
	"path/filepath"
	"regexp"
	"strconv"
	"strings"
)

func init() { emitters["LexTokens"] = emitLexTokens }

func emitLexTokens() {
	g4, err := os.ReadFile(filepath.Join(repo, "pkg/grammar/SyslLexer.g4"))
	if err != nil {
		die("%v", err)
	}
	// token type numbers from the generated lexer
	fset := token.NewFileSet()
	gen := parseFile(fset, "pkg/grammar/sysl_lexer.go")
	types := map[string]int{}
	for _, d := range gen.Decls {
		gd, ok := d.(*ast.GenDecl)
		if !ok || gd.Tok != token.CONST {
			continue
		}
		for _, sp := range gd.Specs {
			vs := sp.(*ast.ValueSpec)
			for i, n := range vs.Names {
				if strings.HasPrefix(n.Name, "SyslLexer") && i < len(vs.Values) {
					if bl, ok := vs.Values[i].(*ast.BasicLit); ok {
						v, _ := strconv.Atoi(bl.Value)
						name := strings.TrimPrefix(n.Name, "SyslLexer")
						if _, dup := types[name]; !dup { // token types come first; modes may reuse names
							types[name] = v
						}
					}
				}
			}
		}
	}
	// rule blocks of the grammar
	ruleStart := regexp.MustCompile(`(?m)^(fragment\s+)?([A-Za-z_][A-Za-z0-9_]*)\s*:`)
	src := string(g4)
	// drop line comments so that commented-out rules do not count
	src = regexp.MustCompile(`(?m)^\s*//.*$`).ReplaceAllString(src, "")
	idx := ruleStart.FindAllStringSubmatchIndex(src, -1)
	type tok struct {
		name                          string
		ty                            int
		setsNL, resets, calcs, hidden bool
	}
	var toks []tok
	for i, m := range idx {
		end := len(src)
		if i+1 < len(idx) {
			end = idx[i+1][0]
		}
		body := src[m[0]:end]
		name := src[m[4]:m[5]]
		if m[2] >= 0 && strings.HasPrefix(src[m[2]:m[3]], "fragment") {
			continue
		}
		if name == "mode" || name == "tokens" || name == "lexer" || name == "ls" {
			continue
		}
		ty, ok := types[name]
		if !ok {
			continue
		}
		toks = append(toks, tok{name: name, ty: ty,
			setsNL: regexp.MustCompile(`gotNewLine\s*=\s*true`).MatchString(body),
			resets: regexp.MustCompile(`\.spaces\s*=\s*0`).MatchString(body),
			calcs:  strings.Contains(body, "calcSpaces("),
			hidden: regexp.MustCompile(`channel\(\s*HIDDEN\s*\)`).MatchString(body),
		})
	}
	// bypass case list and calcSpaces constants from lexer_impl.go
	impl := parseFile(fset, "pkg/grammar/lexer_impl.go")
	var bypass []string
	type cs struct {
		ch  string
		inc int
	}
	var csTab []cs
	for _, d := range impl.Decls {
		fd, ok := d.(*ast.FuncDecl)
		if !ok || fd.Body == nil {
			continue
		}
		switch fd.Name.Name {
		case "getNextToken":
			done := false
			ast.Inspect(fd.Body, func(n ast.Node) bool {
				if done {
					return false
				}
				if ifs, ok := n.(*ast.IfStmt); ok {
					// the first `if ls.gotNewLine { switch ... }`
					if sel, ok := ifs.Cond.(*ast.SelectorExpr); ok && sel.Sel.Name == "gotNewLine" {
						ast.Inspect(ifs.Body, func(m ast.Node) bool {
							if cc, ok := m.(*ast.CaseClause); ok {
								for _, e := range cc.List {
									if id, ok := e.(*ast.Ident); ok {
										bypass = append(bypass, strings.TrimPrefix(id.Name, "SyslLexer"))
									}
								}
							}
							return true
						})
						done = true
						return false
					}
				}
				return true
			})
		case "calcSpaces":
			ast.Inspect(fd.Body, func(n ast.Node) bool {
				ifs, ok := n.(*ast.IfStmt)
				if !ok {
					return true
				}
				be, ok := ifs.Cond.(*ast.BinaryExpr)
				if !ok || be.Op != token.EQL {
					return true
				}
				lit, ok := be.Y.(*ast.BasicLit)
				if !ok || lit.Kind != token.CHAR {
					return true
				}
				inc := 0
				for _, st := range ifs.Body.List {
					switch x := st.(type) {
					case *ast.IncDecStmt:
						if x.Tok == token.INC {
							inc = 1
						}
					case *ast.AssignStmt:
						if x.Tok == token.ADD_ASSIGN {
							if bl, ok := x.Rhs[0].(*ast.BasicLit); ok {
								inc, _ = strconv.Atoi(bl.Value)
							}
						}
					}
				}
				csTab = append(csTab, cs{lit.Value, inc})
				return true
			})
		}
	}
	var b strings.Builder
	b.WriteString("namespace SyslModel.Gen\n\n")
	b.WriteString("structure LexTok where\n  name : String\n  ty : Nat\n  setsNL : Bool\n  resetsSpaces : Bool\n  calcs : Bool\n  hidden : Bool\nderiving Repr, DecidableEq\n\n")
	b.WriteString("/-- lexer tokens of pkg/grammar/SyslLexer.g4 with the effect of their actions on the indentation state -/\n")
	b.WriteString("def lexTokens : List LexTok := [\n")
	for i, t := range toks {
		sep := ","
		if i == len(toks)-1 {
			sep = ""
		}
		fmt.Fprintf(&b, "  { name := %s, ty := %d, setsNL := %v, resetsSpaces := %v, calcs := %v, hidden := %v }%s\n",
			leanStr(t.name), t.ty, t.setsNL, t.resets, t.calcs, t.hidden, sep)
	}
	b.WriteString("]\n\n/-- token kinds `getNextToken` returns unprocessed while gotNewLine is set (lexer_impl.go) -/\n")
	fmt.Fprintf(&b, "def bypassTokens : List String := %s\n\n", leanStrList(bypass))
	b.WriteString("/-- (character, increment) pairs of `calcSpaces` -/\ndef calcSpacesTable : List (Char × Nat) := [")
	for i, c := range csTab {
		if i > 0 {
			b.WriteString(", ")
		}
		fmt.Fprintf(&b, "(%s, %d)", c.ch, c.inc)
	}
	b.WriteString("]\n\nend SyslModel.Gen\n")
	writeGen("LexTokens.lean", b.String())
}
