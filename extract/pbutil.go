package main

// PbUtil: the clean-up pattern of the JSON encoder and the suffix -> decoder dispatch of
// pkg/pbutil (C09).

import (
	"go/ast"
	"go/token"
	"strconv"
	"strings"
)

func init() { emitters["PbUtil"] = emitPbUtil }

func emitPbUtil() {
	fset := token.NewFileSet()
	out := parseFile(fset, "pkg/pbutil/output.go")
	pattern := ""
	ast.Inspect(out, func(n ast.Node) bool {
		vs, ok := n.(*ast.ValueSpec)
		if !ok || len(vs.Names) != 1 || vs.Names[0].Name != "extraSpaceAfterKeyRE" || len(vs.Values) != 1 {
			return true
		}
		if call, ok := vs.Values[0].(*ast.CallExpr); ok && len(call.Args) == 1 {
			if bl, ok := call.Args[0].(*ast.BasicLit); ok {
				pattern, _ = strconv.Unquote(bl.Value)
			}
		}
		return true
	})
	if pattern == "" {
		die("extraSpaceAfterKeyRE not found")
	}
	in := parseFile(fset, "pkg/pbutil/input.go")
	var suffixes []string
	for _, d := range in.Decls {
		fd, ok := d.(*ast.FuncDecl)
		if !ok || fd.Name.Name != "fromPBContents" {
			continue
		}
		ast.Inspect(fd.Body, func(n ast.Node) bool {
			cc, ok := n.(*ast.CaseClause)
			if !ok {
				return true
			}
			for _, e := range cc.List {
				if call, ok := e.(*ast.CallExpr); ok && len(call.Args) == 2 {
					if sel, ok := call.Fun.(*ast.SelectorExpr); ok && sel.Sel.Name == "HasSuffix" {
						if bl, ok := call.Args[1].(*ast.BasicLit); ok {
							sfx, _ := strconv.Unquote(bl.Value)
							dec := ""
							ast.Inspect(cc, func(m ast.Node) bool {
								if c2, ok := m.(*ast.CallExpr); ok {
									if s2, ok := c2.Fun.(*ast.SelectorExpr); ok && s2.Sel.Name == "Unmarshal" {
										if id, ok := s2.X.(*ast.Ident); ok {
											dec = id.Name
										}
									}
								}
								return true
							})
							suffixes = append(suffixes, sfx+"="+dec)
						}
					}
				}
			}
			return true
		})
	}
	writeGen("PbUtil.lean", "namespace SyslModel.Gen\n\n/-- the pattern the JSON encoder's bytes are cleaned with -/\ndef jsonCleanPattern : String := "+leanStr(pattern)+
		"\n\n/-- fromPBContents: suffix=decoder package, in case order -/\ndef pbSuffixes : List String := "+leanStrList(suffixes)+"\n\nend SyslModel.Gen\n")
	_ = strings.TrimSpace
}
