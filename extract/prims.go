package main

// Prims: the native data type names of the grammar (SyslLexer.g4, rule NativeDataTypes), the
// primitive enum of the model (sysl.pb.go), the REST verbs, and the cases of
// primitiveFromNativeDataType (pkg/parse/utils.go) that attach a bit width.  (C02)

import (
	"go/ast"
	"go/token"
	"os"
	"path/filepath"
	"regexp"
	"sort"
	"strconv"
	"strings"
)

func init() { emitters["Prims"] = emitPrims }

func emitPrims() {
	g4, err := os.ReadFile(filepath.Join(repo, "pkg/grammar/SyslLexer.g4"))
	if err != nil {
		die("%v", err)
	}
	rule := regexp.MustCompile(`(?s)\nNativeDataTypes\s*:\s*(.*?)\{`).FindSubmatch(g4)
	if rule == nil {
		die("NativeDataTypes rule not found")
	}
	// alternatives look like (I N T '3' '2') | (S T R I N G)
	var natives []string
	for _, alt := range regexp.MustCompile(`\(\s*([A-Z0-9' ]+?)\s*\)`).FindAllSubmatch(rule[1], -1) {
		name := strings.ToLower(strings.NewReplacer(" ", "", "'", "").Replace(string(alt[1])))
		if name != "" {
			natives = append(natives, name)
		}
	}
	verbs := regexp.MustCompile(`\nHTTP_VERBS\s*:\s*\((.*?)\)`).FindSubmatch(g4)
	if verbs == nil {
		die("HTTP_VERBS rule not found")
	}
	var vs []string
	for _, v := range regexp.MustCompile(`'([A-Z]+)'`).FindAllSubmatch(verbs[1], -1) {
		vs = append(vs, string(v[1]))
	}
	// enum names of Type_Primitive
	fset := token.NewFileSet()
	pb := parseFile(fset, "pkg/sysl/sysl.pb.go")
	var enum []string
	ast.Inspect(pb, func(n ast.Node) bool {
		kv, ok := n.(*ast.KeyValueExpr)
		if !ok {
			return true
		}
		return true && kv != nil
	})
	for _, d := range pb.Decls {
		gd, ok := d.(*ast.GenDecl)
		if !ok || gd.Tok != token.VAR {
			continue
		}
		for _, sp := range gd.Specs {
			vs2 := sp.(*ast.ValueSpec)
			for i, nm := range vs2.Names {
				if nm.Name != "Type_Primitive_name" || i >= len(vs2.Values) {
					continue
				}
				if cl, ok := vs2.Values[i].(*ast.CompositeLit); ok {
					for _, e := range cl.Elts {
						if kv, ok := e.(*ast.KeyValueExpr); ok {
							if bl, ok := kv.Value.(*ast.BasicLit); ok {
								s, _ := strconv.Unquote(bl.Value)
								enum = append(enum, s)
							}
						}
					}
				}
			}
		}
	}
	sort.Strings(enum)
	// the case labels of primitiveFromNativeDataType with the bit width each sets
	utils := parseFile(fset, "pkg/parse/utils.go")
	var widths []string
	for _, d := range utils.Decls {
		fd, ok := d.(*ast.FuncDecl)
		if !ok || fd.Name.Name != "primitiveFromNativeDataType" {
			continue
		}
		ast.Inspect(fd.Body, func(n ast.Node) bool {
			cc, ok := n.(*ast.CaseClause)
			if !ok || len(cc.List) != 1 {
				return true
			}
			lab, ok := cc.List[0].(*ast.BasicLit)
			if !ok {
				return true
			}
			name, _ := strconv.Unquote(lab.Value)
			bw := ""
			ast.Inspect(cc, func(m ast.Node) bool {
				if kv, ok := m.(*ast.KeyValueExpr); ok {
					if id, ok := kv.Key.(*ast.Ident); ok && id.Name == "BitWidth" {
						if bl, ok := kv.Value.(*ast.BasicLit); ok {
							bw = bl.Value
						}
					}
				}
				return true
			})
			widths = append(widths, strings.ToLower(name)+":"+bw)
			return true
		})
	}
	sort.Strings(widths)
	writeGen("Prims.lean", "namespace SyslModel.Gen\n\n/-- alternatives of the lexer rule NativeDataTypes, lower-cased, in grammar order -/\ndef nativeDataTypes : List String := "+leanStrList(natives)+
		"\n\n/-- alternatives of the lexer rule HTTP_VERBS -/\ndef httpVerbs : List String := "+leanStrList(vs)+
		"\n\n/-- names of the protobuf enum Type.Primitive -/\ndef primitiveEnum : List String := "+leanStrList(enum)+
		"\n\n/-- primitiveFromNativeDataType: name:bit width of the cases that refine a base kind -/\ndef nativeBitWidths : List String := "+leanStrList(widths)+"\n\nend SyslModel.Gen\n")
}
