package main

// Regions: the region tree of (*Parser).Parse for the Guard model (C01): which code runs under
// a deferred recover() of its own goroutine, where goroutines are started, and which leaves
// contain process-exit calls.

import (
	"fmt"
	"go/ast"
	"go/token"
	"strings"
)

func init() { emitters["Regions"] = emitRegions }

type regionCtx struct {
	funcs map[string][]*ast.FuncDecl // by name (methods and functions of the package; a method name can have several receivers)
	recvs map[string]bool            // identifiers accepted as receivers of intra-package calls ("" = plain function)
	anyRecv bool
}

func (rc *regionCtx) first(name string) *ast.FuncDecl {
	if l := rc.funcs[name]; len(l) > 0 {
		return l[0]
	}
	return nil
}

func isExitCall(c *ast.CallExpr) bool {
	s, ok := c.Fun.(*ast.SelectorExpr)
	if !ok {
		return false
	}
	x, ok := s.X.(*ast.Ident)
	if !ok {
		return false
	}
	n := s.Sel.Name
	switch x.Name {
	case "os":
		return n == "Exit"
	case "logrus", "log":
		return strings.HasPrefix(n, "Fatal")
	}
	return false
}

func containsExit(n ast.Node) bool {
	found := false
	ast.Inspect(n, func(m ast.Node) bool {
		if c, ok := m.(*ast.CallExpr); ok && isExitCall(c) {
			found = true
		}
		return !found
	})
	return found
}

func callsRecover(n ast.Node) bool {
	found := false
	ast.Inspect(n, func(m ast.Node) bool {
		if c, ok := m.(*ast.CallExpr); ok {
			if id, ok := c.Fun.(*ast.Ident); ok && id.Name == "recover" {
				found = true
			}
		}
		return !found
	})
	return found
}

// hasDeferredRecover: the function body starts a deferred function that calls recover() directly
func (rc *regionCtx) hasDeferredRecover(body *ast.BlockStmt) bool {
	for _, st := range body.List {
		d, ok := st.(*ast.DeferStmt)
		if !ok {
			continue
		}
		switch f := d.Call.Fun.(type) {
		case *ast.FuncLit:
			if callsRecover(f.Body) {
				return true
			}
		case *ast.Ident:
			if fd := rc.first(f.Name); fd != nil && fd.Body != nil && callsRecover(fd.Body) {
				return true
			}
		case *ast.SelectorExpr:
			if fd := rc.first(f.Sel.Name); fd != nil && fd.Body != nil && callsRecover(fd.Body) {
				return true
			}
		}
	}
	return false
}

func calleeName(c *ast.CallExpr) (pkgOrRecv, name string) {
	switch f := c.Fun.(type) {
	case *ast.Ident:
		return "", f.Name
	case *ast.SelectorExpr:
		if x, ok := f.X.(*ast.Ident); ok {
			return x.Name, f.Sel.Name
		}
		return "?", f.Sel.Name
	}
	return "", ""
}

// region of a function body (own code + callees in source order)
func (rc *regionCtx) bodyRegion(name string, body *ast.BlockStmt, stack []string, listenerExit bool) string {
	var children []string
	ownExit := false
	stk := append(append([]string{}, stack...), name)
	if len(stk) > 40 {
		return fmt.Sprintf("Region.leaf %s false", leanStr("deep:"+name))
	}
	var visit func(n ast.Node) bool
	visit = func(n ast.Node) bool {
		switch x := n.(type) {
		case *ast.FuncLit:
			// a closure that is not started as a goroutine runs inline
			return true
		case *ast.GoStmt:
			if lit, ok := x.Call.Fun.(*ast.FuncLit); ok {
				children = append(children, "Region.par ["+rc.litRegion(name+".go", lit, stk, listenerExit)+"]")
				return false
			}
		case *ast.CallExpr:
			if isExitCall(x) {
				ownExit = true
			}
			recv, fn := calleeName(x)
			// errgroup: g.Go(func() error {...})
			if fn == "Go" && len(x.Args) == 1 {
				if lit, ok := x.Args[0].(*ast.FuncLit); ok {
					children = append(children, "Region.par ["+rc.litRegion(name+".goroutine", lit, stk, listenerExit)+"]")
					return false
				}
			}
			if recv == "walker" && fn == "Walk" {
				children = append(children, fmt.Sprintf("Region.leaf \"treewalk\" %v", listenerExit))
				return true
			}
			if cands := rc.funcs[fn]; len(cands) > 0 && (rc.anyRecv || rc.recvs[recv]) {
				for _, s := range stk {
					if s == fn || strings.HasSuffix(s, "."+fn) {
						// recursion: the callee's region is the one already being described
						children = append(children, fmt.Sprintf("Region.leaf %s false", leanStr("rec:"+fn)))
						return true
					}
				}
				for _, fd := range cands {
					if fd.Body != nil {
						children = append(children, rc.funcRegion(fd, stk, listenerExit))
					}
				}
			}
		}
		return true
	}
	ast.Inspect(body, visit)
	own := fmt.Sprintf("Region.leaf %s %v", leanStr(name), ownExit)
	r := "Region.seq [" + strings.Join(append([]string{own}, children...), ", ") + "]"
	return r
}

func (rc *regionCtx) litRegion(name string, lit *ast.FuncLit, stack []string, listenerExit bool) string {
	r := rc.bodyRegion(name, lit.Body, stack, listenerExit)
	if rc.hasDeferredRecover(lit.Body) {
		return "Region.guarded (" + r + ")"
	}
	return r
}

func (rc *regionCtx) funcRegion(fd *ast.FuncDecl, stack []string, listenerExit bool) string {
	name := fd.Name.Name
	if fd.Recv != nil && len(fd.Recv.List) == 1 && len(rc.funcs[name]) > 1 {
		// several receivers share the method name: qualify the leaf
		switch t := fd.Recv.List[0].Type.(type) {
		case *ast.StarExpr:
			if id, ok := t.X.(*ast.Ident); ok {
				name = id.Name + "." + name
			}
		case *ast.Ident:
			name = t.Name + "." + name
		}
	}
	r := rc.bodyRegion(name, fd.Body, stack, listenerExit)
	if rc.hasDeferredRecover(fd.Body) {
		return "Region.guarded (" + r + ")"
	}
	return r
}

func emitRegions() {
	fset := token.NewFileSet()
	files := parseDir(fset, "pkg/parse", false)
	rc := &regionCtx{funcs: map[string][]*ast.FuncDecl{}, recvs: map[string]bool{"": true, "p": true, "listener": true, "s": true}}
	listenerExit := false
	var exitSites []string
	for _, f := range files {
		for _, d := range f.Decls {
			fd, ok := d.(*ast.FuncDecl)
			if !ok || fd.Body == nil {
				continue
			}
			if len(rc.funcs[fd.Name.Name]) == 0 {
				rc.funcs[fd.Name.Name] = []*ast.FuncDecl{fd}
			}
			isListener := false
			if fd.Recv != nil && len(fd.Recv.List) == 1 {
				if st, ok := fd.Recv.List[0].Type.(*ast.StarExpr); ok {
					if id, ok := st.X.(*ast.Ident); ok && id.Name == "TreeShapeListener" {
						isListener = true
					}
				}
			}
			if containsExit(fd.Body) {
				exitSites = append(exitSites, fd.Name.Name)
				if isListener {
					listenerExit = true
				}
			}
		}
	}
	root := rc.first("Parse")
	if root == nil {
		die("(*Parser).Parse not found")
	}
	prog := rc.funcRegion(root, nil, listenerExit)
	var b strings.Builder
	b.WriteString("import SyslModel.Guard.Model\nnamespace SyslModel.Gen\nopen SyslModel.Guard\n\n")
	b.WriteString("/-- region tree of (*Parser).Parse, from pkg/parse/*.go -/\n")
	b.WriteString("def parseProgram : Region :=\n  " + prog + "\n\n")
	b.WriteString("/-- functions of pkg/parse that contain a process-exit call (os.Exit, logrus.Fatal*, log.Fatal*) -/\n")
	fmt.Fprintf(&b, "def parseExitSites : List String := %s\n\nend SyslModel.Gen\n", leanStrList(exitSites))
	writeGen("Regions.lean", b.String())
}

func init() { emitters["CmdRegions"] = emitCmdRegions }

// CmdRegions: the region tree of the sysl command (cmd/sysl), rooted at main2; every Execute
// method of a command is a child of the runner.
func emitCmdRegions() {
	fset := token.NewFileSet()
	files := parseDir(fset, "cmd/sysl", false)
	rc := &regionCtx{funcs: map[string][]*ast.FuncDecl{}, anyRecv: true}
	var exitSites []string
	for _, f := range files {
		for _, d := range f.Decls {
			fd, ok := d.(*ast.FuncDecl)
			if !ok || fd.Body == nil {
				continue
			}
			rc.funcs[fd.Name.Name] = append(rc.funcs[fd.Name.Name], fd)
			if containsExit(fd.Body) {
				exitSites = append(exitSites, fd.Name.Name)
			}
		}
	}
	root := rc.first("main2")
	if root == nil {
		die("main2 not found in cmd/sysl")
	}
	prog := rc.funcRegion(root, nil, false)
	var cmds []string
	for _, fd := range rc.funcs["Execute"] {
		if fd.Recv != nil && len(fd.Recv.List) == 1 {
			switch t := fd.Recv.List[0].Type.(type) {
			case *ast.StarExpr:
				if id, ok := t.X.(*ast.Ident); ok {
					cmds = append(cmds, id.Name)
				}
			case *ast.Ident:
				cmds = append(cmds, t.Name)
			}
		}
	}
	var b strings.Builder
	b.WriteString("import SyslModel.Guard.Model\nnamespace SyslModel.Gen\nopen SyslModel.Guard\n\n")
	b.WriteString("/-- region tree of the sysl command from cmd/sysl/*.go, rooted at main2 -/\n")
	b.WriteString("def cmdProgram : Region :=\n  " + prog + "\n\n")
	fmt.Fprintf(&b, "/-- command types that implement Execute -/\ndef cmdTypes : List String := %s\n\n", leanStrList(cmds))
	fmt.Fprintf(&b, "/-- functions of cmd/sysl that contain a process-exit call -/\ndef cmdExitSites : List String := %s\n\nend SyslModel.Gen\n", leanStrList(exitSites))
	writeGen("CmdRegions.lean", b.String())
}
