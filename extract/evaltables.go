package main

// EvalTables: keys of the evaluator's dispatch tables (pkg/eval/binexprEval.go, unaryEval.go)
// with the function each key is bound to.

import (
	"fmt"
	"go/ast"
	"go/token"
	"strings"
)

func init() { emitters["EvalTables"] = emitEvalTables }

func exprName(e ast.Expr) string {
	switch x := e.(type) {
	case *ast.Ident:
		return x.Name
	case *ast.SelectorExpr:
		return x.Sel.Name
	case *ast.CompositeLit:
		return exprName(x.Type)
	}
	return "?"
}

func emitEvalTables() {
	fset := token.NewFileSet()
	type row struct{ op, l, r, fn string }
	var valueF, exprF []row
	var strat, unary [][2]string
	for _, file := range []string{"pkg/eval/binexprEval.go", "pkg/eval/unaryEval.go"} {
		f := parseFile(fset, file)
		ast.Inspect(f, func(n ast.Node) bool {
			vs, ok := n.(*ast.ValueSpec)
			if !ok || len(vs.Names) != 1 || len(vs.Values) != 1 {
				return true
			}
			cl, ok := vs.Values[0].(*ast.CompositeLit)
			if !ok {
				return true
			}
			name := vs.Names[0].Name
			for _, el := range cl.Elts {
				kv, ok := el.(*ast.KeyValueExpr)
				if !ok {
					continue
				}
				switch name {
				case "valueFunctions", "exprFunctions":
					call, ok := kv.Key.(*ast.CallExpr)
					if !ok || len(call.Args) != 3 {
						continue
					}
					r := row{strings.TrimPrefix(exprName(call.Args[0]), "Expr_BinExpr_"), strings.TrimPrefix(exprName(call.Args[1]), "Value"),
						strings.TrimPrefix(exprName(call.Args[2]), "Value"), exprName(kv.Value)}
					if name == "valueFunctions" {
						valueF = append(valueF, r)
					} else {
						exprF = append(exprF, r)
					}
				case "functionEvalStrategy":
					strat = append(strat, [2]string{strings.TrimPrefix(exprName(kv.Key), "Expr_BinExpr_"), exprName(kv.Value)})
				case "unaryFunctions":
					unary = append(unary, [2]string{strings.TrimPrefix(exprName(kv.Key), "Expr_UnExpr_"), exprName(kv.Value)})
				}
			}
			return true
		})
	}
	var b strings.Builder
	b.WriteString("namespace SyslModel.Gen\n\n")
	w4 := func(name, doc string, rows []row) {
		fmt.Fprintf(&b, "/-- %s -/\ndef %s : List (String × String × String × String) := [\n", doc, name)
		for i, r := range rows {
			sep := ","
			if i == len(rows)-1 {
				sep = ""
			}
			fmt.Fprintf(&b, "  (%s, %s, %s, %s)%s\n", leanStr(r.op), leanStr(r.l), leanStr(r.r), leanStr(r.fn), sep)
		}
		b.WriteString("]\n\n")
	}
	w4("evalValueFunctions", "valueFunctions: (operator, left kind, right kind) ↦ function", valueF)
	w4("evalExprFunctions", "exprFunctions: (operator, container kind, item kind) ↦ function", exprF)
	w2 := func(name, doc string, rows [][2]string) {
		fmt.Fprintf(&b, "/-- %s -/\ndef %s : List (String × String) := [", doc, name)
		for i, r := range rows {
			if i > 0 {
				b.WriteString(", ")
			}
			fmt.Fprintf(&b, "(%s, %s)", leanStr(r[0]), leanStr(r[1]))
		}
		b.WriteString("]\n\n")
	}
	w2("evalStrategies", "functionEvalStrategy: operator ↦ strategy", strat)
	w2("evalUnaryFunctions", "unaryFunctions: operator ↦ function", unary)
	b.WriteString("end SyslModel.Gen\n")
	writeGen("EvalTables.lean", b.String())
}
