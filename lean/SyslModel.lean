import SyslModel.Path.Model
import SyslModel.Path.Props
import SyslModel.Expect.C18
import SyslModel.Closure.Model
import SyslModel.Closure.Props
import SyslModel.Closure.Flatten
