import SyslModel.Path.Model
import SyslModel.Path.Props
