/-
`oracle`: executes the model definitions over a line protocol.
stdin : one JSON object per line  {"op": "<area>.<fn>", ...}
stdout: one JSON value per line   (or {"err": "..."} )
Imports Model/Proto files only (core Lean), never proof files.
-/
import SyslModel.Core.Proto
import SyslModel.Path.Proto
import SyslModel.Closure.Proto
import SyslModel.Indent.Proto
import SyslModel.DbScript.Proto
import SyslModel.Ints.Proto
import SyslModel.SeqDiag.Proto
import SyslModel.Relmod.Proto
import SyslModel.Eval.Proto
import SyslModel.Compile.Proto
import SyslModel.JsonClean.Proto
import SyslModel.Export.Proto

open Lean (Json)
open SyslModel

def dispatch (op : String) (j : Json) : Option Json :=
  if op.startsWith "path." then Path.handle op j
  else if op.startsWith "closure." then Closure.handle op j
  else if op.startsWith "indent." then Indent.handle op j
  else if op.startsWith "db." then DbScript.handle op j
  else if op.startsWith "ints." then Ints.handle op j
  else if op.startsWith "sd." then SeqDiag.handle op j
  else if op.startsWith "relmod." then Relmod.handle op j
  else if op.startsWith "eval." then Eval.handle op j
  else if op.startsWith "compile." then Compile.handle op j
  else if op.startsWith "jsonclean." then JsonClean.handle op j
  else if op.startsWith "export." then Export.handle op j
  else none

def handleLine (line : String) : String :=
  match Json.parse line with
  | .error e => (Json.mkObj [("err", Json.str ("bad-json: " ++ e))]).compress
  | .ok j =>
    let op := Proto.strD j "op"
    match dispatch op j with
    | some r => r.compress
    | none => (Json.mkObj [("err", Json.str ("bad-op: " ++ op))]).compress

partial def loop (h : IO.FS.Stream) (out : IO.FS.Stream) : IO Unit := do
  let line ← h.getLine
  if line.isEmpty then return ()
  let t := line.trimAscii.toString
  if t.isEmpty then loop h out else
  out.putStrLn (handleLine t)
  loop h out

def main : IO Unit := do
  let out ← IO.getStdout
  loop (← IO.getStdin) out
  out.flush
