/-
C19 — permutation-invariance laws for the loop shapes of `Range`.
-/
import SyslModel.Range.Model

namespace SyslModel.Range

/-! ## helper lemmas -/

theorem mem_insertSet (x y : Nat) (l : List Nat) : y ∈ insertSet x l ↔ y = x ∨ y ∈ l := by
  induction l with
  | nil => simp [insertSet]
  | cons z zs ih =>
    simp only [insertSet]
    split
    · rename_i h; subst h; simp
    · split
      · simp
      · simp [ih]
        constructor
        · rintro (h | h | h)
          · exact Or.inr (Or.inl h)
          · exact Or.inl h
          · exact Or.inr (Or.inr h)
        · rintro (h | h | h)
          · exact Or.inr (Or.inl h)
          · exact Or.inl h
          · exact Or.inr (Or.inr h)

theorem sorted_insertSet (x : Nat) (l : List Nat) (h : l.Pairwise (· < ·)) : (insertSet x l).Pairwise (· < ·) := by
  induction l with
  | nil => simp [insertSet]
  | cons z zs ih =>
    rw [List.pairwise_cons] at h
    simp only [insertSet]
    split
    · rw [List.pairwise_cons]; exact h
    · rename_i hne
      split
      · rename_i hlt
        rw [List.pairwise_cons]
        refine ⟨?_, by rw [List.pairwise_cons]; exact h⟩
        intro a ha
        simp at ha
        rcases ha with rfl | ha
        · exact hlt
        · exact Nat.lt_trans hlt (h.1 a ha)
      · rename_i hnl
        rw [List.pairwise_cons]
        refine ⟨?_, ih h.2⟩
        intro a ha
        rcases (mem_insertSet x a zs).1 ha with rfl | ha
        · omega
        · exact h.1 a ha

theorem foldl_insert_sorted (xs acc : List Nat) (h : acc.Pairwise (· < ·)) :
    (xs.foldl (fun a x => insertSet x a) acc).Pairwise (· < ·) := by
  induction xs generalizing acc with
  | nil => exact h
  | cons y ys ih => exact ih _ (sorted_insertSet y acc h)

theorem foldl_insert_mem (xs acc : List Nat) (y : Nat) :
    y ∈ xs.foldl (fun a x => insertSet x a) acc ↔ y ∈ acc ∨ y ∈ xs := by
  induction xs generalizing acc with
  | nil => simp
  | cons z zs ih =>
    simp only [List.foldl_cons, ih, mem_insertSet, List.mem_cons]
    constructor
    · rintro ((h | h) | h)
      · exact Or.inr (Or.inl h)
      · exact Or.inl h
      · exact Or.inr (Or.inr h)
    · rintro (h | h | h)
      · exact Or.inl (Or.inr h)
      · exact Or.inl (Or.inl h)
      · exact Or.inr h

/-- two strictly sorted lists with the same members are equal -/
theorem sorted_ext (l₁ l₂ : List Nat) (h₁ : l₁.Pairwise (· < ·)) (h₂ : l₂.Pairwise (· < ·))
    (hm : ∀ x, x ∈ l₁ ↔ x ∈ l₂) : l₁ = l₂ := by
  have n₁ : l₁.Nodup := h₁.imp (fun h => Nat.ne_of_lt h)
  have n₂ : l₂.Nodup := h₂.imp (fun h => Nat.ne_of_lt h)
  have p : l₁.Perm l₂ := (List.perm_ext_iff_of_nodup n₁ n₂).2 hm
  exact List.Perm.eq_of_pairwise (le := (· < ·)) (fun a b _ _ hab hba => by omega) h₁ h₂ p

/-! ## PROPERTY THEOREMS (C19) -/

/-- **sort_perm**: a loop that only collects what it visits and sorts it afterwards hands on
    the same list whatever order the map was visited in -/
theorem collectSort_perm (v₁ v₂ : List Nat) (h : v₁.Perm v₂) : collectSort v₁ = collectSort v₂ := by
  unfold collectSort
  have le_trans : ∀ (a b c : Nat), decide (a ≤ b) = true → decide (b ≤ c) = true → decide (a ≤ c) = true := by
    intro a b c h1 h2; simp at *; omega
  have le_total : ∀ (a b : Nat), (decide (a ≤ b) || decide (b ≤ a)) = true := by
    intro a b; simp; omega
  apply List.Perm.eq_of_pairwise (le := fun a b => decide (a ≤ b) = true)
  · intro a b _ _ h1 h2; simp at *; omega
  · exact List.pairwise_mergeSort le_trans le_total v₁
  · exact List.pairwise_mergeSort le_trans le_total v₂
  · exact (List.mergeSort_perm v₁ _).trans (h.trans (List.mergeSort_perm v₂ _).symm)

/-- **foldl_insert_perm**: a loop whose body only inserts into a set (or into another map under
    distinct keys) yields the same set whatever the visiting order -/
theorem foldInsert_perm (v₁ v₂ : List Nat) (h : v₁.Perm v₂) : foldInsert v₁ = foldInsert v₂ := by
  unfold foldInsert
  apply sorted_ext
  · exact foldl_insert_sorted v₁ [] List.Pairwise.nil
  · exact foldl_insert_sorted v₂ [] List.Pairwise.nil
  · intro x
    rw [foldl_insert_mem, foldl_insert_mem]
    simp [h.mem_iff]

/-- **commFold_perm**: any loop whose body is an update that commutes with itself on distinct
    entries (set insertion, a write into another map under the entry's own key, min / max / sum,
    counting) leaves the same state whatever order the map is visited in.  The general law behind
    the "insensitive" class of the regenerated census. -/
theorem commFold_perm {σ α : Type} (f : σ → α → σ) (hc : ∀ s a b, a ≠ b → f (f s a) b = f (f s b) a)
    (v₁ v₂ : List α) (h : v₁.Perm v₂) (s : σ) : v₁.foldl f s = v₂.foldl f s := by
  induction h generalizing s with
  | nil => rfl
  | cons x _ ih => simp only [List.foldl_cons]; exact ih _
  | swap x y l =>
    simp only [List.foldl_cons]
    rcases Classical.em (y = x) with e | e
    · rw [e]
    · rw [hc s y x e]
  | trans _ _ ih₁ ih₂ => exact (ih₁ s).trans (ih₂ s)

/-- a destination map as a total lookup function; `upd` is `dst[k] = v` -/
def upd (m : Nat → Option Nat) (k v : Nat) : Nat → Option Nat := fun k' => if k' = k then some v else m k'

/-- **mapWrite_perm**: `for e := range src { dst[wk e] = wv e }` is order-independent when the
    written key determines the entry (e.g. it is the loop key itself) -/
theorem mapWrite_perm {α : Type} (wk wv : α → Nat) (hinj : ∀ a b, wk a = wk b → a = b)
    (v₁ v₂ : List α) (h : v₁.Perm v₂) (m : Nat → Option Nat) :
    v₁.foldl (fun m e => upd m (wk e) (wv e)) m = v₂.foldl (fun m e => upd m (wk e) (wv e)) m := by
  apply commFold_perm _ _ v₁ v₂ h
  intro s a b hab
  have hk : wk a ≠ wk b := fun e => hab (hinj a b e)
  funext k'
  simp only [upd]
  by_cases h1 : k' = wk b
  · by_cases h2 : k' = wk a
    · exact absurd (h2.symm.trans h1) hk
    · subst h1; simp [Ne.symm hk]
  · by_cases h2 : k' = wk a
    · subst h2; simp [hk]
    · simp [h1, h2]

/-- **mapWrite_collision_depends**: when two entries are written under the same key the last
    visited wins, so the result depends on the order: the caveat of the "insensitive" class,
    left to the repetition runs -/
theorem mapWrite_collision_depends :
    ∃ v₁ v₂ : List (Nat × Nat), v₁.Perm v₂ ∧
      v₁.foldl (fun m e => upd m 0 e.2) (fun _ => none) 0 ≠ v₂.foldl (fun m e => upd m 0 e.2) (fun _ => none) 0 :=
  ⟨[(1, 10), (2, 20)], [(2, 20), (1, 10)], List.Perm.swap _ _ [], by simp [upd]⟩

/-- **firstMatch_depends**: a loop that stops at the first entry satisfying a test (`break`,
    `return`) depends on the order as soon as two entries satisfy it -/
theorem firstMatch_depends :
    ∃ v₁ v₂ : List Nat, v₁.Perm v₂ ∧ v₁.find? (fun _ => true) ≠ v₂.find? (fun _ => true) :=
  ⟨[1, 2], [2, 1], List.Perm.swap _ _ [], by decide⟩

/-- **ordered_output_depends**: a loop that emits in visiting order is NOT invariant — two
    entries are enough.  This is why every unsorted range site over a map that reaches ordered
    output is an obligation. -/
theorem emitInOrder_depends : ∃ v₁ v₂ : List Nat, v₁.Perm v₂ ∧ emitInOrder v₁ ≠ emitInOrder v₂ :=
  ⟨[1, 2], [2, 1], List.Perm.swap 2 1 [], by decide⟩

/-- … and invariance is trivial with at most one entry, which is why single-entry goldens
    never see the difference -/
theorem emitInOrder_single (v₁ v₂ : List Nat) (h : v₁.Perm v₂) (hl : v₁.length ≤ 1) :
    emitInOrder v₁ = emitInOrder v₂ := by
  unfold emitInOrder
  match v₁, hl with
  | [], _ => exact (List.perm_nil.1 h.symm).symm
  | [a], _ => exact (List.perm_singleton.1 h.symm).symm

end SyslModel.Range
