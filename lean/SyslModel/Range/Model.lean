/-
C19 — `Range`: Go's `for k, v := range m` over a map visits the entries in an arbitrary order.
A map is modelled as a list of entries with distinct keys; an iteration is any permutation of
that list (`List.Perm`).  The three loop shapes found in the generators:
  * collect the keys (or entries), sort, then emit            → `collectSort`
  * fold a commutative update (insert into a set / another map) → `foldInsert`
  * append to the output in iteration order                   → `emitInOrder`
Core Lean only.
-/
namespace SyslModel.Range

/-- collect-then-sort: what the loop hands on is `sort (visited entries)` -/
def collectSort (visited : List Nat) : List Nat := visited.mergeSort (fun a b => decide (a ≤ b))

/-- insert into a duplicate-free, sorted set representation -/
def insertSet (x : Nat) : List Nat → List Nat
  | [] => [x]
  | y :: ys => if x = y then y :: ys else if x < y then x :: y :: ys else y :: insertSet x ys

/-- fold of set insertion over the visited keys -/
def foldInsert (visited : List Nat) : List Nat := visited.foldl (fun acc x => insertSet x acc) []

/-- emission in iteration order -/
def emitInOrder (visited : List Nat) : List Nat := visited

end SyslModel.Range
