/-
C03 — theorems about the INDENT/DEDENT synthesiser model.
-/
import SyslModel.Indent.Model

namespace SyslModel.Indent

/-- strictly monotone re-scaling of widths that fixes 0 -/
structure Scale (f : Nat → Nat) : Prop where
  zero : f 0 = 0
  mono : ∀ a b, a < b → f a < f b

theorem Scale.inj {f} (h : Scale f) (a b : Nat) : f a = f b ↔ a = b := by
  constructor
  · intro e
    rcases Nat.lt_trichotomy a b with l | l | l
    · have := h.mono a b l; omega
    · exact l
    · have := h.mono b a l; omega
  · intro e; rw [e]

theorem Scale.lt {f} (h : Scale f) (a b : Nat) : f a < f b ↔ a < b := by
  constructor
  · intro l
    rcases Nat.lt_trichotomy a b with l' | l' | l'
    · exact l'
    · rw [l'] at l; omega
    · have := h.mono b a l'; omega
  · exact h.mono a b

theorem Scale.pos {f} (h : Scale f) (a : Nat) : f a > 0 ↔ a > 0 := by
  have := h.lt 0 a
  rw [h.zero] at this
  exact this

/-! ## helper lemmas -/

theorem adjust_scale {f} (h : Scale f) (w : Nat) (l : List Nat) :
    adjust (f w) (l.map f) = ((adjust w l).1.map f, (adjust w l).2) := by
  induction l with
  | nil =>
    simp only [adjust, List.map_nil]
    by_cases hw : w > 0
    · have := (h.pos w).2 hw
      simp [hw, this]
    · have h0 : w = 0 := by omega
      subst h0
      simp [h.zero]
  | cons t rest ih =>
    simp only [adjust, List.map_cons]
    by_cases e : w = t
    · subst e; simp
    · have e' : ¬ f w = f t := fun x => e ((h.inj w t).1 x)
      simp only [e, e', if_false]
      by_cases g : w > t
      · have g' : f w > f t := (h.lt t w).2 g
        simp [g, g']
      · have g' : ¬ f w > f t := fun x => g ((h.lt t w).1 x)
        simp only [g, g', if_false]
        rw [ih]

theorem adjust_out_fix (f : Nat → Nat) (w : Nat) (l : List Nat) :
    (adjust w l).2.map (Out.mapW f) = (adjust w l).2 := by
  induction l with
  | nil => simp only [adjust]; split <;> simp [Out.mapW]
  | cons t rest ih =>
    simp only [adjust]
    split
    · simp
    · split
      · simp [Out.mapW]
      · simp [Out.mapW, ih]

def LS.mapW (f : Nat → Nat) (s : LS) : LS := { level := s.level.map f, spaces := f s.spaces, gotNL := s.gotNL }

theorem step_scale {f} (h : Scale f) (s : LS) (r : Raw) :
    step (s.mapW f) (r.mapW f) = ((step s r).1.mapW f, (step s r).2.map (Out.mapW f)) := by
  obtain ⟨level, spaces, gotNL⟩ := s
  have h0 := adjust_scale h 0 level
  rw [h.zero] at h0
  cases r <;> cases gotNL <;>
    simp [step, LS.mapW, Raw.mapW, Out.mapW, h.zero, adjust_scale h, adjust_out_fix, h0]

theorem synthFrom_scale {f} (h : Scale f) (rs : List Raw) (s : LS) :
    synthFrom (s.mapW f) (rs.map (Raw.mapW f)) =
      ((synthFrom s rs).1.mapW f, (synthFrom s rs).2.map (Out.mapW f)) := by
  induction rs generalizing s with
  | nil => simp [synthFrom]
  | cons r rest ih =>
    simp only [synthFrom, List.map_cons]
    rw [step_scale h, ih]
    simp

/-- the stack invariant: #INDENT − #DEDENT emitted = stack height change -/
theorem beq_di : (Out.dedent == Out.indent) = false := by decide
theorem beq_id : (Out.indent == Out.dedent) = false := by decide
theorem beq_ii : (Out.indent == Out.indent) = true := by decide
theorem beq_dd : (Out.dedent == Out.dedent) = true := by decide

theorem adjust_balance (w : Nat) (l : List Nat) :
    countIn (adjust w l).2 + l.length = countDe (adjust w l).2 + (adjust w l).1.length := by
  induction l with
  | nil => simp only [adjust]; split <;> simp [countIn, countDe, beq_ii, beq_id]
  | cons t rest ih =>
    simp only [adjust]
    split
    · simp [countIn, countDe]
    · split
      · simp [countIn, countDe, beq_ii, beq_id]; omega
      · simp only [countIn, countDe, List.length_cons] at ih ⊢
        simp only [List.filter, beq_di, beq_dd, List.length_cons]
        omega

theorem adjust_zero_empty (l : List Nat) (h : ∀ x ∈ l, x > 0) : (adjust 0 l).1 = [] := by
  induction l with
  | nil => simp [adjust]
  | cons t rest ih =>
    have ht := h t (by simp)
    simp only [adjust]
    have e1 : ¬ (0 = t) := by omega
    have e2 : ¬ (0 > t) := by omega
    simp only [e1, e2, if_false]
    exact ih (fun x hx => h x (by simp [hx]))

theorem adjust_pos (w : Nat) (l : List Nat) (h : ∀ x ∈ l, x > 0) : ∀ x ∈ (adjust w l).1, x > 0 := by
  induction l with
  | nil =>
    simp only [adjust]
    split
    · intro x hx; simp at hx; omega
    · intro x hx; cases hx
  | cons t rest ih =>
    have ht := h t (by simp)
    simp only [adjust]
    split
    · exact h
    · split
      · intro x hx
        simp at hx
        rcases hx with rfl | rfl | hx
        · omega
        · exact ht
        · exact h x (by simp [hx])
      · exact ih (fun x hx => h x (by simp [hx]))

theorem step_balance (s : LS) (r : Raw) :
    countIn (step s r).2 + s.level.length = countDe (step s r).2 + (step s r).1.level.length := by
  obtain ⟨level, spaces, gotNL⟩ := s
  cases r <;> cases gotNL <;> simp [step, countIn, countDe]
  all_goals (first
    | (have := adjust_balance spaces level; simp only [countIn, countDe] at this; omega)
    | (rename_i t w; have := adjust_balance w level; simp only [countIn, countDe] at this; omega)
    | (have := adjust_balance 0 level; simp only [countIn, countDe] at this; omega))

theorem step_pos (s : LS) (r : Raw) (h : ∀ x ∈ s.level, x > 0) : ∀ x ∈ (step s r).1.level, x > 0 := by
  obtain ⟨level, spaces, gotNL⟩ := s
  cases r <;> cases gotNL <;> simp only [step] <;> first | exact h | exact adjust_pos _ _ h

/-! ## PROPERTY THEOREMS (C03) -/

/-- **synth_mono**: re-scaling every leading-whitespace width by ANY strictly monotone map
    that fixes 0 (in particular multiplying by k ≥ 1) leaves the emitted token stream —
    synthetic INDENT/DEDENT tokens included — unchanged, up to the widths themselves. -/
theorem synth_mono {f} (h : Scale f) (rs : List Raw) :
    synth (rs.map (Raw.mapW f)) = (synth rs).map (Out.mapW f) := by
  unfold synth
  have := synthFrom_scale h rs {}
  have e : (({} : LS).mapW f) = {} := by simp [LS.mapW, h.zero]
  rw [e] at this
  rw [this]

/-- multiplication by k ≥ 1 is such a map -/
theorem scale_mul (k : Nat) (hk : k ≥ 1) : Scale (fun w => k * w) := by
  refine ⟨by simp, ?_⟩
  intro a b hab
  exact Nat.mul_lt_mul_of_pos_left hab (by omega)

theorem synth_scale (k : Nat) (hk : k ≥ 1) (rs : List Raw) :
    synth (rs.map (Raw.mapW (fun w => k * w))) = (synth rs).map (Out.mapW (fun w => k * w)) :=
  synth_mono (scale_mul k hk) rs

/-- **calcSpaces_tab**: a tab counts as four spaces, so writing leading runs with tabs for
    4-space units gives the same width -/
theorem calcSpaces_untab (cs : List Char) : calcSpaces (untab cs) = calcSpaces cs := by
  induction cs with
  | nil => rfl
  | cons c rest ih =>
    simp only [untab, calcSpaces]
    by_cases ht : c = '\t'
    · subst ht
      simp [calcSpaces, ih]; omega
    · by_cases hs : c = ' '
      · subst hs; simp [calcSpaces, ih]
      · simp [ht, hs, calcSpaces, ih]

/-- repeating every character of a leading run k times multiplies its width by k -/
theorem calcSpaces_scale (k : Nat) (cs : List Char) : calcSpaces (scaleChars k cs) = k * calcSpaces cs := by
  have rep : ∀ (n : Nat) (c : Char) (tl : List Char),
      calcSpaces (List.replicate n c ++ tl) = n * (if c = ' ' then 1 else if c = '\t' then 4 else 0) + calcSpaces tl := by
    intro n c tl
    induction n with
    | zero => simp
    | succ n ih => simp only [List.replicate_succ, List.cons_append, calcSpaces, ih]; rw [Nat.succ_mul]; omega
  induction cs with
  | nil => simp [scaleChars, calcSpaces]
  | cons c rest ih =>
    simp only [scaleChars, calcSpaces, rep, ih]
    rw [Nat.mul_add]

theorem synthFrom_append (xs ys : List Raw) (s : LS) :
    synthFrom s (xs ++ ys) =
      ((synthFrom (synthFrom s xs).1 ys).1, (synthFrom s xs).2 ++ (synthFrom (synthFrom s xs).1 ys).2) := by
  induction xs generalizing s with
  | nil => simp [synthFrom]
  | cons x xs ih => simp [synthFrom, ih, List.append_assoc]

theorem after_nl (xs : List Raw) (s : LS) (a : Nat) :
    (synthFrom s (xs ++ [.nl a])).1.gotNL = true ∧ (synthFrom s (xs ++ [.nl a])).1.spaces = 0 := by
  rw [synthFrom_append]
  simp [synthFrom, step]

/-- **synth_bypass (blank line)**: right after a newline-class token, a further newline-class
    token (blank line, indented comment line, empty comment line) changes neither the state nor
    anything emitted later; it is emitted itself as a hidden token. -/
theorem bypass_nl (pre post : List Raw) (a b : Nat) :
    synth (pre ++ [.nl a] ++ [.nl b] ++ post) =
      (synthFrom {} (pre ++ [.nl a])).2 ++ [.raw (.nl b)] ++
        (synthFrom (synthFrom {} (pre ++ [.nl a])).1 post).2 := by
  unfold synth
  rw [List.append_assoc (pre ++ [Raw.nl a]), synthFrom_append]
  obtain ⟨g, z⟩ := after_nl pre {} a
  generalize (synthFrom {} (pre ++ [Raw.nl a])).1 = s at g z ⊢
  obtain ⟨lv, sp, nl⟩ := s
  simp only at g z
  subst g z
  simp [synthFrom, step, List.append_assoc]

/-- the same stream without the inserted token, in the same form: the two differ exactly by
    the inserted hidden token -/
theorem bypass_nl_base (pre post : List Raw) (a : Nat) :
    synth (pre ++ [.nl a] ++ post) =
      (synthFrom {} (pre ++ [.nl a])).2 ++ (synthFrom (synthFrom {} (pre ++ [.nl a])).1 post).2 := by
  unfold synth
  rw [synthFrom_append]

/-- a column-0 comment line (SYSL_COMMENT then a newline token) right after a newline-class
    token also changes neither state nor later output -/
theorem bypass_comment_line (pre post : List Raw) (a c b : Nat) :
    synth (pre ++ [.nl a] ++ [.comment c, .nl b] ++ post) =
      (synthFrom {} (pre ++ [.nl a])).2 ++ [.raw (.comment c), .raw (.nl b)] ++
        (synthFrom (synthFrom {} (pre ++ [.nl a])).1 post).2 := by
  unfold synth
  rw [List.append_assoc (pre ++ [Raw.nl a]), synthFrom_append]
  obtain ⟨g, z⟩ := after_nl pre {} a
  generalize (synthFrom {} (pre ++ [Raw.nl a])).1 = s at g z ⊢
  obtain ⟨lv, sp, nl⟩ := s
  simp only at g z
  subst g z
  simp [synthFrom, step, List.append_assoc]

/-- **synth_balanced**: in the stream emitted for any raw stream that ends with EOF, INDENTs
    and DEDENTs are equal in number (every opened block is closed by end of file). -/
theorem synth_balanced (rs : List Raw) :
    countIn (synth (rs ++ [.eof])) = countDe (synth (rs ++ [.eof])) := by
  have gen : ∀ (rs : List Raw) (s : LS), (∀ x ∈ s.level, x > 0) →
      countIn (synthFrom s (rs ++ [.eof])).2 + s.level.length = countDe (synthFrom s (rs ++ [.eof])).2 := by
    intro rs
    induction rs with
    | nil =>
      intro s hp
      obtain ⟨lv, sp, nl⟩ := s
      have hb := adjust_balance 0 lv
      have he := adjust_zero_empty lv hp
      simp only [List.nil_append, synthFrom, step, List.append_nil]
      simp only [countIn, countDe] at hb ⊢
      rw [he] at hb
      simp [List.filter_append] at hb ⊢
      omega
    | cons r rest ih =>
      intro s hp
      have hb := step_balance s r
      have hp' := step_pos s r hp
      have := ih (step s r).1 hp'
      simp only [List.cons_append, synthFrom]
      simp only [countIn, countDe, List.filter_append, List.length_append] at hb this ⊢
      omega
  have := gen rs {} (by intro x hx; cases hx)
  simpa [synth] using this

/-- non-vacuity / sanity: a nested block at 4,8 then a dedent to a width not on the stack -/
example : synth [.tok 1, .nl 2, .ws 3 4, .tok 1, .nl 2, .ws 3 8, .tok 1, .nl 2, .ws 3 6, .tok 1, .nl 2, .eof]
    = [.raw (.tok 1), .raw (.nl 2), .indent, .raw (.ws 3 4), .raw (.tok 1), .raw (.nl 2), .indent, .raw (.ws 3 8),
       .raw (.tok 1), .raw (.nl 2), .dedent, .indent, .raw (.ws 3 6), .raw (.tok 1), .raw (.nl 2),
       .dedent, .dedent, .raw .eof] := by decide

end SyslModel.Indent
