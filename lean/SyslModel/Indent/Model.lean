/-
C03 — model of the hand-written INDENT/DEDENT synthesiser `getNextToken`
(pkg/grammar/lexer_impl.go:136-197) and of `calcSpaces` (lexer_impl.go:68-81).

The raw token stream (what ANTLR's generated lexer returns from `BaseLexer.NextToken`) is
the input; lexer actions of SyslLexer.g4 are folded into the token class:
  * `nl`      — NEWLINE, NEWLINE_2, EMPTY_LINE, E_NL, E_EMPTY_LINE, TMPL_NL, INDENTED_COMMENT,
                EMPTY_COMMENT, E_INDENTED_COMMENT: action sets gotNewLine := true,
                spaces := 0; listed in the `case`s that return the token unprocessed
  * `nlk`     — E_DOT_NAME_NL: action sets gotNewLine := true only; same `case` list
  * `ws w`    — WS, E_WS: hidden; action sets spaces := calcSpaces(text) = w
  * `comment` — SYSL_COMMENT (hidden)
  * `hidden`  — any other token on the hidden channel
  * `tok`     — a visible token
  * `eof`
Which real token belongs to which class is regenerated from the grammar (Gen/LexTokens).
Core Lean only.
-/
namespace SyslModel.Indent

inductive Raw where
  | nl (ty : Nat)
  | nlk (ty : Nat)     -- E_DOT_NAME_NL: sets gotNewLine but leaves `spaces` as it is
  | ws (ty : Nat) (w : Nat)
  | comment (ty : Nat)
  | hidden (ty : Nat)
  | tok (ty : Nat)
  | eof
deriving Repr, DecidableEq

inductive Out where
  | indent
  | dedent
  | raw (r : Raw)
deriving Repr, DecidableEq

structure LS where
  level  : List Nat := []     -- indent stack, head = top
  spaces : Nat := 0
  gotNL  : Bool := false
deriving Repr, DecidableEq

/-- the `for ls.spaces != getPreviousIndent(ls.level)` loop: returns the new stack and the
    synthetic tokens, in order -/
def adjust (spaces : Nat) : List Nat → List Nat × List Out
  | [] => if spaces > 0 then ([spaces], [.indent]) else ([], [])
  | t :: rest =>
    if spaces = t then (t :: rest, [])
    else if spaces > t then (spaces :: t :: rest, [.indent])
    else
      let r := adjust spaces rest
      (r.1, .dedent :: r.2)

/-- one call of `getNextToken` that pulls a raw token (lexer action applied first) -/
def step (s : LS) (r : Raw) : LS × List Out :=
  match r with
  | .nl _ => ({ s with gotNL := true, spaces := 0 }, [.raw r])
  | .nlk _ => ({ s with gotNL := true }, [.raw r])
  | .ws _ w =>
    if s.gotNL then
      let a := adjust w s.level
      ({ level := a.1, spaces := w, gotNL := false }, a.2 ++ [.raw r])
    else ({ s with spaces := 0 }, [.raw r])
  | .comment _ => ({ s with spaces := 0 }, [.raw r])
  | .hidden _ =>
    if s.gotNL then
      let a := adjust s.spaces s.level
      ({ level := a.1, spaces := s.spaces, gotNL := false }, a.2 ++ [.raw r])
    else ({ s with spaces := 0 }, [.raw r])
  | .tok _ =>
    if s.gotNL then
      let a := adjust s.spaces s.level
      ({ level := a.1, spaces := s.spaces, gotNL := false }, a.2 ++ [.raw r])
    else (s, [.raw r])
  | .eof =>
    let a := adjust 0 s.level
    ({ level := a.1, spaces := 0, gotNL := false }, a.2 ++ [.raw r])

def synthFrom (s : LS) : List Raw → LS × List Out
  | [] => (s, [])
  | r :: rest =>
    let a := step s r
    let b := synthFrom a.1 rest
    (b.1, a.2 ++ b.2)

def synth (rs : List Raw) : List Out := (synthFrom {} rs).2

/-- re-scale the width of every whitespace token -/
def Raw.mapW (f : Nat → Nat) : Raw → Raw
  | .ws t w => .ws t (f w)
  | r => r

def Out.mapW (f : Nat → Nat) : Out → Out
  | .raw r => .raw (r.mapW f)
  | o => o

/-- `calcSpaces` on the characters of a whitespace token -/
def calcSpaces : List Char → Nat
  | [] => 0
  | c :: rest => (if c = ' ' then 1 else if c = '\t' then 4 else 0) + calcSpaces rest

/-- replace every tab by four spaces -/
def untab : List Char → List Char
  | [] => []
  | c :: rest => (if c = '\t' then [' ', ' ', ' ', ' '] else [c]) ++ untab rest

/-- repeat every character k times (uniform re-indentation of a leading run) -/
def scaleChars (k : Nat) : List Char → List Char
  | [] => []
  | c :: rest => List.replicate k c ++ scaleChars k rest

def countIn : List Out → Nat := fun o => (o.filter (· == .indent)).length
def countDe : List Out → Nat := fun o => (o.filter (· == .dedent)).length

end SyslModel.Indent
