import SyslModel.Core.Proto
import SyslModel.Indent.Model
import SyslModel.Gen.LexTokens

namespace SyslModel.Indent
open Lean (Json)
open SyslModel.Proto

/-- class of a real token, from the regenerated table -/
def classify (ty : Int) (hidden : Bool) (text : String) : Raw :=
  if ty < 0 then .eof else
  let n := ty.toNat
  match SyslModel.Gen.lexTokens.find? (fun t => t.ty == n) with
  | some t =>
    if t.setsNL && t.resetsSpaces then .nl n
    else if t.setsNL then .nlk n
    else if t.calcs then .ws n (calcSpaces text.toList)
    else if t.name == "SYSL_COMMENT" then .comment n
    else if hidden then .hidden n else .tok n
  | none => if hidden then .hidden n else .tok n

def outCode : Out → Int
  | .indent => -100
  | .dedent => -200
  | .raw .eof => -1
  | .raw (.nl t) => t
  | .raw (.nlk t) => t
  | .raw (.ws t _) => t
  | .raw (.comment t) => t
  | .raw (.hidden t) => t
  | .raw (.tok t) => t

def handle (op : String) (j : Json) : Option Json :=
  match op with
  | "indent.synth" =>
      let raws := (arrD j "toks").map (fun e => match asArr e with
        | [ty, h, tx] => classify (asInt ty) (asNat h == 1) (asStr tx)
        | _ => Raw.eof)
      some (Json.mkObj [("out", jarr ((synth raws).map (fun o => jint (outCode o))))])
  | "indent.calc" =>
      some (Json.mkObj [("w", jnat (calcSpaces (strD j "text").toList))])
  | _ => none

end SyslModel.Indent
