/-
C18 — obligations about the REGENERATED table `Gen.chrootOps` (tie A) and the
composition of the table facts with the unbounded theorems of `Path.Props`.
-/
import SyslModel.Gen.ChrootOps
import SyslModel.Path.Props

namespace SyslModel.Expect.C18
open SyslModel.Path SyslModel.Gen

/-- every path argument of every wrapper operation is range-checked -/
theorem ops_all_checked : ∀ op ∈ chrootOps, ∀ k ∈ op.args, k = ArgKind.checked := by decide

/-- every operation of `afero.Fs` that takes a path is present in the table with at
    least one path argument -/
theorem ops_cover :
    ∀ n ∈ ["Create", "Mkdir", "MkdirAll", "Open", "OpenFile", "Remove", "RemoveAll",
           "Rename", "Stat", "Chmod", "Chown", "Chtimes"],
      ∃ op ∈ chrootOps, op.name = n ∧ op.under = n ∧ op.args ≠ [] := by decide

/-- Rename has two path arguments -/
theorem rename_two_args : ∀ op ∈ chrootOps, op.name = "Rename" → op.args.length = 2 := by decide

/-- **chroot_confined** (C18 headline): for the operations table extracted from the current
    source, for every clean absolute root, every operation and every tuple of path strings,
    every path handed to the underlying filesystem lies under the root. -/
theorem chroot_confined (root : List String) (hr : AllProper root) :
    ∀ op ∈ chrootOps, ∀ (ps : List String) (fs : List (List String)),
      runOp root op ps = some fs → ∀ f ∈ fs, root <+: f := by
  intro op hop ps fs h
  exact ops_confined root hr op (ops_all_checked op hop) ps fs h

end SyslModel.Expect.C18
