/-
C11 — the facts `Escape` and the keyword handling of the importers rest on
(Gen/ImporterFacts.lean, regenerated from pkg/importer and pkg/grammar on every run).
-/
import SyslModel.Gen.ImporterFacts

namespace SyslModel.Expect.C11
open SyslModel.Gen

/-- on top of url.PathEscape the importers escape exactly `. : + $ &` (the bytes `Escape.safe`
    leaves out although PathEscape keeps them), each as its upper-case %XX -/
theorem extra_escapes : importerExtraEscapes = ["$=%24", "&=%26", "+=%2B", ".=%2E", ":=%3A"] := by decide +kernel

/-- every single-word keyword of the lexer is a name the writer suffixes (a property called
    `for`, `if`, ... must not be written as a bare field name) -/
theorem keywords_covered :
    (lexerKeywords.filter (fun k => !(k.toList.contains ' '))).all (fun k => writerKeywords.contains k) = true := by
  decide +kernel

end SyslModel.Expect.C11
