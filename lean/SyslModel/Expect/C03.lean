/-
C03 — obligations about the REGENERATED lexer table (tie A): the token classes the model's
theorems speak about are exactly the classes the grammar's actions and `getNextToken` define.
-/
import SyslModel.Gen.LexTokens
import SyslModel.Indent.Props

namespace SyslModel.Expect.C03
open SyslModel.Gen SyslModel.Indent

/-- every token whose action sets gotNewLine is returned unprocessed by getNextToken … -/
theorem nl_tokens_bypass : ∀ t ∈ lexTokens, t.setsNL = true → t.name ∈ bypassTokens := by decide +kernel

/-- … and the bypass list contains nothing else -/
theorem bypass_only_nl : ∀ n ∈ bypassTokens, ∃ t ∈ lexTokens, t.name = n ∧ t.setsNL = true := by decide +kernel

/-- all newline-class tokens reset `spaces`, with the single exception E_DOT_NAME_NL
    (class `nlk` of the model) -/
theorem nl_resets : ∀ t ∈ lexTokens, t.setsNL = true → t.resetsSpaces = false → t.name = "E_DOT_NAME_NL" := by decide +kernel

/-- whole-line blank/comment tokens (the ones layout transformations insert) are hidden,
    newline-class and reset spaces: class `nl` -/
theorem blank_and_comment_lines_are_nl :
    ∀ n ∈ ["EMPTY_LINE", "INDENTED_COMMENT", "EMPTY_COMMENT", "NEWLINE", "E_EMPTY_LINE", "E_INDENTED_COMMENT"],
      ∃ t ∈ lexTokens, t.name = n ∧ t.setsNL = true ∧ t.resetsSpaces = true ∧ t.hidden = true := by decide +kernel

/-- width-computing tokens are hidden whitespace and nothing else -/
theorem ws_tokens : (lexTokens.filter (·.calcs)).map (·.name) = ["WS", "E_WS"] ∧
    ∀ t ∈ lexTokens, t.calcs = true → t.hidden = true ∧ t.setsNL = false := by decide +kernel

/-- the column-0 comment token is hidden and has no effect on the state by itself -/
theorem sysl_comment_hidden : ∃ t ∈ lexTokens, t.name = "SYSL_COMMENT" ∧ t.hidden = true ∧ t.setsNL = false ∧ t.calcs = false := by decide +kernel

/-- `calcSpaces` counts a space as 1 and a tab as 4 (what `Indent.calcSpaces` transcribes) -/
theorem calc_table : calcSpacesTable = [(' ', 1), ('\t', 4)] := by decide +kernel

end SyslModel.Expect.C03
