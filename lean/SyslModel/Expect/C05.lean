/-
C05 — `Closure.Version` is what pkg/parse/parse.go does with an import target
(Gen/ClosureFacts.lean, regenerated from the source on every run).
-/
import SyslModel.Gen.ClosureFacts
import SyslModel.Closure.Version

namespace SyslModel.Expect.C05
open SyslModel.Gen

/-- fileNameToIndex cleans the target, looks for the FIRST `@` and, when there is one, keeps what precedes it:
    `Version.index` -/
theorem index_cuts_at_first_at :
    indexSteps = ["ret := cleanImportFilename(filename)", "i := strings.Index(ret, \"@\")", "if i > -1",
      "ret = ret[:i]", "return retrievedListIndex(ret)"] := by
  decide +kernel

/-- collectSpecs reads the version of both imports as what follows the first `@`: `Version.version` -/
theorem version_follows_first_at :
    versionAtSearches = ["strings.Index", "strings.Index"] ∧
    versionSlices = ["fi.src.src.filename[i+1:]", "source.filename[i+1:]"] := by
  decide +kernel

/-- the names treated as "no version" are those of `Version.defaults`, for both imports -/
theorem default_branches_modelled :
    versionDefaults = [Closure.Version.defaults, Closure.Version.defaults] := by
  decide +kernel

end SyslModel.Expect.C05
