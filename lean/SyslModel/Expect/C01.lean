/-
C01 — obligations about the REGENERATED region tree of (*Parser).Parse (tie A) and the
composition with `Guard.parse_total`.
-/
import SyslModel.Gen.Regions
import SyslModel.Guard.Props

namespace SyslModel.Expect.C01
open SyslModel.Guard SyslModel.Gen

/-- every stretch of compiler code runs under a recover() of its own goroutine -/
theorem all_guarded : allGuarded false parseProgram = true := by decide

/-- no code reachable from Parse contains a process-exit call -/
theorem no_exit : noExit parseProgram = true := by decide

theorem no_exit_sites : parseExitSites = [] := by decide

/-- the extraction is not vacuous: the tree contains the phases the theorem is meant to cover -/
theorem phases_present :
    ∀ n ∈ ["Parse", "collectSpecs", "parseImports", "parseString", "treewalk", "flattenSpecs", "parseSpecs",
           "importForeign", "lintAppDefs", "lintEndpoint", "postProcess", "collectSpecs.goroutine", "parseSpecs.goroutine"],
      n ∈ (leaves parseProgram).map (·.1) := by decide

/-- the tree walk is reached twice: once for the import pre-parse, once for the full parse -/
theorem two_walks : ((leaves parseProgram).filter (fun p => p.1 == "treewalk")).length = 2 := by decide

/-- **compile_total** (C01 headline): for the region tree extracted from the current source,
    whatever fails at whatever point — an explicit panic site of the listener, an implicit
    runtime panic, an error return — compilation ends with a model or a reported error. -/
theorem compile_total : ∀ φ : Oracle, runProgram φ parseProgram = .ok ∨ runProgram φ parseProgram = .error :=
  parse_total parseProgram all_guarded no_exit

end SyslModel.Expect.C01
