/-
C10 — obligations about the REGENERATED dispatch tables of pkg/eval (tie A): every operator /
kind combination the reference interpreter gives a meaning to is bound, in the current source,
to the function that implements that meaning, and goes through the expected strategy.
(Extra keys in the source do not break these obligations; a removed or re-bound key does.)
-/
import SyslModel.Gen.EvalTables
import SyslModel.Eval.Props

namespace SyslModel.Expect.C10
open SyslModel.Gen

/-- the value-level operators the model implements, with the Go function each stands for -/
def modelValueOps : List (String × String × String × String) := [
  ("ADD", "Int", "Int", "addInt64"), ("SUB", "Int", "Int", "subInt64"), ("MUL", "Int", "Int", "mulInt64"),
  ("DIV", "Int", "Int", "divInt64"), ("MOD", "Int", "Int", "modInt64"), ("ADD", "String", "String", "addString"),
  ("AND", "Bool", "Bool", "andBool"), ("EQ", "Bool", "Bool", "cmpBool"), ("EQ", "Int", "Int", "cmpInt"),
  ("EQ", "String", "String", "cmpString"), ("EQ", "Int", "Null", "cmpNullFalse"), ("EQ", "Null", "Null", "cmpNullTrue"),
  ("EQ", "Null", "Int", "cmpNullFalse"), ("EQ", "Null", "String", "cmpNullFalse"), ("EQ", "String", "Null", "cmpNullFalse"),
  ("GE", "Int", "Int", "geInt64"), ("GT", "Int", "Int", "gtInt64"), ("LE", "Int", "Int", "leInt64"), ("LT", "Int", "Int", "ltInt64"),
  ("BITOR", "List", "List", "concatListList"), ("BITOR", "List", "Set", "concatListSet"), ("BITOR", "Set", "Set", "setUnion"),
  ("IN", "String", "List", "stringInList"), ("IN", "String", "Set", "stringInSet"), ("IN", "String", "Null", "stringInNull"),
  ("IN", "String", "Map", "stringInMapKey"), ("NOT_IN", "String", "List", "stringNotInList"),
  ("NOT_IN", "String", "Set", "stringNotInSet"), ("NOT_IN", "String", "Null", "stringNotInNull"),
  ("NOT_IN", "String", "Map", "stringNotInMapKey")]

theorem value_ops_bound : ∀ k ∈ modelValueOps, k ∈ evalValueFunctions := by decide

/-- container operators the model implements (where / flatten) -/
def modelExprOps : List (String × String × String × String) := [
  ("WHERE", "List", "NoArg", "whereList"), ("WHERE", "List", "String", "whereList"),
  ("WHERE", "Set", "NoArg", "whereSet"), ("WHERE", "Set", "Int", "whereSet"), ("WHERE", "Set", "String", "whereSet"),
  ("FLATTEN", "List", "NoArg", "flattenListList"), ("FLATTEN", "List", "List", "flattenListList"),
  ("FLATTEN", "List", "Set", "flattenListSet"), ("FLATTEN", "Set", "Set", "flattenSetSet"), ("FLATTEN", "Set", "List", "flattenSetList")]

theorem expr_ops_bound : ∀ k ∈ modelExprOps, k ∈ evalExprFunctions := by decide

theorem strategies : ∀ k ∈ [("NE", "NegateBinExprStrategy"), ("WHERE", "LHSOverRHSStrategy"), ("FLATTEN", "LHSOverRHSStrategy"),
      ("ADD", "DefaultBinExprStrategy"), ("BITOR", "DefaultBinExprStrategy"), ("EQ", "DefaultBinExprStrategy"),
      ("IN", "DefaultBinExprStrategy"), ("NOT_IN", "DefaultBinExprStrategy"), ("AND", "DefaultBinExprStrategy")],
    k ∈ evalStrategies := by decide

theorem unary_bound : ("NEG", "unaryNeg") ∈ evalUnaryFunctions ∧ ("SINGLE", "unarySingle") ∈ evalUnaryFunctions := by decide

end SyslModel.Expect.C10
