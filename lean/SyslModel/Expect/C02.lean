/-
C02 — obligations tying the constants of `Compile` to the source (Gen/Prims.lean, regenerated
from SyslLexer.g4, sysl.pb.go and pkg/parse/utils.go on every run).
-/
import SyslModel.Gen.Prims
import SyslModel.Compile.Model

namespace SyslModel.Expect.C02
open SyslModel.Gen SyslModel.Compile

/-- every native data type of the grammar maps to a name of the primitive enum -/
theorem natives_map_to_enum : nativeDataTypes.all (fun n => primitiveEnum.contains (primName n)) = true := by
  decide +kernel

/-- the model refines exactly the names the compiler refines, with the same bit widths -/
def modelBitWidth (n : String) : Option String :=
  match (constraintFields n .none).find? (fun p => p.1 == Key.f "bit_width") with
  | some (_, .leaf w) => some w
  | _ => none

theorem bit_widths_agree :
    nativeDataTypes.all (fun n =>
      match modelBitWidth n with
      | some w => nativeBitWidths.contains (n ++ ":" ++ w)
      | none => !(nativeBitWidths.any (fun s => s.startsWith (n ++ ":")))) = true
    ∧ nativeBitWidths.all (fun s => nativeDataTypes.any (fun n => s.startsWith (n ++ ":"))) = true := by
  decide +kernel

/-- the grammar's native data types are the thirteen the generator draws from -/
theorem natives_known :
    nativeDataTypes = ["int32", "int64", "int", "float32", "float64", "float", "string", "date", "bool", "decimal", "datetime", "bytes", "any"] := by
  decide +kernel

/-- the REST verbs the generator draws from are verbs of the grammar -/
theorem verbs_known : ["GET", "POST", "PUT", "DELETE", "PATCH"].all (fun v => httpVerbs.contains v) = true := by
  decide +kernel

end SyslModel.Expect.C02
