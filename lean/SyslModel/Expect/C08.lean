/-
C08 — the arithmetic of `Locate.ctxOf` is the arithmetic of sourceCtxHelper.get
(Gen/SrcCtx.lean, regenerated from pkg/parse/utils.go on every run).
-/
import SyslModel.Gen.SrcCtx

namespace SyslModel.Expect.C08
open SyslModel.Gen

/-- lines are shifted from 1-based to 0-based, columns are taken as they are, and the end column
    is advanced by the length of the last token: exactly `Locate.ctxOf` -/
theorem srcctx_arithmetic :
    srcCtxExprs = [
      ("Start.Line", "int32(start.GetLine() - 1)"),
      ("Start.Col", "int32(start.GetColumn())"),
      ("End.Line", "int32(end.GetLine() - 1)"),
      ("End.Col", "int32(end.GetColumn())"),
      ("ctx.End.Col +=", "int32(len(text))")] := by
  decide +kernel

end SyslModel.Expect.C08
