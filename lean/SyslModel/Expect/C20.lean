/-
C20 — obligations about the REGENERATED region tree of the sysl command (tie A).
-/
import SyslModel.Gen.CmdRegions
import SyslModel.Guard.Props

namespace SyslModel.Expect.C20
open SyslModel.Guard SyslModel.Gen

/-- every command runs under the recover of main2 (and starts no goroutine of its own) -/
theorem cmd_all_guarded : allGuarded false cmdProgram = true := by decide +kernel

/-- the commands of the property are in the tree -/
theorem commands_present :
    ∀ c ∈ ["protobufCmd", "sequenceDiagramCmd", "intsCmd", "datamodelCmd", "diagramCmd", "exportCmd",
           "databaseScriptCmd", "modDatabaseScriptCmd", "validateCmd", "importCmd"], c ∈ cmdTypes := by decide

theorem execute_leaves_present :
    ∀ n ∈ ["main2", "main3", "Run", "protobufCmd.Execute", "sequenceDiagramCmd.Execute", "intsCmd.Execute",
           "datamodelCmd.Execute", "diagramCmd.Execute", "exportCmd.Execute", "databaseScriptCmd.Execute",
           "modDatabaseScriptCmd.Execute", "validateCmd.Execute", "importCmd.Execute"],
      n ∈ (leaves cmdProgram).map (·.1) := by decide +kernel

/-- **cmd_total** (C20 headline): for the command tree extracted from the current source, no
    placement of panics makes a command die with an unrecovered panic. -/
theorem cmd_total : ∀ φ : Oracle, runProgram φ cmdProgram ≠ .crash :=
  cmd_never_crashes cmdProgram cmd_all_guarded

end SyslModel.Expect.C20
