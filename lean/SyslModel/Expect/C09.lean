/-
C09 — the pattern `JsonClean.tryMatch` implements and the suffix dispatch of the decoders are the
ones in the source (Gen/PbUtil.lean, regenerated from pkg/pbutil on every run).
-/
import SyslModel.Gen.PbUtil

namespace SyslModel.Expect.C09
open SyslModel.Gen

/-- anchored at a line start, white space, a whole JSON string with escapes, colon, space, and the
    extra space: the pattern `JsonClean.tryMatch` was written from -/
theorem pattern_is_modelled : jsonCleanPattern = "(?m)^(\\s*\"(?:[^\"\\\\]|\\\\.)*\": ) " := by decide +kernel

/-- the decoder is a function of the suffix; `.pb.json` is tried as JSON (it does not end in
    `.pb`), and a bare `.json` is not a compiled-model suffix -/
theorem suffix_dispatch : pbSuffixes = [".pb=proto", ".pb.json=protojson", ".textpb=prototext"] := by decide +kernel

end SyslModel.Expect.C09
