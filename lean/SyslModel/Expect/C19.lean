/-
C19 — obligations over the regenerated census of `range`-over-map statements
(`Gen/RangeSites.lean`, written by extract/rangesites from /repo's working tree on every run).

Every site has a kind computed from its syntax:
  * "sorted"      — the body only appends to a slice that the same function sorts afterwards
                    (`Range.collectSort_perm`);
  * "insensitive" — the body only writes into maps / sets (`Range.mapWrite_perm`,
                    `Range.foldInsert_perm`, `Range.commFold_perm`);
  * "other"       — anything else.  Each of these has been read and is listed below with the
                    reason why the visiting order cannot reach the output.  A site of kind "other"
                    that is not listed (a new loop, or a loop that lost its sort) breaks
                    `others_reviewed`; `Range.emitInOrder_depends` / `Range.firstMatch_depends` /
                    `Range.mapWrite_collision_depends` say why that matters.
-/
import SyslModel.Gen.RangeSites

namespace SyslModel.Expect.C19
open SyslModel.Gen

/-- reviewed order-insensitive sites of kind "other": (package, function, operand) -/
def reviewed : List (String × String × String) := [
  ("pkg/arrai/relmod", "normalizeApp", "app.Endpoints"),  -- appends to Schema slices tagged arrai:",unordered" (sets in the transform input)
  ("pkg/arrai/relmod", "normalizeApp", "app.Types"),  -- appends to Schema slices tagged arrai:",unordered" (sets in the transform input)
  ("pkg/arrai/relmod", "normalizeApp", "app.Views"),  -- appends to Schema slices tagged arrai:",unordered" (sets in the transform input)
  ("pkg/arrai/relmod", "normalizeAppMeta", "annos"),  -- appends to Schema slices tagged arrai:",unordered" (sets in the transform input)
  ("pkg/arrai/relmod", "normalizeEndpointMeta", "annos"),  -- appends to Schema slices tagged arrai:",unordered" (sets in the transform input)
  ("pkg/arrai/relmod", "normalizeEventMeta", "annos"),  -- appends to Schema slices tagged arrai:",unordered" (sets in the transform input)
  ("pkg/arrai/relmod", "normalizeFieldMeta", "annos"),  -- appends to Schema slices tagged arrai:",unordered" (sets in the transform input)
  ("pkg/arrai/relmod", "normalizeMixinMeta", "annos"),  -- appends to Schema slices tagged arrai:",unordered" (sets in the transform input)
  ("pkg/arrai/relmod", "normalizeParamMeta", "annos"),  -- appends to Schema slices tagged arrai:",unordered" (sets in the transform input)
  ("pkg/arrai/relmod", "normalizeStatementMeta", "annos"),  -- appends to Schema slices tagged arrai:",unordered" (sets in the transform input)
  ("pkg/arrai/relmod", "normalizeType", "fields"),  -- appends to Schema slices tagged arrai:",unordered" (sets in the transform input)
  ("pkg/arrai/relmod", "normalizeTypeMeta", "annos"),  -- appends to Schema slices tagged arrai:",unordered" (sets in the transform input)
  ("pkg/arrai/relmod", "normalizeViewMeta", "annos"),  -- appends to Schema slices tagged arrai:",unordered" (sets in the transform input)
  ("pkg/arrai/relmod", "tags", "attrs"),  -- appends to Schema slices tagged arrai:",unordered" (sets in the transform input)
  ("pkg/cmdutils", "(*SequenceDiagramVisitor).Visit", "t.blackboxes"),  -- only logs
  ("pkg/cmdutils", "GetSortedISOCtrlSlice", "attrs"),  -- sort.Strings at the end; distinct keys give distinct strings
  ("pkg/cmdutils", "MakeEndpointCollectionElement", "blackboxes"),  -- writes bb[k]; each entry mutates its own *Upto
  ("pkg/cmdutils", "ParseBlackBoxesFromArgument", "blackboxFlags"),  -- slice consumed only by TransformBlackboxesToUptos which writes a map keyed by val[0]
  ("pkg/database", "findTableDepth", "relEntity.AttrDefs"),  -- max fold on depth, AND on the flag; map keyed by table.attr
  ("pkg/database", "processTableDepth", "incompleteTableDepthMap"),  -- depth uses final depths only; within-depth order re-sorted by both consumers
  ("pkg/datamodeldiagram", "(*DataModelView).GenerateDataView", "app.GetTypes()"),  -- typeMap keyed by App.Type (unique); entityNames sorted afterwards
  ("pkg/datamodeldiagram", "(*DataModelView).GenerateDataView", "dataParam.Mod.Apps"),  -- typeMap keyed by App.Type (unique); entityNames sorted afterwards
  ("pkg/datamodeldiagram", "GenerateDataModelsWithProjectMannerModule", "app.GetEndpoints()"),  -- outmap keyed by output name which embeds the endpoint name; otherwise identical content
  ("pkg/datamodeldiagram", "GenerateDataModelsWithPureModule", "apps"),  -- as above
  ("pkg/exporter", "(*OpenAPI3Exporter).Export", "s.apps"),  -- writes a map keyed by k
  ("pkg/exporter", "(*OpenAPI3Exporter).GenerateOpenAPI3", "app.Attributes"),  -- writes the Extensions map keyed by k
  ("pkg/exporter", "(*OpenAPI3Exporter).exportType", "t.Properties"),  -- writes Properties[k]; required is sorted afterwards
  ("pkg/importer", "(*OpenAPI3Importer).buildResponses", "resp.Value.Headers"),  -- header fields are sorted by SortProperties afterwards
  ("pkg/importer", "escapeUnsafeSyslChars", "charsToReplace"),  -- replacements commute: outputs %XX contain none of the replaced characters
  ("pkg/importer", "getSyslSafeURI", "charsToKeep"),  -- patterns cannot overlap
  ("pkg/importer", "loadSchemaTypes", "xsdToSyslMappings"),  -- adds built-in aliases with distinct names; list sorted later
  ("pkg/pbutil", "OutputSplitApplications", "module.Apps"),  -- each application is written to its own file
  ("pkg/sequencediagram", "DoConstructSequenceDiagrams", "bbsAll"),  -- only logs
  ("pkg/sequencediagram", "DoConstructSequenceDiagrams", "bbsAll"),  -- only logs
  ("pkg/syslwrapper", "(*AppMapper).mapEndpoints", "attrs"),  -- writes maps keyed by the loop key
  ("pkg/syslwrapper", "(*AppMapper).mapEndpoints", "ep")  -- writes maps keyed by the loop key
]

def key (s : RangeSite) : String × String × String := (s.pkg, s.fn, s.operand)

/-- the sites of kind "other" in the current source -/
def others : List (String × String × String) := (rangeSites.filter (fun s => s.kind == "other")).map key

/-- **others_reviewed**: every unclassified range-over-map site of the current source is a
    reviewed one (with multiplicity) -/
theorem others_reviewed : others.all (fun k => decide (others.count k ≤ reviewed.count k)) = true := by
  decide +kernel

/-- the census is not empty (the extractor saw the generator packages) and every kind is one of
    the three -/
theorem census_sane :
    decide (60 ≤ rangeSites.length) = true ∧
    rangeSites.all (fun s => s.kind == "sorted" || s.kind == "insensitive" || s.kind == "other") = true := by
  decide +kernel

/-- the sorts the property text names are present: application names in the integration
    builder, data-model entities, database tables and columns, XSD types -/
def mustBeSorted : List (String × String × String) := [
  ("pkg/integrationdiagram", "MakeBuilderfromStmt", "apps"),
  ("pkg/integrationdiagram", "sortedSlice", "endpts"),
  ("pkg/datamodeldiagram", "(*DataModelView).DrawTuple", "entity.AttrDefs"),
  ("pkg/datamodeldiagram", "(*DataModelView).DrawRelation", "entity.AttrDefs"),
  ("pkg/database", "makeSortedListOfTableDepth", "tableDepthMap"),
  ("pkg/database", "sortColumnNamesIntoList", "attrMap"),
  ("pkg/importer", "loadSchemaTypes", "schema.Types"),
  ("pkg/arrai/relmod", "normalizeModule", "m.Apps")
]

theorem named_sorts_present :
    mustBeSorted.all (fun k => rangeSites.any (fun s => key s == k && s.kind == "sorted")) = true := by
  decide +kernel

end SyslModel.Expect.C19
