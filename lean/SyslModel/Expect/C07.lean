/-
C07 — obligations over facts regenerated from the compiler packages (Gen/RangeSites.lean,
written by extract/rangesites from /repo's working tree on every run).
  * who constructs lexers and parsers, and whether they delete the lexer state (Keyed model);
  * what the thread-safe constructors touch;
  * which package-level variables of the compiler are not read-only;
  * every range-over-map statement of the compiler is of an order-invariant shape or reviewed.
-/
import SyslModel.Gen.RangeSites

namespace SyslModel.Expect.C07
open SyslModel.Gen

/-- the compile path (pkg/parse, pkg/eval) builds lexers and parsers only through the
    per-instance constructors, and every function that does so defers `DeleteLexerState`
    (hypothesis of `Keyed.deleted_is_fresh`) -/
theorem compile_path_threadsafe :
    (ctorUses.filter (fun c => c.pkg == "pkg/parse" || c.pkg == "pkg/eval")).all
      (fun c => (c.callee == "NewThreadSafeSyslLexer" || c.callee == "NewThreadSafeSyslParser") && c.defersDelete) = true
    ∧ ctorUses.any (fun c => c.pkg == "pkg/parse" && c.fn == "parseString" && c.callee == "NewThreadSafeSyslLexer") = true
    ∧ ctorUses.any (fun c => c.pkg == "pkg/parse" && c.fn == "parseString" && c.callee == "NewThreadSafeSyslParser") = true := by
  decide +kernel

/-- the generated constructors (which install the shared, mutable DFA tables) are called only by
    the per-instance constructors, which replace those tables at once, and by the language
    server's diagnostics (reviewed: one request at a time, not the compile path) -/
def generatedCtorCallers : List (String × String) :=
  [("pkg/grammar", "NewThreadSafeSyslLexer"), ("pkg/grammar", "NewThreadSafeSyslParser"), ("pkg/lsp/impl", "diagnoseRaw")]

theorem generated_ctor_callers_reviewed :
    (ctorUses.filter (fun c => c.callee == "NewSyslLexer" || c.callee == "NewSyslParser")).all
      (fun c => generatedCtorCallers.contains (c.pkg, c.fn)) = true := by
  decide +kernel

/-- the per-instance constructors refer to no package-level variable except the serialised
    automata, which nothing assigns -/
theorem threadsafe_touch_only_constants :
    threadSafeTouches.all (fun t => t == ("NewThreadSafeSyslLexer", "serializedLexerAtn") || t == ("NewThreadSafeSyslParser", "parserATN")) = true
    ∧ compileGlobals.any (fun g => g.pkg == "pkg/grammar" && g.name == "serializedLexerAtn" && g.use == "read") = true
    ∧ compileGlobals.any (fun g => g.pkg == "pkg/grammar" && g.name == "parserATN" && g.use == "read") = true := by
  decide +kernel

/-- package-level variables of the compiler packages that are more than read: the keyed lexer
    state map (Keyed model) and a compiled regular expression (safe for concurrent use) -/
def mutableGlobalsReviewed : List (String × String) :=
  [("pkg/grammar", "lexerStates"), ("pkg/pbutil", "extraSpaceAfterKeyRE")]

theorem globals_reviewed :
    (compileGlobals.filter (fun g => g.use != "read")).all (fun g => mutableGlobalsReviewed.contains (g.pkg, g.name)) = true
    ∧ decide (20 ≤ compileGlobals.length) = true := by
  decide +kernel

/-- the importers (which run inside the compiler for foreign imports) assign no package-level
    variable and call no method on one -/
theorem importer_globals_readonly : importerGlobals.all (fun g => g.use == "read") = true := by
  decide +kernel

/-- reviewed range-over-map sites of kind "other" in the compiler packages -/
def reviewed : List (String × String × String) := [
  ("pkg/parse", "(*Parser).postProcess", "app.Types"),       -- each iteration fixes refs of its own type's fields; reads only key sets no inner loop mutates
  ("pkg/parse", "(*Parser).postProcess", "attrs"),           -- each iteration touches its own field's ScopedRef
  ("pkg/parse", "(*Parser).postProcess", "srcApp.Types"),    -- writes app.Types[key] if absent; mixins applied in slice order inside the sorted app order
  ("pkg/parse", "(*Parser).postProcess", "srcApp.Views"),    -- same
  ("pkg/parse", "(*TreeShapeListener).EnterTable_def", "attrs"),  -- writes type1.Attrs[k]; patterns appended only in the k == "patterns" iteration
  ("pkg/parse", "(*TreeShapeListener).lintAppDefs", "*apps"),         -- collected, sorted, logged
  ("pkg/parse", "(*TreeShapeListener).lintAppDefs", "data.locations"), -- log message only
  ("pkg/parse", "(*TreeShapeListener).lintAppDefs", "s.linter.apps"),  -- only logs
  ("pkg/parse", "(*TreeShapeListener).lintEndpoint", "*appData.rec"),      -- read-only, only logs
  ("pkg/parse", "(*TreeShapeListener).lintEndpoint", "*endpointData.rec"), -- same
  ("pkg/parse", "(*TreeShapeListener).lintEndpoint", "*s.linter.calls"),   -- same
  ("pkg/parse", "(*TreeShapeListener).lintEndpoint", "locations"),         -- same
  ("pkg/parse", "collectorPubSubCalls", "app.Endpoints"),    -- each iteration mutates its own endpoint's calls; OR-fold used for logging
  ("pkg/parse", "fixParamTypeRef", "app.GetEndpoints()"),    -- each iteration rewrites its own params' refs; idempotent
  ("pkg/parse", "getDefaultAppName", "mod.Apps"),            -- never writes the module (callers: codegen/template/validate/loader, not compilation)
  ("pkg/parse", "mergeAttrs", "src"),                        -- touches only dst[k]
  ("pkg/parse", "mergeAttrsWithPrecendence", "newAttrs"),    -- touches only attrs[key]
  ("pkg/syslutil", "(StrSet).IsSubset", "s"),                -- all-of fold
  ("pkg/syslutil", "(StrSet).ToSlice", "s")                  -- map order by contract; `toSliceCallers` below pins its only caller
]

def key (s : RangeSite) : String × String × String := (s.pkg, s.fn, s.operand)
def others : List (String × String × String) :=
  ((compileRangeSites.filter (fun s => s.kind == "other")).filter (fun s => s.pkg != "pkg/pbutil")).map key

theorem compile_others_reviewed : others.all (fun k => decide (others.count k ≤ reviewed.count k)) = true := by
  decide +kernel

/-- the application walk of post-processing, the view walk of type inference and the call check
    are collect-then-sort loops (`Keyed.postprocess_sorted_indep`, `Keyed.mixin_order_matters`) -/
theorem compile_sorts_present :
    [("pkg/parse", "(*Parser).postProcess", "mod.Apps"), ("pkg/parse", "(*Parser).inferTypes", "mod.Apps[appName].Views"),
     ("pkg/parse", "checkEndpointCalls", "mod.Apps"), ("pkg/parse", "checkEndpointCalls", "app.Endpoints"),
     ("pkg/parse", "renestTypes", "app.Types")].all
      (fun k => compileRangeSites.any (fun s => key s == k && s.kind == "sorted")) = true := by
  decide +kernel

/-- `ToSlice` hands out map order; its only caller sorts the result -/
theorem toSlice_only_sorted : toSliceCallers.all (fun c => c == ("pkg/syslutil", "ToSortedSlice")) = true := by
  decide +kernel

end SyslModel.Expect.C07
