import SyslModel.Core.Proto
import SyslModel.Eval.Model

namespace SyslModel.Eval
open Lean (Json)
open SyslModel.Proto

partial def valueOf (j : Json) : Value :=
  match j.getObjVal? "b" with
  | .ok v => .b (match v.getBool? with | .ok x => x | _ => false)
  | _ =>
  match str? j "i" with
  | some t => .i (Int64.ofInt (t.toInt?.getD 0))
  | none =>
  match str? j "s" with
  | some t => .s t
  | none =>
  match arr? j "l" with
  | some xs => .list (xs.toList.map valueOf)
  | none =>
  match arr? j "t" with
  | some xs => .set (xs.toList.map valueOf)
  | none =>
  match arr? j "m" with
  | some xs => .map (xs.toList.map (fun p => match asArr p with | [k, v] => (asStr k, valueOf v) | _ => ("", .null)))
  | none => .null

partial def valueJson : Value → Json
  | .null => Json.mkObj [("n", Json.null)]
  | .b x => Json.mkObj [("b", Json.bool x)]
  | .i x => Json.mkObj [("i", Json.str (toString x.toInt))]
  | .s x => Json.mkObj [("s", Json.str x)]
  | .list xs => Json.mkObj [("l", jarr (xs.map valueJson))]
  | .set xs => Json.mkObj [("t", jarr (xs.map valueJson))]
  | .map kvs => Json.mkObj [("m", jarr (kvs.map (fun p => jarr [Json.str p.1, valueJson p.2])))]

partial def exprOf (j : Json) : Expr :=
  let sub := fun (k : String) => exprOf ((obj? j k).getD Json.null)
  match strD j "k" with
  | "lit" => .lit (valueOf ((obj? j "v").getD Json.null))
  | "name" => .name (strD j "n")
  | "attr" => .attr (sub "e") (strD j "a")
  | "if" => .ite (sub "c") (sub "t") (sub "f")
  | "bin" => .bin (strD j "op") (sub "l") (sub "r") (strD j "sv")
  | "un" => .un (strD j "op") (sub "e")
  | "call" => .call (strD j "f") ((arrD j "args").map exprOf)
  | "set" => .setE ((arrD j "es").map exprOf)
  | "list" => .listE ((arrD j "es").map exprOf)
  | "tx" => .tx (sub "arg") (strD j "sv")
      ((arrD j "stmts").map (fun s => (boolD s "let", strD s "n", exprOf ((obj? s "e").getD Json.null)))) (boolD j "set")
  | _ => .lit .null

def errStr : Err → String
  | .unsupported w => "unsupported: " ++ w
  | .divZero => "div-zero"
  | .unbound n => "unbound: " ++ n
  | .fuel => "fuel"

def handle (op : String) (j : Json) : Option Json :=
  match op with
  | "eval.run" =>
      let views : List View := (arrD j "views").map (fun v =>
        View.mk (strD v "name") (strList v "params") (exprOf ((obj? v "body").getD Json.null)))
      let scope : Scope := (arrD j "scope").map (fun p => match asArr p with | [k, v] => (asStr k, valueOf v) | _ => ("", .null))
      match eval views 5000 scope (exprOf ((obj? j "expr").getD Json.null)) with
      | .error e => some (Json.mkObj [("err", Json.str (errStr e))])
      | .ok (v, σ) => some (Json.mkObj [("ok", valueJson v),
          ("scope", jarr ((σ.filter (fun p => p.1 != ".")).map (fun p => jarr [Json.str p.1, valueJson p.2])))])
  | _ => none

end SyslModel.Eval
