/-
C10 — theorems about the reference interpreter's value operators and scope discipline.
-/
import SyslModel.Eval.Model

namespace SyslModel.Eval

/-! ## helper lemmas -/

theorem mem_insertSortedInt (x y : Int64) (l : List Int64) :
    x ∈ insertSortedInt y l ↔ x = y ∨ x ∈ l := by
  induction l with
  | nil => simp [insertSortedInt]
  | cons z zs ih =>
    simp only [insertSortedInt]
    split
    · rename_i h
      have : y = z := by simpa using h
      subst this
      simp
    · split
      · simp
      · simp [ih]
        constructor
        · rintro (h | h | h)
          · exact Or.inr (Or.inl h)
          · exact Or.inl h
          · exact Or.inr (Or.inr h)
        · rintro (h | h | h)
          · exact Or.inr (Or.inl h)
          · exact Or.inl h
          · exact Or.inr (Or.inr h)

theorem mem_foldl_insert (xs acc : List Int64) (x : Int64) :
    x ∈ xs.foldl (fun a y => insertSortedInt y a) acc ↔ x ∈ acc ∨ x ∈ xs := by
  induction xs generalizing acc with
  | nil => simp
  | cons y ys ih =>
    simp only [List.foldl_cons, ih, mem_insertSortedInt, List.mem_cons]
    constructor
    · rintro ((h | h) | h)
      · exact Or.inr (Or.inl h)
      · exact Or.inl h
      · exact Or.inr (Or.inr h)
    · rintro (h | h | h)
      · exact Or.inl (Or.inr h)
      · exact Or.inl (Or.inl h)
      · exact Or.inr h

/-- strictly increasing list -/
def Sorted64 : List Int64 → Prop
  | [] => True
  | [_] => True
  | a :: b :: rest => a < b ∧ Sorted64 (b :: rest)

theorem sorted_insert (y : Int64) (l : List Int64) (h : Sorted64 l) : Sorted64 (insertSortedInt y l) := by
  induction l with
  | nil => simp [insertSortedInt, Sorted64]
  | cons z zs ih =>
    simp only [insertSortedInt]
    split
    · exact h
    · rename_i hne
      split
      · rename_i hlt
        exact ⟨hlt, h⟩
      · rename_i hnl
        have hzy : z < y := by
          have h1 : ¬ y = z := by simpa using hne
          have h2 : z ≤ y := Int64.not_lt.mp hnl
          exact Int64.lt_of_le_of_ne h2 (fun e => h1 e.symm)
        cases zs with
        | nil => simp [insertSortedInt, Sorted64, hzy]
        | cons w ws =>
          have hs : Sorted64 (w :: ws) := h.2
          have ih' := ih hs
          simp only [insertSortedInt] at ih' ⊢
          split
          · rename_i hyw
            exact ⟨h.1, hs⟩
          · split
            · exact ⟨hzy, by rename_i hl; exact ⟨hl, hs⟩⟩
            · rename_i hq1 hq2
              simp only [hq1, hq2, if_false] at ih'
              exact ⟨h.1, ih'⟩

theorem sorted_foldl_insert (xs acc : List Int64) (h : Sorted64 acc) :
    Sorted64 (xs.foldl (fun a y => insertSortedInt y a) acc) := by
  induction xs generalizing acc with
  | nil => exact h
  | cons y ys ih => exact ih _ (sorted_insert y acc h)

theorem sorted_nodup (l : List Int64) (h : Sorted64 l) : l.Nodup := by
  induction l with
  | nil => simp
  | cons a rest ih =>
    cases rest with
    | nil => simp
    | cons b rest' =>
      have hs : Sorted64 (b :: rest') := h.2
      rw [List.nodup_cons]
      refine ⟨?_, ih hs⟩
      -- a is smaller than everything that follows
      have lt_all : ∀ (l : List Int64) (c : Int64), Sorted64 (c :: l) → ∀ x ∈ l, c < x := by
        intro l
        induction l with
        | nil => intro c _ x hx; cases hx
        | cons d ds ihd =>
          intro c hc x hx
          simp at hx
          rcases hx with rfl | hx
          · exact hc.1
          · exact Int64.lt_trans hc.1 (ihd d hc.2 x hx)
      intro hm
      have := lt_all (b :: rest') a h a hm
      exact Int64.lt_irrefl this

/-! ## PROPERTY THEOREMS (C10) -/

/-- **concat_append**: list concatenation is append — in particular the left operand is a
    prefix of the result and is itself unchanged (values are immutable) -/
theorem concat_append (a c : List Value) : binValue "BITOR" (.list a) (.list c) = .ok (.list (a ++ c)) := rfl

/-- **union_mem / union_nodup** (integer sets): the union contains exactly the members of both
    operands, in strictly increasing order, hence without duplicates -/
theorem union_int_mem (l r : List Int64) (x : Int64) :
    x ∈ (l ++ r).foldl (fun a y => insertSortedInt y a) [] ↔ x ∈ l ∨ x ∈ r := by
  rw [mem_foldl_insert]; simp

theorem union_int_sorted_nodup (l r : List Int64) :
    Sorted64 ((l ++ r).foldl (fun a y => insertSortedInt y a) []) ∧
    ((l ++ r).foldl (fun a y => insertSortedInt y a) []).Nodup := by
  have h := sorted_foldl_insert (l ++ r) [] trivial
  exact ⟨h, sorted_nodup _ h⟩

/-- **int_ops_int64**: arithmetic is Go's int64 arithmetic: wrap-around on overflow and
    truncated division (spot values the correspondence also runs) -/
theorem int_ops_examples :
    binValue "ADD" (.i 9223372036854775807) (.i 1) = .ok (.i (-9223372036854775808)) ∧
    binValue "DIV" (.i (-7)) (.i 2) = .ok (.i (-3)) ∧
    binValue "MOD" (.i (-7)) (.i 2) = .ok (.i (-1)) ∧
    binValue "DIV" (.i 1) (.i 0) = .error .divZero := by
  refine ⟨?_, ?_, ?_, ?_⟩ <;> simp [binValue] <;> decide

/-- **count_length** -/
theorem count_list (views : List View) (fuel : Nat) (σ : Scope) (xs : List Value) :
    eval views (fuel + 3) σ (.call ".count" [.lit (.list xs)]) = .ok (.i (Int64.ofNat xs.length), σ) := by
  simp [eval, evalArgs, bind, Except.bind, pure, Except.pure]

/-- **ifelse_sel** -/
theorem ifelse_sel (views : List View) (fuel : Nat) (σ : Scope) (c : Bool) (t f : Value) :
    eval views (fuel + 2) σ (.ite (.lit (.b c)) (.lit t) (.lit f)) = .ok (if c then t else f, σ) := by
  cases c <;> simp [eval, bind, Except.bind]

/-- **set_transform_nodup**: the accumulator of a set-typed transform never holds two equal
    values -/
theorem setAppend_no_dup (acc : List Value) (v : Value) (h : acc.any (· == v) = true) : setAppend acc v = acc := by
  simp [setAppend, h]

/-- scope discipline, base facts: writing or deleting one name does not touch any other -/
theorem put_other (σ : Scope) (n x : String) (v : Value) (h : x ≠ n) : (σ.put n v).get x = σ.get x := by
  simp only [Scope.put, Scope.get, List.lookup]
  have : (x == n) = false := by simpa using h
  simp only [this]
  induction σ with
  | nil => simp
  | cons p rest ih =>
    obtain ⟨k, w⟩ := p
    simp only [List.filter]
    by_cases hk : k = n
    · subst hk
      simp [List.lookup, this, ih]
    · have hk' : (k != n) = true := by simpa using hk
      simp only [hk', List.lookup]
      split <;> simp_all

theorem del_other (σ : Scope) (n x : String) (h : x ≠ n) : (σ.del n).get x = σ.get x := by
  simp only [Scope.del, Scope.get]
  have : (x == n) = false := by simpa using h
  induction σ with
  | nil => simp
  | cons p rest ih =>
    obtain ⟨k, w⟩ := p
    simp only [List.filter]
    by_cases hk : k = n
    · subst hk
      simp [List.lookup, this, ih]
    · have hk' : (k != n) = true := by simpa using hk
      simp only [hk', List.lookup]
      split <;> simp_all

end SyslModel.Eval
