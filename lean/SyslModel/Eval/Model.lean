/-
C10 — reference interpreter for the view / transform expression language
(pkg/eval: exprEval.go, binexprEval.go, exprOp.go, unaryEval.go).

Values are immutable (value semantics — this is the specification the property states:
evaluation never changes a value already bound).  The scope is threaded exactly as the Go
code mutates its shared `Scope` map: `let` writes into the enclosing scope, the scope variable
of a transform is deleted afterwards, `where`/`flatten` restore theirs, "." is restored.
Integers are `Int64` (wrap-around, truncated division like Go).  Recursion is on fuel.
Core Lean only.
-/
namespace SyslModel.Eval

inductive Value where
  | null
  | b (x : Bool)
  | i (x : Int64)
  | s (x : String)
  | list (xs : List Value)
  | set (xs : List Value)
  | map (kvs : List (String × Value))      -- kept sorted by key
deriving Repr, Inhabited

mutual
def Value.beq : Value → Value → Bool
  | .null, .null => true
  | .b x, .b y => x == y
  | .i x, .i y => x == y
  | .s x, .s y => x == y
  | .list xs, .list ys => beqList xs ys
  | .set xs, .set ys => beqList xs ys
  | .map a, .map c => beqKV a c
  | _, _ => false
def beqList : List Value → List Value → Bool
  | [], [] => true
  | x :: xs, y :: ys => x.beq y && beqList xs ys
  | _, _ => false
def beqKV : List (String × Value) → List (String × Value) → Bool
  | [], [] => true
  | (k, x) :: xs, (l, y) :: ys => k == l && x.beq y && beqKV xs ys
  | _, _ => false
end

instance : BEq Value := ⟨Value.beq⟩

abbrev Scope := List (String × Value)

def Scope.get (σ : Scope) (n : String) : Option Value := σ.lookup n
def Scope.put (σ : Scope) (n : String) (v : Value) : Scope := (n, v) :: σ.filter (fun p => p.1 != n)
def Scope.del (σ : Scope) (n : String) : Scope := σ.filter (fun p => p.1 != n)

/-- insert into a key-sorted association list, replacing an existing key -/
def mapPut : List (String × Value) → String → Value → List (String × Value)
  | [], k, v => [(k, v)]
  | (k', v') :: rest, k, v =>
    if k == k' then (k, v) :: rest
    else if k < k' then (k, v) :: (k', v') :: rest
    else (k', v') :: mapPut rest k v

inductive Expr where
  | lit (v : Value)
  | name (n : String)
  | attr (e : Expr) (a : String)
  | ite (c t f : Expr)
  | bin (op : String) (l r : Expr) (sv : String)
  | un (op : String) (e : Expr)
  | call (f : String) (args : List Expr)
  | setE (es : List Expr)
  | listE (es : List Expr)
  | tx (arg : Expr) (sv : String) (stmts : List (Bool × String × Expr)) (asSet : Bool)   -- (isLet, name, expr)
deriving Repr, Inhabited

structure View where
  name   : String
  params : List String
  body   : Expr
deriving Repr

inductive Err where
  | unsupported (what : String)
  | divZero
  | unbound (n : String)
  | fuel
deriving Repr, DecidableEq

abbrev R (α : Type) := Except Err α

/-! ### pure value operators -/

def kindOf : Value → String
  | .null => "Null" | .b _ => "Bool" | .i _ => "Int" | .s _ => "String"
  | .list _ => "List" | .set _ => "Set" | .map _ => "Map"

def containedKind : Value → String
  | .list (x :: _) => kindOf x
  | .set (x :: _) => kindOf x
  | _ => "NoArg"

def insertSortedInt : Int64 → List Int64 → List Int64
  | x, [] => [x]
  | x, y :: ys => if x == y then y :: ys else if x < y then x :: y :: ys else y :: insertSortedInt x ys

def insertSortedStr : String → List String → List String
  | x, [] => [x]
  | x, y :: ys => if x == y then y :: ys else if x < y then x :: y :: ys else y :: insertSortedStr x ys

/-- `setUnion`: int and string items come out sorted and without duplicates -/
def setUnion (l r : List Value) : R Value :=
  let k := if containedKind (.set l) != "NoArg" then containedKind (.set l) else containedKind (.set r)
  if k == "NoArg" then .ok (.set [])
  else if k == "Int" then
    let ints := (l ++ r).filterMap (fun v => match v with | .i x => some x | _ => some 0)
    .ok (.set ((ints.foldl (fun acc x => insertSortedInt x acc) []).map Value.i))
  else if k == "String" then
    let strs := (l ++ r).filterMap (fun v => match v with | .s x => some x | _ => some "")
    .ok (.set ((strs.foldl (fun acc x => insertSortedStr x acc) []).map Value.s))
  else .error (.unsupported ("union of " ++ k))

def strIn (x : String) (xs : List Value) : Bool :=
  xs.any (fun v => match v with | .s y => x == y | _ => x == "")

def binValue (op : String) (l r : Value) : R Value :=
  match op, l, r with
  | "ADD", .i a, .i c => .ok (.i (a + c))
  | "SUB", .i a, .i c => .ok (.i (a - c))
  | "MUL", .i a, .i c => .ok (.i (a * c))
  | "DIV", .i a, .i c => if c == 0 then .error .divZero else .ok (.i (a / c))
  | "MOD", .i a, .i c => if c == 0 then .error .divZero else .ok (.i (a % c))
  | "ADD", .s a, .s c => .ok (.s (a ++ c))
  | "AND", .b a, .b c => .ok (.b (a && c))
  | "EQ", .b a, .b c => .ok (.b (a == c))
  | "EQ", .i a, .i c => .ok (.b (a == c))
  | "EQ", .s a, .s c => .ok (.b (a == c))
  | "EQ", .i _, .null => .ok (.b false)
  | "EQ", .null, .null => .ok (.b true)
  | "EQ", .null, .i _ => .ok (.b false)
  | "EQ", .null, .s _ => .ok (.b false)
  | "EQ", .s _, .null => .ok (.b false)
  | "GE", .i a, .i c => .ok (.b (a ≥ c))
  | "GT", .i a, .i c => .ok (.b (a > c))
  | "LE", .i a, .i c => .ok (.b (a ≤ c))
  | "LT", .i a, .i c => .ok (.b (a < c))
  | "BITOR", .list a, .list c => .ok (.list (a ++ c))
  | "BITOR", .list a, .set c => .ok (.list (a ++ c))
  | "BITOR", .set a, .set c => setUnion a c
  | "IN", .s x, .list xs => .ok (.b (strIn x xs))
  | "IN", .s x, .set xs => .ok (.b (strIn x xs))
  | "IN", .s _, .null => .ok (.b false)
  | "IN", .s x, .map kvs => .ok (.b (kvs.any (fun p => p.1 == x)))
  | "NOT_IN", .s x, .list xs => .ok (.b (!strIn x xs))
  | "NOT_IN", .s x, .set xs => .ok (.b (!strIn x xs))
  | "NOT_IN", .s _, .null => .ok (.b true)
  | "NOT_IN", .s x, .map kvs => .ok (.b (!kvs.any (fun p => p.1 == x)))
  | _, _, _ => .error (.unsupported (op ++ "_" ++ kindOf l ++ "_" ++ kindOf r))

def unValue (op : String) (v : Value) : R Value :=
  match op, v with
  | "NEG", .i x => .ok (.i (-x))
  | "NEG", .b x => .ok (.b (!x))
  | "SINGLE", .list [x] => .ok x
  | "SINGLE", .set [x] => .ok x
  | _, _ => .error (.unsupported ("un " ++ op ++ " " ++ kindOf v))

/-- `setAppender`: append unless an equal value is present -/
def setAppend (acc : List Value) (v : Value) : List Value := if acc.any (· == v) then acc else acc ++ [v]

def isInternalMap (kvs : List (String × Value)) : Bool := kvs.map (·.1) == ["key", "value"]

def getAttr (v : Value) (a : String) : R Value :=
  match v with
  | .map kvs =>
    if isInternalMap kvs && (a == "key" || a == "value") then .ok ((kvs.lookup a).getD .null)
    else
      let inner := if isInternalMap kvs then (match kvs.lookup "value" with | some (.map m) => some m | _ => none) else some kvs
      match inner with
      | none => .error (.unsupported "getattr on non-map entry value")
      | some m => .ok ((m.lookup a).getD .null)
  | _ => .error (.unsupported ("getattr on " ++ kindOf v))

/-! ### the evaluator -/

mutual
def eval (views : List View) : Nat → Scope → Expr → R (Value × Scope)
  | 0, _, _ => .error .fuel
  | fuel + 1, σ, e =>
    match e with
    | .lit v => .ok (v, σ)
    | .name n => match σ.get n with
      | some v => .ok (v, σ)
      | none => .error (.unbound n)
    | .attr e a => do
      let (v, σ) ← eval views fuel σ e
      let r ← getAttr v a
      pure (r, σ)
    | .ite c t f => do
      let (cv, σ) ← eval views fuel σ c
      match cv with
      | .b true => eval views fuel σ t
      | _ => eval views fuel σ f
    | .un op e => do
      let (v, σ) ← eval views fuel σ e
      let r ← unValue op v
      pure (r, σ)
    | .setE es => do
      let (vs, σ) ← evalArgs views fuel σ es
      pure (.set vs, σ)
    | .listE es => do
      let (vs, σ) ← evalArgs views fuel σ es
      pure (.list vs, σ)
    | .call f args =>
      if f == ".count" then do
        let (vs, σ) ← evalArgs views fuel σ args
        match vs with
        | [.list xs] => pure (.i (Int64.ofNat xs.length), σ)
        | [.set xs] => pure (.i (Int64.ofNat xs.length), σ)
        | [.map xs] => pure (.i (Int64.ofNat xs.length), σ)
        | _ => .error (.unsupported "count")
      else match views.find? (fun v => v.name == f) with
        | none => .error (.unsupported ("call " ++ f))
        | some vw => do
          let (vs, σ) ← evalArgs views fuel σ args
          if vs.length != vw.params.length then .error (.unsupported "arity") else
          let callScope : Scope := (vw.params.zip vs).foldl (fun s p => s.put p.1 p.2) []
          let (r, _) ← eval views fuel callScope vw.body
          pure (r, σ)
    | .bin op l r sv =>
      if op == "WHERE" || op == "FLATTEN" then do
        let (lv, σ) ← eval views fuel σ l
        let saved := σ.get sv
        let res ← (match op, lv with
          | "WHERE", .list xs => do
              let (ys, σ) ← whereItems views fuel σ sv r xs
              pure (Value.list ys, σ)
          | "WHERE", .set xs => do
              let (ys, σ) ← whereItems views fuel σ sv r xs
              pure (Value.set ys, σ)
          | "FLATTEN", .list xs => do
              let inner := xs.flatMap (fun x => match x with | .list ys => ys | .set ys => ys | other => [other])
              let (ys, σ) ← mapItems views fuel σ sv r inner
              pure (Value.list ys, σ)
          | "FLATTEN", .set xs => do
              let inner := xs.flatMap (fun x => match x with | .list ys => ys | .set ys => ys | other => [other])
              let (ys, σ) ← mapItems views fuel σ sv r inner
              pure (Value.set ys, σ)
          | _, _ => Except.error (Err.unsupported (op ++ " on " ++ kindOf lv)))
        let σ := res.2.del sv
        let σ := match saved with | some v => σ.put sv v | none => σ
        pure (res.1, σ)
      else if op == "NE" then do
        let (lv, σ) ← eval views fuel σ l
        let (rv, σ) ← eval views fuel σ r
        let e ← binValue "EQ" lv rv
        let n ← unValue "NEG" e
        pure (n, σ)
      else do
        let (lv, σ) ← eval views fuel σ l
        let (rv, σ) ← eval views fuel σ r
        let v ← binValue op lv rv
        pure (v, σ)
    | .tx arg sv stmts asSet => do
      let (av, σ) ← eval views fuel σ arg
      let dot := σ.get "."
      let res ← (match av with
        | .list xs => do
            let (ys, σ) ← txItems views fuel σ sv stmts asSet xs []
            pure ((if asSet then Value.set ys else Value.list ys), σ.del sv)
        | .set xs => do
            let (ys, σ) ← txItems views fuel σ sv stmts asSet xs []
            pure ((if asSet then Value.set ys else Value.list ys), σ.del sv)
        | .map kvs =>
            if sv != "." then do
              let entries := kvs.map (fun p => Value.map [("key", .s p.1), ("value", p.2)])
              let (ys, σ) ← txItems views fuel σ sv stmts false entries []
              pure ((if asSet then Value.set ys else Value.list ys), σ.del sv)
            else do
              let (r, σ) ← evalStmts views fuel (σ.put sv av) stmts []
              pure (r, σ.del sv)
        | other => do
            let (r, σ) ← evalStmts views fuel (σ.put sv other) stmts []
            pure (r, σ.del sv))
      let σ := match dot with | some v => res.2.put "." v | none => res.2
      pure (res.1, σ)

def evalArgs (views : List View) : Nat → Scope → List Expr → R (List Value × Scope)
  | 0, _, _ => .error .fuel
  | _ + 1, σ, [] => .ok ([], σ)
  | fuel + 1, σ, e :: rest => do
    let (v, σ) ← eval views fuel σ e
    let (vs, σ) ← evalArgs views fuel σ rest
    pure (v :: vs, σ)

/-- `evalTransformStmts`: lets go into the (shared) scope, assigns into the result map -/
def evalStmts (views : List View) : Nat → Scope → List (Bool × String × Expr) → List (String × Value) → R (Value × Scope)
  | 0, _, _, _ => .error .fuel
  | _ + 1, σ, [], acc => .ok (.map acc, σ)
  | fuel + 1, σ, (isLet, n, e) :: rest, acc => do
    let (v, σ) ← eval views fuel σ e
    if isLet then evalStmts views fuel (σ.put n v) rest acc
    else evalStmts views fuel σ rest (mapPut acc n v)

/-- the loop of `evalTransformUsingAppender` -/
def txItems (views : List View) : Nat → Scope → String → List (Bool × String × Expr) → Bool → List Value → List Value →
    R (List Value × Scope)
  | 0, _, _, _, _, _, _ => .error .fuel
  | _ + 1, σ, _, _, _, [], acc => .ok (acc, σ)
  | fuel + 1, σ, sv, stmts, asSet, x :: rest, acc => do
    let (r, σ) ← evalStmts views fuel (σ.put sv x) stmts []
    txItems views fuel σ sv stmts asSet rest (if asSet then setAppend acc r else acc ++ [r])

def whereItems (views : List View) : Nat → Scope → String → Expr → List Value → R (List Value × Scope)
  | 0, _, _, _, _ => .error .fuel
  | _ + 1, σ, _, _, [] => .ok ([], σ)
  | fuel + 1, σ, sv, p, x :: rest => do
    let (pv, σ) ← eval views fuel (σ.put sv x) p
    let (ys, σ) ← whereItems views fuel σ sv p rest
    pure ((match pv with | .b true => x :: ys | _ => ys), σ)

def mapItems (views : List View) : Nat → Scope → String → Expr → List Value → R (List Value × Scope)
  | 0, _, _, _, _ => .error .fuel
  | _ + 1, σ, _, _, [] => .ok ([], σ)
  | fuel + 1, σ, sv, f, x :: rest => do
    let (v, σ) ← eval views fuel (σ.put sv x) f
    let (ys, σ) ← mapItems views fuel σ sv f rest
    pure (v :: ys, σ)
end

end SyslModel.Eval
