/-
Mixins (C02 / C09 / C07).  `(*Parser).postProcess` gives an application the types and views of the
applications it mixes in (`-|> X`), and through them of the applications those mix in.  `mixIn`
(parse.go) walks the mixin lists depth first, each application at most once (`seen`), and copies what
each visited application declares *itself* (a snapshot taken before anything is mixed in).

`walk` is that function, generic in the name type `α` and in what is copied `β`; `Compile.mixWalk`
is its instance on the description of a specification.  `find a = some (mixins, own)` for a declared
application, `none` for a name nothing declares (the walk marks it seen and goes on).

`d` bounds the depth of the descent only; an application is entered only when it is not in `seen`, so
the number of declared applications is enough (`walk_complete` needs exactly that).
-/
namespace SyslModel.Mixin

variable {α β : Type} [BEq α]

def walk (find : α → Option (List α × List β)) : Nat → List α → (List α × List β) → (List α × List β)
  | _, [], st => st
  | d, m :: rest, (seen, acc) =>
    if seen.contains m then walk find d rest (seen, acc) else
    match find m with
    | none => walk find d rest (m :: seen, acc)
    | some (ms, own) =>
      match d with
      | 0 => walk find 0 rest (m :: seen, acc ++ own)
      | d' + 1 => walk find (d' + 1) rest (walk find d' ms (m :: seen, acc ++ own))
termination_by d todo _ => (d, todo.length)

/-- what application `a` receives: everything the applications it reaches declare themselves -/
def mixed (find : α → Option (List α × List β)) (fuel : Nat) (a : α) : List β :=
  match find a with
  | none => []
  | some (ms, _) => (walk find fuel ms ([a], [])).2

/-- what application `a` holds after post-processing: its own declarations and what it receives -/
def holds (find : α → Option (List α × List β)) (fuel : Nat) (a : α) : List β :=
  match find a with
  | none => []
  | some (_, own) => own ++ mixed find fuel a

/-- the module after post-processing, seen as a module again (same mixin lists; every application
    now declares what it holds): what a second compilation of the compiled model starts from -/
def again (find : α → Option (List α × List β)) (fuel : Nat) : α → Option (List α × List β) :=
  fun a => match find a with
    | none => none
    | some (ms, _) => some (ms, holds find fuel a)

end SyslModel.Mixin
