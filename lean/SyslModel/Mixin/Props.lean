import SyslModel.Mixin.Model

namespace SyslModel.Mixin

set_option linter.unusedSectionVars false

variable {α β : Type} [BEq α] [LawfulBEq α]

/-- `a` mixes in `m` -/
def Edge (find : α → Option (List α × List β)) (a m : α) : Prop :=
  ∃ ms own, find a = some (ms, own) ∧ m ∈ ms

/-- `b` is reached from `a` through mixin lists (in zero or more steps) -/
inductive Reach (find : α → Option (List α × List β)) : α → α → Prop
  | refl (a : α) : Reach find a a
  | tail {a b c : α} : Reach find a b → Edge find b c → Reach find a c

theorem Reach.trans {find : α → Option (List α × List β)} {a b c : α}
    (h₁ : Reach find a b) (h₂ : Reach find b c) : Reach find a c := by
  induction h₂ with
  | refl => exact h₁
  | tail _ e ih => exact Reach.tail ih e

theorem Reach.single {find : α → Option (List α × List β)} {a b : α} (e : Edge find a b) : Reach find a b :=
  Reach.tail (Reach.refl a) e

/-- declared applications not yet seen -/
def unseen (keys seen : List α) : Nat := keys.countP (fun k => !seen.contains k)

theorem unseen_mono (keys s₁ s₂ : List α) (h : ∀ x ∈ s₁, x ∈ s₂) : unseen keys s₂ ≤ unseen keys s₁ := by
  unfold unseen
  apply List.countP_mono_left
  intro x _ hx
  simp only [Bool.not_eq_true', List.contains_eq_mem, decide_eq_false_iff_not] at hx ⊢
  exact fun hm => hx (h x hm)

theorem unseen_cons_lt (keys seen : List α) (m : α) (hm : m ∈ keys) (hs : m ∉ seen) :
    unseen keys (m :: seen) < unseen keys seen := by
  unfold unseen
  induction keys with
  | nil => cases hm
  | cons k ks ih =>
    simp only [List.countP_cons]
    by_cases hkm : k = m
    · subst hkm
      have h1 : (!(k :: seen).contains k) = false := by simp
      have h2 : (!seen.contains k) = true := by simp [hs]
      have := unseen_mono ks seen (k :: seen) (fun x hx => List.mem_cons_of_mem _ hx)
      unfold unseen at this
      simp only [h1, h2, Bool.false_eq_true, if_false, if_true, Nat.add_zero]
      omega
    · have hm' : m ∈ ks := by
        cases hm with
        | head => exact absurd rfl hkm
        | tail _ h => exact h
      have := ih hm'
      have hc : (k :: ks).length = (k :: ks).length := rfl
      by_cases hks : k ∈ seen
      · have h1 : (!(m :: seen).contains k) = false := by simp [hks]
        have h2 : (!seen.contains k) = false := by simp [hks]
        simp only [h1, h2, Bool.false_eq_true, if_false, Nat.add_zero]
        exact this
      · have h1 : (!(m :: seen).contains k) = true := by simp [hks, hkm]
        have h2 : (!seen.contains k) = true := by simp [hks]
        simp only [h1, h2, if_true]
        omega

/-- what one call of `walk` guarantees when the depth allowance covers the unseen applications -/
structure WalkInv (find : α → Option (List α × List β)) (todo : List α) (st st' : List α × List β) : Prop where
  seen_mono : ∀ x ∈ st.1, x ∈ st'.1
  acc_mono : ∀ t ∈ st.2, t ∈ st'.2
  todo_seen : ∀ m ∈ todo, m ∈ st'.1
  closed : ∀ n ∈ st'.1, n ∉ st.1 → ∀ ms own, find n = some (ms, own) →
    (∀ t ∈ own, t ∈ st'.2) ∧ (∀ k ∈ ms, k ∈ st'.1)

theorem walk_inv (find : α → Option (List α × List β)) (keys : List α)
    (hk : ∀ a ms own, find a = some (ms, own) → a ∈ keys) :
    ∀ (d : Nat) (todo : List α) (st : List α × List β), unseen keys st.1 ≤ d →
      WalkInv find todo st (walk find d todo st) := by
  intro d todo st
  fun_induction walk find d todo st with
  | case1 d st =>
    intro _
    exact ⟨fun _ h => h, fun _ h => h, fun _ h => (by cases h), fun n hn hn2 => absurd hn hn2⟩
  | case2 d m rest seen acc hc ih =>
    intro hd
    have I := ih hd
    have hm : m ∈ seen := by simpa using hc
    refine ⟨I.seen_mono, I.acc_mono, ?_, I.closed⟩
    intro x hx
    cases hx with
    | head => exact I.seen_mono m hm
    | tail _ h => exact I.todo_seen x h
  | case3 d m rest seen acc hc hf ih =>
    intro hd
    have hle : unseen keys (m :: seen) ≤ d :=
      Nat.le_trans (unseen_mono keys seen (m :: seen) (fun x hx => List.mem_cons_of_mem _ hx)) hd
    have I := ih hle
    refine ⟨fun x hx => I.seen_mono x (List.mem_cons_of_mem _ hx), I.acc_mono, ?_, ?_⟩
    · intro x hx
      cases hx with
      | head => exact I.seen_mono m (List.mem_cons_self ..)
      | tail _ h => exact I.todo_seen x h
    · intro n hn hns ms own hfn
      by_cases hnm : n = m
      · subst hnm; rw [hf] at hfn; cases hfn
      · exact I.closed n hn (by simp [hnm, hns]) ms own hfn
  | case4 m rest seen acc hc ms own hf ih =>
    intro hd
    -- depth 0 with an unseen declared application: impossible under the allowance
    have hm : m ∉ seen := by simpa using hc
    have := unseen_cons_lt keys seen m (hk m ms own hf) hm
    simp only at hd
    omega
  | case5 m rest seen acc hc ms own hf d' ih1 ih2 =>
    intro hd
    have hm : m ∉ seen := by simpa using hc
    have hlt := unseen_cons_lt keys seen m (hk m ms own hf) hm
    simp only at hd
    have I1 := ih1 (by simp only; omega)
    have hsub : ∀ x ∈ seen, x ∈ (walk find d' ms (m :: seen, acc ++ own)).1 :=
      fun x hx => I1.seen_mono x (List.mem_cons_of_mem _ hx)
    have I2 := ih2 (Nat.le_trans (unseen_mono keys seen _ hsub) hd)
    refine ⟨fun x hx => I2.seen_mono x (hsub x hx),
      fun t ht => I2.acc_mono t (I1.acc_mono t (List.mem_append_left _ ht)), ?_, ?_⟩
    · intro x hx
      cases hx with
      | head => exact I2.seen_mono m (I1.seen_mono m (List.mem_cons_self ..))
      | tail _ h => exact I2.todo_seen x h
    · intro n hn hns ms' own' hfn
      by_cases h1 : n ∈ (walk find d' ms (m :: seen, acc ++ own)).1
      · by_cases hnm : n = m
        · subst hnm
          rw [hf] at hfn
          cases hfn
          exact ⟨fun t ht => I2.acc_mono t (I1.acc_mono t (List.mem_append_right _ ht)),
            fun k hk' => I2.seen_mono k (I1.todo_seen k hk')⟩
        · have := I1.closed n h1 (by simp [hnm, hns]) ms' own' hfn
          exact ⟨fun t ht => I2.acc_mono t (this.1 t ht), fun k hk' => I2.seen_mono k (this.2 k hk')⟩
      · exact I2.closed n hn h1 ms' own' hfn

/-- what one call of `walk` never does, whatever the depth allowance -/
structure WalkSound (find : α → Option (List α × List β)) (todo : List α) (st st' : List α × List β) : Prop where
  seen_mono : ∀ x ∈ st.1, x ∈ st'.1
  acc_mono : ∀ t ∈ st.2, t ∈ st'.2
  seen_from : ∀ n ∈ st'.1, n ∉ st.1 → ∃ m ∈ todo, Reach find m n
  acc_from : ∀ t ∈ st'.2, t ∉ st.2 → ∃ n ∈ st'.1, n ∉ st.1 ∧ ∃ ms own, find n = some (ms, own) ∧ t ∈ own

theorem walk_sound (find : α → Option (List α × List β)) :
    ∀ (d : Nat) (todo : List α) (st : List α × List β), WalkSound find todo st (walk find d todo st) := by
  intro d todo st
  fun_induction walk find d todo st with
  | case1 d st =>
    exact ⟨fun _ h => h, fun _ h => h, fun n hn hn2 => absurd hn hn2, fun t ht ht2 => absurd ht ht2⟩
  | case2 d m rest seen acc hc ih =>
    refine ⟨ih.seen_mono, ih.acc_mono, ?_, ih.acc_from⟩
    intro n hn hns
    obtain ⟨x, hx, hr⟩ := ih.seen_from n hn hns
    exact ⟨x, List.mem_cons_of_mem _ hx, hr⟩
  | case3 d m rest seen acc hc hf ih =>
    refine ⟨fun x hx => ih.seen_mono x (List.mem_cons_of_mem _ hx), ih.acc_mono, ?_, ?_⟩
    · intro n hn hns
      by_cases hnm : n = m
      · subst hnm; exact ⟨n, List.mem_cons_self .., Reach.refl n⟩
      · obtain ⟨x, hx, hr⟩ := ih.seen_from n hn (by simp [hnm, hns])
        exact ⟨x, List.mem_cons_of_mem _ hx, hr⟩
    · intro t ht hta
      obtain ⟨n, hn, hns, ms, own, hfn, hto⟩ := ih.acc_from t ht hta
      exact ⟨n, hn, fun h => hns (List.mem_cons_of_mem _ h), ms, own, hfn, hto⟩
  | case4 m rest seen acc hc ms own hf ih =>
    have hm : m ∉ seen := by simpa using hc
    refine ⟨fun x hx => ih.seen_mono x (List.mem_cons_of_mem _ hx),
      fun t ht => ih.acc_mono t (List.mem_append_left _ ht), ?_, ?_⟩
    · intro n hn hns
      by_cases hnm : n = m
      · subst hnm; exact ⟨n, List.mem_cons_self .., Reach.refl n⟩
      · obtain ⟨x, hx, hr⟩ := ih.seen_from n hn (by simp [hnm, hns])
        exact ⟨x, List.mem_cons_of_mem _ hx, hr⟩
    · intro t ht hta
      by_cases h1 : t ∈ acc ++ own
      · have hto : t ∈ own := by
          rcases List.mem_append.mp h1 with h | h
          · exact absurd h hta
          · exact h
        exact ⟨m, ih.seen_mono m (List.mem_cons_self ..), hm, ms, own, hf, hto⟩
      · obtain ⟨n, hn, hns, ms', own', hfn, hto⟩ := ih.acc_from t ht h1
        exact ⟨n, hn, fun h => hns (List.mem_cons_of_mem _ h), ms', own', hfn, hto⟩
  | case5 m rest seen acc hc ms own hf d' ih1 ih2 =>
    have hm : m ∉ seen := by simpa using hc
    have hsub : ∀ x ∈ seen, x ∈ (walk find d' ms (m :: seen, acc ++ own)).1 :=
      fun x hx => ih1.seen_mono x (List.mem_cons_of_mem _ hx)
    refine ⟨fun x hx => ih2.seen_mono x (hsub x hx),
      fun t ht => ih2.acc_mono t (ih1.acc_mono t (List.mem_append_left _ ht)), ?_, ?_⟩
    · intro n hn hns
      by_cases h1 : n ∈ (walk find d' ms (m :: seen, acc ++ own)).1
      · by_cases hnm : n = m
        · subst hnm; exact ⟨n, List.mem_cons_self .., Reach.refl n⟩
        · obtain ⟨k, hk', hr⟩ := ih1.seen_from n h1 (by simp [hnm, hns])
          exact ⟨m, List.mem_cons_self .., Reach.trans (Reach.single ⟨ms, own, hf, hk'⟩) hr⟩
      · obtain ⟨x, hx, hr⟩ := ih2.seen_from n hn h1
        exact ⟨x, List.mem_cons_of_mem _ hx, hr⟩
    · intro t ht hta
      by_cases h1 : t ∈ (walk find d' ms (m :: seen, acc ++ own)).2
      · by_cases h0 : t ∈ acc ++ own
        · have hto : t ∈ own := by
            rcases List.mem_append.mp h0 with h | h
            · exact absurd h hta
            · exact h
          exact ⟨m, ih2.seen_mono m (ih1.seen_mono m (List.mem_cons_self ..)), hm, ms, own, hf, hto⟩
        · obtain ⟨n, hn, hns, ms', own', hfn, hto⟩ := ih1.acc_from t h1 h0
          exact ⟨n, ih2.seen_mono n hn, fun h => hns (List.mem_cons_of_mem _ h), ms', own', hfn, hto⟩
      · obtain ⟨n, hn, hns, ms', own', hfn, hto⟩ := ih2.acc_from t ht h1
        exact ⟨n, hn, fun h => hns (hsub n h), ms', own', hfn, hto⟩

/-! ## PROPERTY THEOREMS -/

section
variable (find : α → Option (List α × List β)) (keys : List α)
  (hk : ∀ a ms own, find a = some (ms, own) → a ∈ keys) (fuel : Nat) (hfuel : keys.length ≤ fuel)
include hk hfuel

/-- **mixed_complete**: an application receives everything that every application it reaches through
    mixin lists (chains and cycles included) declares itself -/
theorem mixed_complete (a b : α) (ms : List α) (own : List β) (ha : find a = some (ms, own))
    (hr : Reach find a b) (hne : b ≠ a) (mb : List α) (ob : List β) (hb : find b = some (mb, ob)) :
    ∀ t ∈ ob, t ∈ mixed find fuel a := by
  have hle : unseen keys ([a], ([] : List β)).1 ≤ fuel := by
    refine Nat.le_trans ?_ hfuel
    unfold unseen
    exact List.countP_le_length
  have I := walk_inv find keys hk fuel ms ([a], []) hle
  have hall : ∀ n, Reach find a n → n ∈ (walk find fuel ms ([a], [])).1 := by
    intro n hn
    induction hn with
    | refl => exact I.seen_mono a (List.mem_cons_self ..)
    | @tail x y _ e ih =>
      obtain ⟨mx, ox, hfx, hy⟩ := e
      by_cases hxa : x = a
      · subst hxa
        rw [ha] at hfx
        cases hfx
        exact I.todo_seen y hy
      · exact (I.closed x ih (by simp [hxa]) mx ox hfx).2 y hy
  have hbs := hall b hr
  intro t ht
  have := (I.closed b hbs (by simp [hne]) mb ob hb).1 t ht
  unfold mixed
  rw [ha]
  exact this

omit hk hfuel [LawfulBEq α] in
/-- **mixed_sound**: an application receives nothing but what some application it reaches declares itself -/
theorem mixed_sound [LawfulBEq α] (a : α) (t : β) (ht : t ∈ mixed find fuel a) :
    ∃ b, Reach find a b ∧ b ≠ a ∧ ∃ mb ob, find b = some (mb, ob) ∧ t ∈ ob := by
  unfold mixed at ht
  cases ha : find a with
  | none => rw [ha] at ht; cases ht
  | some p =>
    obtain ⟨ms, own⟩ := p
    rw [ha] at ht
    have S := walk_sound find fuel ms ([a], [])
    obtain ⟨n, hn, hns, mb, ob, hfn, hto⟩ := S.acc_from t ht (by simp)
    obtain ⟨m, hm, hr⟩ := S.seen_from n hn hns
    have hna : n ≠ a := by simpa using hns
    exact ⟨n, Reach.trans (Reach.single ⟨ms, own, ha, hm⟩) hr, hna, mb, ob, hfn, hto⟩

/-- **holds_spec**: after post-processing an application holds exactly what the applications it reaches
    (itself included) declare - a statement in which neither names nor visiting order occur -/
theorem holds_spec (a : α) (ms : List α) (own : List β) (ha : find a = some (ms, own)) (t : β) :
    t ∈ holds find fuel a ↔ ∃ b, Reach find a b ∧ ∃ mb ob, find b = some (mb, ob) ∧ t ∈ ob := by
  unfold holds
  rw [ha]
  constructor
  · intro h
    rcases List.mem_append.mp h with h | h
    · exact ⟨a, Reach.refl a, ms, own, ha, h⟩
    · obtain ⟨b, hr, _, mb, ob, hb, hto⟩ := mixed_sound find fuel a t h
      exact ⟨b, hr, mb, ob, hb, hto⟩
  · rintro ⟨b, hr, mb, ob, hb, hto⟩
    by_cases hba : b = a
    · subst hba
      rw [ha] at hb
      cases hb
      exact List.mem_append_left _ hto
    · exact List.mem_append_right _ (mixed_complete find keys hk fuel hfuel a b ms own ha hr hba mb ob hb t hto)

omit hk hfuel in
theorem reach_again (a b : α) : Reach (again find fuel) a b ↔ Reach find a b := by
  have edge : ∀ x y, Edge (again find fuel) x y ↔ Edge find x y := by
    intro x y
    unfold Edge again
    cases hx : find x with
    | none => simp
    | some p => obtain ⟨mx, ox⟩ := p; simp
  constructor
  · intro h
    induction h with
    | refl => exact Reach.refl _
    | tail _ e ih => exact Reach.tail ih ((edge _ _).mp e)
  · intro h
    induction h with
    | refl => exact Reach.refl _
    | tail _ e ih => exact Reach.tail ih ((edge _ _).mpr e)

/-- **recompile_gains_nothing**: compiling the compiled model again (every application now declaring
    what it holds) leaves every application holding exactly what it held -/
theorem recompile_gains_nothing (a : α) (t : β) :
    t ∈ holds (again find fuel) fuel a ↔ t ∈ holds find fuel a := by
  cases ha : find a with
  | none => simp [holds, again, ha]
  | some p =>
    obtain ⟨ms, own⟩ := p
    have ha' : again find fuel a = some (ms, holds find fuel a) := by simp [again, ha]
    have hk' : ∀ x mx ox, again find fuel x = some (mx, ox) → x ∈ keys := by
      intro x mx ox hx
      unfold again at hx
      cases hfx : find x with
      | none => rw [hfx] at hx; cases hx
      | some q => exact hk x q.1 q.2 (by rw [hfx])
    rw [holds_spec (again find fuel) keys hk' fuel hfuel a ms _ ha' t]
    constructor
    · rintro ⟨b, hr, mb, ob, hb, hto⟩
      have hr' := (reach_again find fuel a b).mp hr
      -- what b declares the second time is what it held after the first
      unfold again at hb
      cases hfb : find b with
      | none => rw [hfb] at hb; cases hb
      | some q =>
        obtain ⟨mb0, ob0⟩ := q
        rw [hfb] at hb
        cases hb
        obtain ⟨c, hrc, mc, oc, hc, htc⟩ := (holds_spec find keys hk fuel hfuel b mb ob0 hfb t).mp hto
        exact (holds_spec find keys hk fuel hfuel a ms own ha t).mpr ⟨c, Reach.trans hr' hrc, mc, oc, hc, htc⟩
    · intro h
      exact ⟨a, Reach.refl a, ms, _, ha', h⟩
end

/-- non-vacuity: the chain A -|> B -|> C and a three-cycle; `again` gains nothing (here even as lists) -/
def chain : Nat → Option (List Nat × List Nat)
  | 1 => some ([2], [10])
  | 2 => some ([3], [20])
  | 3 => some ([], [30])
  | _ => none
def cycle3 : Nat → Option (List Nat × List Nat)
  | 1 => some ([2], [10])
  | 2 => some ([3], [20])
  | 3 => some ([1], [30])
  | _ => none
example : holds chain 3 1 = [10, 20, 30] := by simp [holds, mixed, walk, chain]
example : holds cycle3 3 3 = [30, 10, 20] := by simp [holds, mixed, walk, cycle3]
example : holds cycle3 3 2 = [20, 30, 10] := by simp [holds, mixed, walk, cycle3]

end SyslModel.Mixin
