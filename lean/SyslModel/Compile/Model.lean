import SyslModel.Mixin.Model
/-
C02 — `Compile`: what a specification text declares, as the module the compiler must build.

`File` is the abstract description the generator writes (applications, types, fields, enums,
aliases, unions, endpoints, parameters, REST trees, statements, mixins, events, attributes).
`compile` maps it to a generic message tree (`Node`) that mirrors the protobuf module the
listener of pkg/parse builds, callback by callback, followed by post-processing (type-reference
scope fix-up, mixin copy).  `rows` flattens a tree into the (path = value) lines the harness
also produces from the real `*sysl.Module` by reflection.
Core Lean only.
-/
namespace SyslModel.Compile

/-- a field name: plain, with a map key, or with a list index (`name`, `types["Order"]`, `stmt[3]`) -/
inductive Key where
  | f (name : String)
  | k (name : String) (key : String)
  | i (name : String) (idx : Nat)
deriving Repr, DecidableEq, Inhabited

instance : Coe String Key := ⟨Key.f⟩

/-- generic protobuf message tree: a scalar (already printed) or a message with named fields;
    field names carry their map key / list index (`types["Order"]`, `stmt[3]`) -/
inductive Node where
  | leaf (v : String)          -- an enum name or a boolean, printed as is
  | str (s : String)           -- a string (printed quoted by `rows`)
  | int (v : Int)              -- an integer
  | msg (fs : List (Key × Node))
deriving Repr, Inhabited

/-! ## abstract description -/

inductive Size where
  | none
  | max (n : Nat)
  | range (lo hi : Nat)
  | dec (p s : Nat)
deriving Repr, DecidableEq, Inhabited

inductive Wrap where | none | set | seq
deriving Repr, DecidableEq, Inhabited

inductive Base where
  | prim (name : String) (size : Size)
  | ref (app : List String) (path : List String)
deriving Repr, DecidableEq, Inhabited

structure TypeExpr where
  wrap : Wrap
  base : Base
  opt : Bool
deriving Repr, DecidableEq, Inhabited

inductive AttrVal where
  | s (v : String)
  | a (vs : List AttrVal)
deriving Repr, Inhabited

structure Attrs where
  tags : List String
  kv : List (String × AttrVal)
deriving Repr, Inhabited

structure Field where
  name : String
  ty : TypeExpr
  attrs : Attrs
deriving Repr, Inhabited

inductive TypeBody where
  | tuple (fs : List Field)
  | table (fs : List Field)
  | enum (items : List (String × Int))
  | alias (t : TypeExpr)
  | union (ms : List TypeExpr)
deriving Repr, Inhabited

structure TypeDecl where
  name : String
  attrs : Attrs
  body : TypeBody
deriving Repr, Inhabited

inductive Stmt where
  | action (t : String)
  | call (target : List String) (ep : String) (attrs : Attrs)
  | ret (payload : String)
  | cond (test : String) (body : List Stmt)
  | group (title : String) (body : List Stmt)
  | loop (mode : String) (crit : String) (body : List Stmt)
  | foreach (coll : String) (body : List Stmt)
  | alt (choices : List (String × List Stmt))
deriving Repr, Inhabited

structure Param where
  name : String
  ty : TypeExpr
  attrs : Attrs
deriving Repr, Inhabited

structure Ep where
  name : String
  long : String
  params : List Param
  attrs : Attrs
  stmts : List Stmt
  event : Bool
deriving Repr, Inhabited

inductive Seg where
  | lit (s : String)
  | var (name : String) (ty : TypeExpr)
deriving Repr, Inhabited

structure Method where
  verb : String
  query : List (String × TypeExpr)
  params : List Param
  attrs : Attrs
  stmts : List Stmt
deriving Repr, Inhabited

inductive RestNode where
  | node (segs : List Seg) (attrs : Attrs) (methods : List Method) (children : List RestNode)
deriving Repr, Inhabited

/-- a statement of the collector block `.. * <- *:` -/
inductive Template where
  | call (target : List String) (ep : String) (attrs : Attrs)   -- attributes for every such call
  | endpoint (name : String) (attrs : Attrs)                     -- attributes for that endpoint
deriving Repr, Inhabited

/-- `Pub -> Event [attrs]: stmts` -/
structure Sub where
  pub : List String
  event : String
  attrs : Attrs
  stmts : List Stmt
deriving Repr, Inhabited

structure App where
  parts : List String
  long : String
  attrs : Attrs
  mixins : List (List String)
  types : List TypeDecl
  eps : List Ep
  rest : List RestNode
  collector : List Template
  subs : List Sub
deriving Repr, Inhabited

structure File where
  apps : List App
deriving Repr, Inhabited

/-! ## printing of scalars (as Go's %q / %v print them) -/

def quote (s : String) : String :=
  "\"" ++ String.join (s.toList.map fun c =>
    if c = '"' then "\\\"" else if c = '\\' then "\\\\" else if c = '\n' then "\\n" else if c = '\t' then "\\t" else c.toString) ++ "\""

def qleaf (s : String) : Node := .str s
def key (field k : String) : Key := .k field k
def idx (field : String) (i : Nat) : Key := .i field i

def Key.toString : Key → String
  | .f n => n
  | .k n mk => n ++ "[" ++ quote mk ++ "]"
  | .i n j => n ++ "[" ++ ToString.toString j ++ "]"

/-- `field[0] … field[n-1]` -/
def indexed (field : String) (ns : List Node) : List (Key × Node) :=
  (List.range ns.length).zip ns |>.map fun (i, n) => (idx field i, n)

def partsNode (parts : List String) : Node := .msg (indexed "part" (parts.map qleaf))

/-! ## attributes -/

mutual
def attrValNode : AttrVal → Node
  | .s v => .msg [(Key.f "s", qleaf v)]
  | .a vs => .msg [(Key.f "a", .msg (indexed "elt" (attrValNodes vs)))]
def attrValNodes : List AttrVal → List Node
  | [] => []
  | v :: vs => attrValNode v :: attrValNodes vs
end

/-- `attrs[...]` fields: the tags as the string array `patterns`, then each named value -/
def attrFields (a : Attrs) : List (Key × Node) :=
  (if a.tags.isEmpty then [] else
    [(key "attrs" "patterns", .msg [(Key.f "a", .msg (indexed "elt" (a.tags.map fun t => .msg [(Key.f "s", qleaf t)])))])]) ++
  a.kv.map fun (k, v) => (key "attrs" k, attrValNode v)

/-! ## types -/

def primName (n : String) : String :=
  match n with
  | "int32" | "int64" => "INT"
  | "float32" | "float64" => "FLOAT"
  | _ => n.toUpper

/-- the constraint message of a primitive: the bit width / range its name implies, replaced or
    extended by a size spec -/
def constraintFields (n : String) (sz : Size) : List (Key × Node) :=
  let width : List (Key × Node) :=
    match n with
    | "int32" => [(Key.f "bit_width", .leaf "32"), (Key.f "range", .msg [(Key.f "max", .msg [(Key.f "i", .leaf "2147483647")]), (Key.f "min", .msg [(Key.f "i", .leaf "-2147483648")])])]
    | "int64" => [(Key.f "bit_width", .leaf "64"), (Key.f "range", .msg [(Key.f "max", .msg [(Key.f "i", .leaf "9223372036854775807")]), (Key.f "min", .msg [(Key.f "i", .leaf "-9223372036854775808")])])]
    | "float32" => [(Key.f "bit_width", .leaf "32")]
    | "float64" => [(Key.f "bit_width", .leaf "64")]
    | _ => []
  -- a size spec replaces the constraint but keeps the bit width (`makeTypeConstraint`)
  let bw : List (Key × Node) := width.filter (fun p => p.1 == Key.f "bit_width")
  match sz with
  | .none => width
  | .max m => bw ++ [(Key.f "length", .msg [(Key.f "max", .leaf (toString m))])]
  | .range lo hi => bw ++ [(Key.f "length", .msg ((if lo = 0 then [] else [(Key.f "min", .leaf (toString lo))]) ++ [(Key.f "max", .leaf (toString hi))]))]
  | .dec p s => [(Key.f "length", .msg [(Key.f "max", .leaf (toString p))]), (Key.f "precision", .leaf (toString p))] ++
      (if s = 0 then [] else [(Key.f "scale", .leaf (toString s))])

/-- what the compiler knows about the module when it resolves references -/
structure Env where
  apps : List (List String × List String)   -- application parts, names of its types
deriving Repr, Inhabited

def joinApp (parts : List String) : String := " :: ".intercalate parts

def Env.typesOf (e : Env) (app : String) : Option (List String) :=
  (e.apps.find? (fun a => joinApp a.1 == app)).map (·.2)

/-- `makeScope` then `fixTypeRefScope`: which application and path a written reference ends up
    naming, seen from application `cur` -/
def resolveRef (e : Env) (cur : List String) (app path : List String) : List String × List String :=
  -- the grammar reads `T.f` as application `T`, path `f`
  let (app, path) := if app.isEmpty && path.length > 1 then ([path.head!], path.tail) else (app, path)
  if app.length != 1 then (app, path) else
  let a := app.head!
  if joinApp cur == a then (app, path) else
  match path with
  | [] => (app, path)
  | t :: _ =>
    if ((e.typesOf a).getD []).contains t then (app, path) else
    if ((e.typesOf (joinApp cur)).getD []).contains a then ([], a :: path) else (app, path)

def scopeNode (app path : List String) : Node :=
  .msg ((if app.isEmpty then [] else [(Key.f "appname", partsNode app)]) ++ indexed "path" (path.map qleaf))

/-- where a reference is written: the context the compiler records beside it -/
structure RefCtx where
  app : List String
  path : List String
  keep : Bool          -- parameters drop the context
deriving Repr, Inhabited

def baseFields (e : Env) (c : RefCtx) : Base → List (Key × Node)
  | .prim n sz =>
    let cs := constraintFields n sz
    (if cs.isEmpty then [] else [(idx "constraint" 0, .msg cs)]) ++ [(Key.f "primitive", .leaf (primName n))]
  | .ref app path =>
    let (a, p) := resolveRef e c.app app path
    [(Key.f "type_ref", .msg ((if c.keep then [(Key.f "context", .msg ([(Key.f "appname", partsNode c.app)] ++ indexed "path" (c.path.map qleaf)))] else []) ++
      [(Key.f "ref", scopeNode a p)]))]

/-- the fields of a `Type` message for a written type expression with its attributes -/
def typeFields (e : Env) (c : RefCtx) (t : TypeExpr) (attrs : Attrs) : List (Key × Node) :=
  (if t.opt then [(Key.f "opt", .leaf "true")] else []) ++ attrFields attrs ++
  match t.wrap with
  | .none => baseFields e c t.base
  | .set => [(Key.f "set", .msg (baseFields e c t.base))]
  | .seq => [(Key.f "sequence", .msg (baseFields e c t.base))]

def noAttrs : Attrs := ⟨[], []⟩

/-- a nested type is named `Outer.Inner`; the context recorded beside a reference is the path -/
def fieldNodes (e : Env) (app : List String) (tname : String) (fs : List Field) : List (Key × Node) :=
  fs.map fun f => (key "attr_defs" f.name, .msg (typeFields e ⟨app, tname.splitOn ".", true⟩ f.ty f.attrs))

def typeDeclFields (e : Env) (app : List String) (t : TypeDecl) : List (Key × Node) :=
  attrFields t.attrs ++
  match t.body with
  | .tuple fs => [(Key.f "tuple", .msg (fieldNodes e app t.name fs))]
  | .table fs =>
    let pks := (fs.filter fun f => f.attrs.tags.contains "pk").map (·.name)
    [(Key.f "relation", .msg (fieldNodes e app t.name fs ++
      (if pks.isEmpty then [] else [(Key.f "primary_key", .msg (indexed "attr_name" (pks.map qleaf)))])))]
  | .enum items => [(Key.f "enum", .msg (items.map fun (n, v) => (key "items" n, .int v)))]
  | .alias ty => typeFields e ⟨app, [t.name], true⟩ ty noAttrs
  | .union ms => [(Key.f "one_of", .msg (indexed "type" (ms.map fun m => .msg (typeFields e ⟨app, [t.name], true⟩ m noAttrs))))]

/-! ## statements -/

mutual
def stmtNode (self : List String) : Stmt → Node
  | .action t => .msg [(Key.f "action", .msg [(Key.f "action", qleaf t)])]
  | .call target ep attrs =>
    .msg (attrFields attrs ++ [(Key.f "call", .msg [(Key.f "endpoint", qleaf ep), (Key.f "target", partsNode (if target.isEmpty then self else target))])])
  | .ret p => .msg [(Key.f "ret", .msg [(Key.f "payload", qleaf p)])]
  | .cond test body => .msg [(Key.f "cond", .msg ((Key.f "test", qleaf test) :: stmtFields self 0 body))]
  | .group title body => .msg [(Key.f "group", .msg ((Key.f "title", qleaf title) :: stmtFields self 0 body))]
  | .loop mode crit body => .msg [(Key.f "loop", .msg ((Key.f "mode", .leaf mode) :: (Key.f "criterion", qleaf crit) :: stmtFields self 0 body))]
  | .foreach coll body => .msg [(Key.f "foreach", .msg ((Key.f "collection", qleaf coll) :: stmtFields self 0 body))]
  | .alt choices => .msg [(Key.f "alt", .msg (choiceFields self 0 choices))]
/-- `stmt[i] …` from index `i` on: source order is list order -/
def stmtFields (self : List String) (i : Nat) : List Stmt → List (Key × Node)
  | [] => []
  | s :: ss => (idx "stmt" i, stmtNode self s) :: stmtFields self (i + 1) ss
def choiceFields (self : List String) (i : Nat) : List (String × List Stmt) → List (Key × Node)
  | [] => []
  | (c, body) :: cs => (idx "choice" i, .msg ((Key.f "cond", qleaf c) :: stmtFields self 0 body)) :: choiceFields self (i + 1) cs
end

/-! ## endpoints -/

def paramFields (e : Env) (app : List String) (ps : List Param) : List (Key × Node) :=
  -- ExitParams drops the context of a direct or set-wrapped reference; a sequence keeps it
  indexed "param" (ps.map fun p => .msg [(Key.f "name", qleaf p.name), (Key.f "type", .msg (typeFields e ⟨app, [], p.ty.wrap == Wrap.seq⟩ p.ty p.attrs))])

/-- an endpoint; `extra` are the statements other declarations add to it (subscribers' calls) -/
def epNode (e : Env) (app : List String) (ep : Ep) (attrs : Attrs) (stmts : List Stmt) : Node :=
  .msg ([(Key.f "name", qleaf ep.name)] ++ (if ep.long.isEmpty then [] else [(Key.f "long_name", qleaf ep.long)]) ++
    (if ep.event then [(Key.f "is_pubsub", .leaf "true")] else []) ++
    attrFields attrs ++ paramFields e app ep.params ++ stmtFields app 0 stmts)

/-- `mergeAttrs` of the listener: a value set lower replaces one set higher, except that two
    arrays are concatenated (outer first) -/
def mergeVal (outer inner : AttrVal) : AttrVal :=
  match outer, inner with
  | .a xs, .a ys => .a (xs ++ ys)
  | _, v => v

/-- merge attributes down a REST tree: tags accumulate (repeats are kept); named values by `mergeVal` -/
def mergeAttrs (outer inner : Attrs) : Attrs :=
  { tags := outer.tags ++ inner.tags,
    kv := outer.kv.map (fun p => match inner.kv.find? (fun q => q.1 == p.1) with
                                 | some q => (p.1, mergeVal p.2 q.2)
                                 | none => p) ++
          inner.kv.filter (fun q => !(outer.kv.map (·.1)).contains q.1) }

/-! ## collector templates and subscriptions -/

mutual
def valEq : AttrVal → AttrVal → Bool
  | .s x, .s y => x == y
  | .a xs, .a ys => valsEq xs ys
  | _, _ => false
def valsEq : List AttrVal → List AttrVal → Bool
  | [], [] => true
  | x :: xs, y :: ys => valEq x y && valsEq xs ys
  | _, _ => false
end

/-- the elements of `run` occur in `list`, contiguously and in order -/
def containsRun {α : Type} (eq : α → α → Bool) (list run : List α) : Bool :=
  run.isEmpty || (List.range (list.length + 1 - run.length)).any fun i =>
    let w := (list.drop i).take run.length
    w.length == run.length && (w.zip run).all fun p => eq p.1 p.2

/-- `mergeTemplateAttrs`: a template's attributes are merged in, except arrays whose elements
    the target already lists in the same order (so that applying a template twice changes nothing) -/
def mergeTemplate (dst t : Attrs) : Attrs :=
  let tags := if !dst.tags.isEmpty && !t.tags.isEmpty && containsRun (· == ·) dst.tags t.tags then [] else t.tags
  let kv := t.kv.filter fun p =>
    match dst.kv.find? (fun q => q.1 == p.1), p.2 with
    | some (_, .a have_), .a run => !containsRun valEq have_ run
    | _, _ => true
  mergeAttrs dst ⟨tags, kv⟩

mutual
/-- `applyAttributes`: every call to `tgt <- ep`, at any depth, receives the template's attributes -/
def applyCall (self tgt : List String) (ep : String) (t : Attrs) : Stmt → Stmt
  | .call target e attrs =>
    if (if target.isEmpty then self else target) == tgt && e == ep then .call target e (mergeTemplate attrs t)
    else .call target e attrs
  | .cond test body => .cond test (applyCallList self tgt ep t body)
  | .group title body => .group title (applyCallList self tgt ep t body)
  | .loop mode crit body => .loop mode crit (applyCallList self tgt ep t body)
  | .foreach coll body => .foreach coll (applyCallList self tgt ep t body)
  | .alt choices => .alt (applyCallChoices self tgt ep t choices)
  | .action a => .action a
  | .ret r => .ret r
def applyCallList (self tgt : List String) (ep : String) (t : Attrs) : List Stmt → List Stmt
  | [] => []
  | s :: ss => applyCall self tgt ep t s :: applyCallList self tgt ep t ss
def applyCallChoices (self tgt : List String) (ep : String) (t : Attrs) : List (String × List Stmt) → List (String × List Stmt)
  | [] => []
  | (c, body) :: cs => (c, applyCallList self tgt ep t body) :: applyCallChoices self tgt ep t cs
end

/-- all call templates of the collector, in order, over a statement list -/
def applyTemplates (self : List String) (ts : List Template) (ss : List Stmt) : List Stmt :=
  ts.foldl (fun ss t => match t with
    | .call tgt ep attrs => applyCallList self tgt ep attrs ss
    | .endpoint _ _ => ss) ss

/-- endpoint templates of the collector, in order, over the attributes of endpoint `name` -/
def applyEpTemplates (ts : List Template) (name : String) (a : Attrs) : Attrs :=
  ts.foldl (fun a t => match t with
    | .endpoint n attrs => if n == name then mergeTemplate a attrs else a
    | .call _ _ _ => a) a

/-- the endpoint `.. * <- *` itself: one statement per template, carrying its attributes -/
def collectorEp (ts : List Template) : List (Key × Node) :=
  if ts.isEmpty then [] else
  [(key "endpoints" ".. * <- *", .msg ([(Key.f "name", qleaf ".. * <- *")] ++
    indexed "stmt" (ts.map fun t => match t with
      | .call tgt ep attrs => .msg (attrFields attrs ++ [(Key.f "call", .msg [(Key.f "endpoint", qleaf ep), (Key.f "target", partsNode tgt)])])
      | .endpoint n attrs => .msg (attrFields attrs ++ [(Key.f "action", .msg [(Key.f "action", qleaf n)])]))))]

def segText : Seg → String
  | .lit s => "/" ++ s
  | .var n _ => "/{" ++ n ++ "}"

def segVars (segs : List Seg) : List (String × TypeExpr) :=
  segs.filterMap fun s => match s with | .var n t => some (n, t) | .lit _ => none

def methodEp (e : Env) (app : List String) (ts : List Template) (path : String) (vars : List (String × TypeExpr)) (inh : Attrs) (m : Method) :
    Key × Node :=
  let name := m.verb ++ " " ++ path
  let attrs := applyEpTemplates ts name (mergeAttrs (mergeAttrs ⟨["rest"], []⟩ inh) m.attrs)
  -- a doc-string that opens the body of a REST method is the endpoint's docstring, not a statement
  let (doc, stmts) : List (Key × Node) × List Stmt :=
    match m.stmts with
    | .action t :: rest => if t.startsWith "| " then ([(Key.f "docstring", qleaf (t.drop 2).toString)], rest) else ([], m.stmts)
    | _ => ([], m.stmts)
  (key "endpoints" name, .msg ([(Key.f "name", qleaf name)] ++ doc ++ attrFields attrs ++ paramFields e app m.params ++
    stmtFields app 0 (applyTemplates app ts stmts) ++
    [(Key.f "rest_params", .msg ([(Key.f "method", .leaf m.verb), (Key.f "path", qleaf path)] ++
      indexed "url_param" (vars.map fun (n, t) => .msg [(Key.f "name", qleaf n), (Key.f "type", .msg (typeFields e ⟨app, [], true⟩ t noAttrs))]) ++
      indexed "query_param" (m.query.map fun (n, t) => .msg [(Key.f "name", qleaf n), (Key.f "type", .msg (typeFields e ⟨app, [], true⟩ t noAttrs))])))]))

mutual
def restEps (e : Env) (app : List String) (ts : List Template) (path : String) (vars : List (String × TypeExpr)) (inh : Attrs) :
    RestNode → List (Key × Node)
  | .node segs attrs methods children =>
    let path' := path ++ String.join (segs.map segText)
    let vars' := vars ++ segVars segs
    let inh' := mergeAttrs inh attrs
    methods.map (methodEp e app ts path' vars' inh') ++ restEpsList e app ts path' vars' inh' children
def restEpsList (e : Env) (app : List String) (ts : List Template) (path : String) (vars : List (String × TypeExpr)) (inh : Attrs) :
    List RestNode → List (Key × Node)
  | [] => []
  | n :: ns => restEps e app ts path vars inh n ++ restEpsList e app ts path vars inh ns
end

/-! ## applications -/

def envOf (f : File) : Env := ⟨f.apps.map fun a => (a.parts, a.types.map (·.name))⟩

def ownTypes (e : Env) (a : App) : List (Key × Node) :=
  a.types.map fun t => (key "types" t.name, .msg (typeDeclFields e a.parts t))

/-- the mixin graph of a specification as `Mixin.walk` reads it: an application's mixin list and what it
    declares itself (each type with the application that declares it) -/
def mixFind (f : File) (m : List String) : Option (List (List String) × List (List String × TypeDecl)) :=
  (f.apps.find? (fun b => b.parts == m)).map fun b => (b.mixins, b.types.map fun t => (b.parts, t))

/-- types an application receives from the applications it mixes in, directly or through them
    (`Mixin.mixed`: depth first, each application once): those it does not declare itself, the first one
    met on the walk winning, each as compiled in the application that declares it -/
def mixedTypes (e : Env) (f : File) (a : App) : List (Key × Node) :=
  let own := a.types.map (·.name)
  let met := Mixin.mixed (mixFind f) f.apps.length a.parts
  (met.foldl (fun (acc : List String × List (Key × Node)) (bt : List String × TypeDecl) =>
    if acc.1.contains bt.2.name then acc
    else (acc.1 ++ [bt.2.name], acc.2 ++ [(key "types" bt.2.name, .msg (typeDeclFields e bt.1 bt.2))]))
    (own, [])).2

/-- the calls subscribers add to the event `ev` of application `pub` -/
def subscriberCalls (f : File) (pub : List String) (ev : String) : List Stmt :=
  f.apps.flatMap fun b => (b.subs.filter fun sb => sb.pub == pub && sb.event == ev).map fun sb =>
    Stmt.call b.parts (joinApp sb.pub ++ " -> " ++ sb.event) noAttrs

def appNode (e : Env) (f : File) (a : App) : Node :=
  .msg ([(Key.f "name", partsNode a.parts)] ++ (if a.long.isEmpty then [] else [(Key.f "long_name", qleaf a.long)]) ++
    attrFields a.attrs ++
    indexed "mixin2" (a.mixins.map fun m => .msg [(Key.f "name", partsNode m)]) ++
    ownTypes e a ++ mixedTypes e f a ++
    a.eps.map (fun ep =>
      -- an event receives one call per subscriber, in the order the subscriptions are written: those of
      -- applications written before the publisher come before the event's own statements, the others after
      let before := f.apps.takeWhile (fun b => b.parts != a.parts)
      let after := (f.apps.dropWhile (fun b => b.parts != a.parts)).drop 1
      let subsB := if ep.event then subscriberCalls { f with apps := before } a.parts ep.name else []
      let subsA := if ep.event then subscriberCalls { f with apps := after } a.parts ep.name else []
      (key "endpoints" ep.name,
        epNode e a.parts ep (applyEpTemplates a.collector ep.name ep.attrs) (applyTemplates a.parts a.collector (subsB ++ ep.stmts ++ subsA)))) ++
    a.subs.map (fun sb =>
      let name := joinApp sb.pub ++ " -> " ++ sb.event
      (key "endpoints" name, .msg ([(Key.f "name", qleaf name), (Key.f "source", partsNode sb.pub)] ++
        attrFields (applyEpTemplates a.collector name sb.attrs) ++ stmtFields a.parts 0 (applyTemplates a.parts a.collector sb.stmts)))) ++
    restEpsList e a.parts a.collector "" [] noAttrs a.rest ++ collectorEp a.collector)

def compile (f : File) : Node :=
  .msg (f.apps.map fun a => (key "apps" (joinApp a.parts), appNode (envOf f) f a))

/-! ## flattening into rows -/

mutual
def rowsAt (pfx : String) : Node → List String
  | .leaf v => [pfx ++ " = " ++ v]
  | .str v => [pfx ++ " = " ++ quote v]
  | .int v => [pfx ++ " = " ++ toString v]
  | .msg [] => [pfx ++ " = {}"]
  | .msg (f :: fs) => rowsFields pfx (f :: fs)
def rowsFields (pfx : String) : List (Key × Node) → List String
  | [] => []
  | (k, n) :: fs => rowsAt (if pfx.isEmpty then k.toString else pfx ++ "." ++ k.toString) n ++ rowsFields pfx fs
end

def rows (f : File) : List String :=
  match compile f with
  | .msg fs => rowsFields "" fs
  | n => rowsAt "" n

end SyslModel.Compile
