/-
C02 — theorems about `Compile.compile`: what is declared is there, where it should be, and can
be told apart from any other declaration (nothing lost, nothing altered), and the names under an
application are exactly the declared ones (nothing undeclared).
-/
import SyslModel.Compile.Model
import SyslModel.Mixin.Props

namespace SyslModel.Compile

/-! ## placement: list fields carry consecutive indices in source order -/

theorem indexed_nodes (field : String) (ns : List Node) : (indexed field ns).map (·.2) = ns := by
  simp only [indexed, List.map_map]
  have : (fun p : Nat × Node => p.2) = Prod.snd := rfl
  show List.map (fun p : Nat × Node => p.2) ((List.range ns.length).zip ns) = ns
  rw [this, List.map_snd_zip]
  simp

theorem indexed_keys (field : String) (ns : List Node) :
    (indexed field ns).map (·.1) = (List.range ns.length).map (Key.i field) := by
  simp only [indexed, List.map_map, idx]
  have h : ((List.range ns.length).zip ns).map Prod.fst = List.range ns.length := by
    rw [List.map_fst_zip]; simp
  have e : ((fun x : Key × Node => x.1) ∘ fun x : Nat × Node => (Key.i field x.1, x.2)) = (Key.i field ∘ Prod.fst) := rfl
  rw [e, ← List.map_map, h]

/-- **stmts_placed_in_order**: the j-th statement of a body is the field `stmt[i+j]` -/
theorem stmtFields_keys (self : List String) (i : Nat) (ss : List Stmt) :
    (stmtFields self i ss).map (·.1) = (List.range ss.length).map (fun j => Key.i "stmt" (i + j)) := by
  induction ss generalizing i with
  | nil => simp [stmtFields]
  | cons s ss ih =>
    simp only [stmtFields, List.map_cons, List.length_cons, List.range_succ_eq_map, idx, ih]
    simp [List.map_map, Function.comp_def, Nat.add_assoc, Nat.add_comm 1]

theorem stmtFields_nodes (self : List String) (i : Nat) (ss : List Stmt) :
    (stmtFields self i ss).map (·.2) = ss.map (stmtNode self) := by
  induction ss generalizing i with
  | nil => simp [stmtFields]
  | cons s ss ih => simp [stmtFields, ih]

/-! ## statements: kind, text, nesting and order can be read back -/

-- what the module must say about a statement: a call written `. <- X` names the application
-- itself; the attributes of a call are compared separately (`attrFields`)
mutual
def skel (self : List String) : Stmt → Stmt
  | .action t => .action t
  | .call target ep _ => .call (if target.isEmpty then self else target) ep noAttrs
  | .ret p => .ret p
  | .cond t b => .cond t (skelList self b)
  | .group t b => .group t (skelList self b)
  | .loop m c b => .loop m c (skelList self b)
  | .foreach c b => .foreach c (skelList self b)
  | .alt cs => .alt (skelChoices self cs)
def skelList (self : List String) : List Stmt → List Stmt
  | [] => []
  | s :: ss => skel self s :: skelList self ss
def skelChoices (self : List String) : List (String × List Stmt) → List (String × List Stmt)
  | [] => []
  | (c, b) :: cs => (c, skelList self b) :: skelChoices self cs
end

theorem map_qleaf_inj : ∀ (a b : List String), a.map qleaf = b.map qleaf → a = b
  | [], [], _ => rfl
  | [], _ :: _, h => by simp at h
  | _ :: _, [], h => by simp at h
  | x :: xs, y :: ys, h => by
    simp only [List.map_cons, List.cons.injEq, qleaf, Node.str.injEq] at h
    rw [h.1, map_qleaf_inj xs ys h.2]

theorem partsNode_inj (a b : List String) (h : partsNode a = partsNode b) : a = b := by
  simp only [partsNode, Node.msg.injEq] at h
  have := congrArg (List.map (·.2)) h
  rw [indexed_nodes, indexed_nodes] at this
  exact map_qleaf_inj a b this

/-- the last field of a call statement (after its attributes) is the call itself -/
theorem call_last (pre₁ pre₂ : List (Key × Node)) (x y : Key × Node) (h : pre₁ ++ [x] = pre₂ ++ [y]) : x = y := by
  have := congrArg List.getLast? h
  simpa using this

/-- no attribute field is named like a statement kind -/
theorem attrFields_keys (a : Attrs) : ∀ p ∈ attrFields a, ∃ k, p.1 = Key.k "attrs" k := by
  intro p hp
  simp only [attrFields, List.mem_append, List.mem_map] at hp
  rcases hp with hp | ⟨q, _, rfl⟩
  · split at hp
    · simp at hp
    · simp only [List.mem_singleton] at hp; exact ⟨"patterns", by rw [hp]; rfl⟩
  · exact ⟨q.1, rfl⟩

theorem attr_call_head (a : Attrs) (x : Node) (k : String) (v : Node) (rest : List (Key × Node))
    (h : attrFields a ++ [(Key.f "call", x)] = (Key.f k, v) :: rest) : attrFields a = [] := by
  match hm : attrFields a with
  | [] => rfl
  | p :: ps =>
    rw [hm] at h
    simp only [List.cons_append, List.cons.injEq] at h
    obtain ⟨kk, hk⟩ := attrFields_keys a p (by rw [hm]; simp)
    rw [h.1] at hk
    cases hk

-- **stmt_exact**: two statements compile to the same message only if they are the same
-- statement: kind, text, target, nesting and the order of everything inside.
-- **stmts_order_nesting_exact** (`stmtFields_inj`): equal statement fields mean equal statement
-- lists, in order.
mutual
theorem stmtNode_inj (self : List String) : ∀ (s₁ s₂ : Stmt), stmtNode self s₁ = stmtNode self s₂ → skel self s₁ = skel self s₂
  | .action t₁, s₂, h => by
    cases s₂ with
    | action t₂ =>
      simp only [stmtNode, Node.msg.injEq, List.cons.injEq, Prod.mk.injEq, qleaf, Node.str.injEq, and_true, true_and] at h
      simp [skel, h]
    | call tg ep ca => exfalso; simp only [stmtNode, Node.msg.injEq] at h; have := attr_call_head ca _ _ _ _ h.symm; rw [this] at h; simp at h
    | _ => exfalso; simp [stmtNode] at h
  | .ret p₁, s₂, h => by
    cases s₂ with
    | ret p₂ =>
      simp only [stmtNode, Node.msg.injEq, List.cons.injEq, Prod.mk.injEq, qleaf, Node.str.injEq, and_true, true_and] at h
      simp [skel, h]
    | call tg ep ca => exfalso; simp only [stmtNode, Node.msg.injEq] at h; have := attr_call_head ca _ _ _ _ h.symm; rw [this] at h; simp at h
    | _ => exfalso; simp [stmtNode] at h
  | .call tg₁ ep₁ a₁, s₂, h => by
    cases s₂ with
    | call tg₂ ep₂ a₂ =>
      simp only [stmtNode, Node.msg.injEq] at h
      have := call_last _ _ _ _ h
      simp only [Prod.mk.injEq, Node.msg.injEq, List.cons.injEq, qleaf, Node.str.injEq, and_true, true_and] at this
      simp only [skel, Stmt.call.injEq, and_true]
      exact ⟨partsNode_inj _ _ this.2, this.1⟩
    | _ =>
      exfalso
      simp only [stmtNode, Node.msg.injEq] at h
      have := attr_call_head a₁ _ _ _ _ h
      rw [this] at h
      simp at h
  | .cond t₁ b₁, s₂, h => by
    cases s₂ with
    | cond t₂ b₂ =>
      simp only [stmtNode, Node.msg.injEq, List.cons.injEq, Prod.mk.injEq, qleaf, Node.str.injEq, and_true, true_and] at h
      simp only [skel, Stmt.cond.injEq]
      exact ⟨h.1, stmtFields_inj self 0 b₁ b₂ h.2⟩
    | call tg ep ca => exfalso; simp only [stmtNode, Node.msg.injEq] at h; have := attr_call_head ca _ _ _ _ h.symm; rw [this] at h; simp at h
    | _ => exfalso; simp [stmtNode] at h
  | .group t₁ b₁, s₂, h => by
    cases s₂ with
    | group t₂ b₂ =>
      simp only [stmtNode, Node.msg.injEq, List.cons.injEq, Prod.mk.injEq, qleaf, Node.str.injEq, and_true, true_and] at h
      simp only [skel, Stmt.group.injEq]
      exact ⟨h.1, stmtFields_inj self 0 b₁ b₂ h.2⟩
    | call tg ep ca => exfalso; simp only [stmtNode, Node.msg.injEq] at h; have := attr_call_head ca _ _ _ _ h.symm; rw [this] at h; simp at h
    | _ => exfalso; simp [stmtNode] at h
  | .loop m₁ c₁ b₁, s₂, h => by
    cases s₂ with
    | loop m₂ c₂ b₂ =>
      simp only [stmtNode, Node.msg.injEq, List.cons.injEq, Prod.mk.injEq, qleaf, Node.str.injEq, Node.leaf.injEq, and_true, true_and] at h
      simp only [skel, Stmt.loop.injEq]
      exact ⟨h.1, h.2.1, stmtFields_inj self 0 b₁ b₂ h.2.2⟩
    | call tg ep ca => exfalso; simp only [stmtNode, Node.msg.injEq] at h; have := attr_call_head ca _ _ _ _ h.symm; rw [this] at h; simp at h
    | _ => exfalso; simp [stmtNode] at h
  | .foreach c₁ b₁, s₂, h => by
    cases s₂ with
    | foreach c₂ b₂ =>
      simp only [stmtNode, Node.msg.injEq, List.cons.injEq, Prod.mk.injEq, qleaf, Node.str.injEq, and_true, true_and] at h
      simp only [skel, Stmt.foreach.injEq]
      exact ⟨h.1, stmtFields_inj self 0 b₁ b₂ h.2⟩
    | call tg ep ca => exfalso; simp only [stmtNode, Node.msg.injEq] at h; have := attr_call_head ca _ _ _ _ h.symm; rw [this] at h; simp at h
    | _ => exfalso; simp [stmtNode] at h
  | .alt cs₁, s₂, h => by
    cases s₂ with
    | alt cs₂ =>
      simp only [stmtNode, Node.msg.injEq, List.cons.injEq, Prod.mk.injEq, and_true, true_and] at h
      simp only [skel, Stmt.alt.injEq]
      exact choiceFields_inj self 0 cs₁ cs₂ h
    | call tg ep ca => exfalso; simp only [stmtNode, Node.msg.injEq] at h; have := attr_call_head ca _ _ _ _ h.symm; rw [this] at h; simp at h
    | _ => exfalso; simp [stmtNode] at h
theorem stmtFields_inj (self : List String) (i : Nat) : ∀ (a b : List Stmt), stmtFields self i a = stmtFields self i b → skelList self a = skelList self b
  | [], [], _ => rfl
  | [], _ :: _, h => by simp [stmtFields] at h
  | _ :: _, [], h => by simp [stmtFields] at h
  | s :: ss, t :: ts, h => by
    simp only [stmtFields, List.cons.injEq, Prod.mk.injEq, true_and] at h
    simp only [skelList, List.cons.injEq]
    exact ⟨stmtNode_inj self s t h.1, stmtFields_inj self (i + 1) ss ts h.2⟩
theorem choiceFields_inj (self : List String) (i : Nat) : ∀ (a b : List (String × List Stmt)), choiceFields self i a = choiceFields self i b → skelChoices self a = skelChoices self b
  | [], [], _ => rfl
  | [], _ :: _, h => by simp [choiceFields] at h
  | _ :: _, [], h => by simp [choiceFields] at h
  | (c, x) :: cs, (d, y) :: ds, h => by
    simp only [choiceFields, List.cons.injEq, Prod.mk.injEq, Node.msg.injEq, qleaf, Node.str.injEq, true_and] at h
    simp only [skelChoices, List.cons.injEq, Prod.mk.injEq]
    exact ⟨⟨h.1.1, stmtFields_inj self 0 x y h.1.2⟩, choiceFields_inj self (i + 1) cs ds h.2⟩
end

/-! ## attribute values: nested arrays are kept exactly -/

mutual
theorem attrValNode_inj : ∀ (a b : AttrVal), attrValNode a = attrValNode b → a = b
  | .s x, .s y, h => by simpa [attrValNode, qleaf] using h
  | .s _, .a _, h => by simp [attrValNode] at h
  | .a _, .s _, h => by simp [attrValNode] at h
  | .a xs, .a ys, h => by
    simp only [attrValNode, Node.msg.injEq, List.cons.injEq, Prod.mk.injEq, and_true, true_and] at h
    have := congrArg (List.map (·.2)) h
    rw [indexed_nodes, indexed_nodes] at this
    rw [attrValNodes_inj xs ys this]
theorem attrValNodes_inj : ∀ (a b : List AttrVal), attrValNodes a = attrValNodes b → a = b
  | [], [], _ => rfl
  | [], _ :: _, h => by simp [attrValNodes] at h
  | _ :: _, [], h => by simp [attrValNodes] at h
  | x :: xs, y :: ys, h => by
    simp only [attrValNodes, List.cons.injEq] at h
    rw [attrValNode_inj x y h.1, attrValNodes_inj xs ys h.2]
end

/-! ## enumerations: every declared name with its full value, nothing else -/

/-- **enum_values_exact**: the `enum` message of a declared enumeration has one entry per declared
    item, keyed by its name and carrying its value as an unbounded integer -/
theorem enum_values_exact (e : Env) (app : List String) (name : String) (attrs : Attrs) (items : List (String × Int)) :
    typeDeclFields e app ⟨name, attrs, .enum items⟩ =
      attrFields attrs ++ [(Key.f "enum", .msg (items.map fun p => (Key.k "items" p.1, Node.int p.2)))] := by
  simp [typeDeclFields, key]

/-! ## nothing undeclared: the names under an application -/

/-- the type names an application ends up with: its own and those it receives from mixins -/
def typeKeys (e : Env) (f : File) (a : App) : List Key :=
  a.types.map (fun t => Key.k "types" t.name) ++ (mixedTypes e f a).map (·.1)

theorem ownTypes_keys (e : Env) (a : App) : (ownTypes e a).map (·.1) = a.types.map (fun t => Key.k "types" t.name) := by
  simp [ownTypes, key, List.map_map, Function.comp_def]

/-- **fields_exact**: a tuple type has exactly one `attr_defs` entry per declared field, in the
    declared order, named after the field -/
theorem fieldNodes_keys (e : Env) (app : List String) (t : String) (fs : List Field) :
    (fieldNodes e app t fs).map (·.1) = fs.map (fun f => Key.k "attr_defs" f.name) := by
  simp [fieldNodes, key, List.map_map, Function.comp_def]

/-- REST: a method of a nested path is named by the whole path from the root, and carries the
    path parameters of every enclosing node, outermost first -/
theorem rest_child_accumulates (e : Env) (app : List String) (ts : List Template) (path : String)
    (vars : List (String × TypeExpr)) (inh : Attrs) (segs : List Seg) (attrs : Attrs) (ms : List Method) (cs : List RestNode) :
    restEps e app ts path vars inh (.node segs attrs ms cs) =
      ms.map (methodEp e app ts (path ++ String.join (segs.map segText)) (vars ++ segVars segs) (mergeAttrs inh attrs)) ++
      restEpsList e app ts (path ++ String.join (segs.map segText)) (vars ++ segVars segs) (mergeAttrs inh attrs) cs := by
  simp [restEps]

/-- the endpoint names an application ends up with: its endpoints and events, its subscriptions,
    the methods of its REST trees (named by verb and full path), and the collector block -/
def endpointKeys (e : Env) (a : App) : List Key :=
  a.eps.map (fun ep => Key.k "endpoints" ep.name) ++
  a.subs.map (fun sb => Key.k "endpoints" (joinApp sb.pub ++ " -> " ++ sb.event)) ++
  (restEpsList e a.parts a.collector "" [] noAttrs a.rest).map (·.1) ++
  (collectorEp a.collector).map (·.1)

/-- **nothing_undeclared**: the fields of an application's message are its name, its long name if
    it has one, its attributes, its mixins, exactly the declared and mixed-in types, and exactly
    the declared endpoints - in that order, nothing else -/
theorem appNode_keys (e : Env) (f : File) (a : App) :
    ∃ fs, appNode e f a = .msg fs ∧
      fs.map (·.1) = [Key.f "name"] ++ (if a.long.isEmpty then [] else [Key.f "long_name"]) ++
        (attrFields a.attrs).map (·.1) ++ (List.range a.mixins.length).map (Key.i "mixin2") ++
        typeKeys e f a ++ endpointKeys e a := by
  refine ⟨_, rfl, ?_⟩
  simp only [List.map_append, List.map_cons, List.map_nil, indexed_keys, List.length_map, ownTypes_keys, typeKeys,
    endpointKeys, List.map_map, Function.comp_def, key, List.append_assoc]
  split <;> simp

/-! ## mixins: the generic theorems of `Mixin` at the instance the compile model uses -/

theorem mixFind_keys (f : File) : ∀ a ms own, mixFind f a = some (ms, own) → a ∈ f.apps.map (·.parts) := by
  intro a ms own h
  unfold mixFind at h
  cases hf : f.apps.find? (fun b => b.parts == a) with
  | none => rw [hf] at h; cases h
  | some b =>
    have hb := List.mem_of_find?_eq_some hf
    have hp : b.parts = a := by simpa using List.find?_some hf
    exact List.mem_map.mpr ⟨b, hb, hp⟩

/-- **mixins_spec** (C02): the (application, type) pairs an application holds after post-processing are
    exactly those declared by the applications it reaches through mixin lists, itself included -/
theorem mixins_spec (f : File) (a : List String) (ms : List (List String)) (own : List (List String × TypeDecl))
    (ha : mixFind f a = some (ms, own)) (bt : List String × TypeDecl) :
    bt ∈ Mixin.holds (mixFind f) f.apps.length a ↔
      ∃ b, Mixin.Reach (mixFind f) a b ∧ ∃ mb ob, mixFind f b = some (mb, ob) ∧ bt ∈ ob :=
  Mixin.holds_spec (mixFind f) (f.apps.map (·.parts)) (mixFind_keys f) f.apps.length (by simp) a ms own ha bt

/-- **mixins_recompile_gains_nothing** (C09): a compiled model whose applications declare what they hold,
    compiled again, leaves every application holding exactly the same pairs -/
theorem mixins_recompile_gains_nothing (f : File) (a : List String) (bt : List String × TypeDecl) :
    bt ∈ Mixin.holds (Mixin.again (mixFind f) f.apps.length) f.apps.length a ↔
      bt ∈ Mixin.holds (mixFind f) f.apps.length a :=
  Mixin.recompile_gains_nothing (mixFind f) (f.apps.map (·.parts)) (mixFind_keys f) f.apps.length (by simp) a bt

/-! ## non-vacuity -/

example : stmtFields ["A"] 0 [.cond "if x" [.action "a", .call [] "Op" noAttrs], .cond "else" [.ret "ok", .action "b", .action "c", .action "d", .action "e"]]
    ≠ stmtFields ["A"] 0 [.cond "if x" [.action "a", .call [] "Op" noAttrs], .cond "else" [.ret "ok", .action "b", .action "c", .action "d"]] := by
  intro h
  have := stmtFields_inj ["A"] 0 _ _ h
  simp [skelList, skel] at this

end SyslModel.Compile
