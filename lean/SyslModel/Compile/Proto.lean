import SyslModel.Core.Proto
import SyslModel.Compile.Model

namespace SyslModel.Compile
open Lean (Json)
open SyslModel.Proto

partial def attrValOf (j : Json) : AttrVal :=
  if boolD j "arr" then .a ((arrD j "a").map attrValOf) else .s (strD j "s")

def attrsOf (j : Json) : Attrs :=
  { tags := strList j "tags", kv := (arrD j "kv").map fun p => (strD p "k", attrValOf ((obj? p "v").getD Json.null)) }

def attrsAt (j : Json) (k : String) : Attrs :=
  match obj? j k with
  | some a => attrsOf a
  | none => ⟨[], []⟩

def typeOf (j : Json) : TypeExpr :=
  let wrap := match strD j "wrap" with | "set" => Wrap.set | "seq" => Wrap.seq | _ => Wrap.none
  let size := match strD j "size" with
    | "max" => Size.max (natD j "n1")
    | "range" => Size.range (natD j "n1") (natD j "n2")
    | "dec" => Size.dec (natD j "n1") (natD j "n2")
    | _ => Size.none
  let base := if strD j "prim" == "" then Base.ref (strList j "refapp") (strList j "refpath") else Base.prim (strD j "prim") size
  { wrap := wrap, base := base, opt := boolD j "opt" }

def typeAt (j : Json) (k : String) : TypeExpr := typeOf ((obj? j k).getD Json.null)

def fieldOf (j : Json) : Field := { name := strD j "name", ty := typeAt j "ty", attrs := attrsAt j "attrs" }

def typeDeclOf (j : Json) : TypeDecl :=
  let fs := (arrD j "fields").map fieldOf
  let body := match strD j "kind" with
    | "table" => TypeBody.table fs
    | "enum" => TypeBody.enum ((arrD j "items").map fun i => (strD i "name", (int? i "val").getD 0))
    | "alias" => TypeBody.alias (typeAt j "alias")
    | "union" => TypeBody.union ((arrD j "members").map typeOf)
    | _ => TypeBody.tuple fs
  { name := strD j "name", attrs := attrsAt j "attrs", body := body }

partial def stmtOf (j : Json) : Stmt :=
  let body := (arrD j "body").map stmtOf
  match strD j "k" with
  | "call" => .call (strList j "target") (strD j "t") (attrsAt j "attrs")
  | "ret" => .ret (strD j "t")
  | "cond" => .cond (strD j "t") body
  | "group" => .group (strD j "t") body
  | "loop" => .loop (strD j "mode") (strD j "t") body
  | "foreach" => .foreach (strD j "t") body
  | "alt" => .alt ((arrD j "choices").map fun c => (strD c "cond", (arrD c "body").map stmtOf))
  | _ => .action (strD j "t")

def paramOf (j : Json) : Param := { name := strD j "name", ty := typeAt j "ty", attrs := attrsAt j "attrs" }

def epOf (j : Json) : Ep :=
  { name := strD j "name", long := strD j "long", params := (arrD j "params").map paramOf, attrs := attrsAt j "attrs",
    stmts := (arrD j "stmts").map stmtOf, event := boolD j "event" }

def segOf (j : Json) : Seg := if strD j "var" == "" then .lit (strD j "lit") else .var (strD j "var") (typeAt j "ty")

def methodOf (j : Json) : Method :=
  { verb := strD j "verb", query := (arrD j "query").map (fun q => (strD q "name", typeAt q "ty")),
    params := (arrD j "params").map paramOf, attrs := attrsAt j "attrs", stmts := (arrD j "stmts").map stmtOf }

partial def restOf (j : Json) : RestNode :=
  .node ((arrD j "segs").map segOf) (attrsAt j "attrs") ((arrD j "methods").map methodOf) ((arrD j "children").map restOf)

def templateOf (j : Json) : Template :=
  if strD j "k" == "call" then .call (strList j "target") (strD j "t") (attrsAt j "attrs")
  else .endpoint (strD j "t") (attrsAt j "attrs")

def subOf (j : Json) : Sub :=
  { pub := strList j "pub", event := strD j "event", attrs := attrsAt j "attrs", stmts := (arrD j "stmts").map stmtOf }

def appOf (j : Json) : App :=
  { parts := strList j "parts", long := strD j "long", attrs := attrsAt j "attrs",
    mixins := (arrD j "mixins").map (fun m => (asArr m).map asStr),
    types := (arrD j "types").map typeDeclOf, eps := (arrD j "eps").map epOf, rest := (arrD j "rest").map restOf,
    collector := (arrD j "collector").map templateOf, subs := (arrD j "subs").map subOf }

def fileOf (j : Json) : File := { apps := (arrD j "apps").map appOf }

def handle (op : String) (j : Json) : Option Json :=
  match op with
  | "compile.rows" => some (Json.mkObj [("rows", jstrs (rows (fileOf ((obj? j "file").getD Json.null))))])
  | _ => none

end SyslModel.Compile
