import SyslModel.DataModel.Model

namespace SyslModel.DataModel

/-! ## PROPERTY THEOREMS (C15) -/

theorem indexOf_some (l : List String) (a : String) (i : Nat) (h : indexOf l a = some i) : l[i]? = some a := by
  induction l generalizing i with
  | nil => simp [indexOf] at h
  | cons x xs ih =>
    simp only [indexOf] at h
    by_cases hx : x = a
    · simp only [hx, if_true, Option.some.injEq] at h; subst h; simp [hx]
    · simp only [hx, if_false] at h
      cases hm : indexOf xs a with
      | none => simp [hm] at h
      | some j => simp [hm] at h; subst h; simpa using ih j hm

theorem indexOf_some_lt (l : List String) (a : String) (i : Nat) (h : indexOf l a = some i) : i < l.length := by
  have := indexOf_some l a i h
  by_cases hl : i < l.length
  · exact hl
  · simp [List.getElem?_eq_none (Nat.le_of_not_lt hl)] at this

theorem indexOf_append_new (l : List String) (a : String) (h : indexOf l a = none) : indexOf (l ++ [a]) a = some l.length := by
  induction l with
  | nil => simp [indexOf]
  | cons x xs ih =>
    simp only [indexOf] at h
    by_cases hx : x = a
    · simp [hx] at h
    · simp only [hx, if_false, Option.map_eq_none_iff] at h
      simp [indexOf, hx, ih h]

/-- **alias_stable**: asking for the alias of a name again gives the same alias and leaves the
    table unchanged -/
theorem alias_stable (syms : Syms) (name : String) :
    aliasOf (aliasOf syms name).1 name = ((aliasOf syms name).1, (aliasOf syms name).2) := by
  unfold aliasOf
  cases h : indexOf syms name with
  | some i => simp [h]
  | none => simp [indexOf_append_new syms name h]

/-- **alias_injective**: two names that get the same alias are the same name -/
theorem alias_injective (syms : Syms) (a b : String)
    (h : (aliasOf (aliasOf syms a).1 b).2 = (aliasOf syms a).2) : a = b := by
  unfold aliasOf at h
  cases ha : indexOf syms a with
  | some i =>
    simp only [ha] at h
    cases hb : indexOf syms b with
    | some j =>
      simp only [hb] at h; subst h
      have h1 := indexOf_some syms a _ ha
      have h2 := indexOf_some syms b _ hb
      simpa using h1.symm.trans h2
    | none =>
      simp only [hb] at h
      have := indexOf_some_lt syms a i ha
      omega
  | none =>
    simp only [ha] at h
    cases hb : indexOf (syms ++ [a]) b with
    | some j =>
      simp only [hb] at h; subst h
      have h2 := indexOf_some (syms ++ [a]) b _ hb
      simpa using h2
    | none => simp only [hb, List.length_append, List.length_singleton] at h; omega

theorem drawType_other (m : RelMap) (src : String) (fs : List FieldRef) (s t : String) (h : s ≠ src) :
    drawType m src fs s t = m s t := by
  induction fs generalizing m with
  | nil => rfl
  | cons f fs ih =>
    cases f with
    | none => simpa [drawType] using ih m
    | some u =>
      have := ih (bump m src u)
      simp only [drawType, List.foldl_cons] at this ⊢
      rw [this]; simp [bump, h]

/-- **dm_rel_count**: after a type's fields have been drawn, the counter for (type, target) has
    grown by exactly the number of fields referring to the target - one line per such field,
    however the references are interleaved with other fields and other targets -/
theorem dm_rel_count (m : RelMap) (src : String) (fs : List FieldRef) (t : String) :
    drawType m src fs src t = m src t + (fs.filter (· = some t)).length := by
  induction fs generalizing m with
  | nil => simp [drawType]
  | cons f fs ih =>
    cases f with
    | none =>
      have := ih m
      simp only [drawType, List.foldl_cons] at this ⊢
      rw [this]; simp
    | some u =>
      have := ih (bump m src u)
      simp only [drawType, List.foldl_cons] at this ⊢
      rw [this]
      by_cases hu : u = t
      · subst hu; simp [bump]; omega
      · have : (some u : FieldRef) ≠ some t := by simpa using hu
        simp [bump, hu, this, Ne.symm hu]

/-- **dm_lines**: the lines written for a pair are as many as the fields referring to the target -/
theorem dm_lines (src : String) (fs : List FieldRef) (t : String) :
    (linesFor (drawType (fun _ _ => 0) src fs) src t).length = (fs.filter (· = some t)).length := by
  simp [linesFor, dm_rel_count]

/-- non-vacuity: four references of mixed kinds to one target, one to another, primitives between -/
example : (linesFor (drawType (fun _ _ => 0) "Order" [some "Customer", none, some "Customer", some "Item", some "Customer", none, some "Customer"]) "Order" "Customer").length = 4 := by
  rw [dm_lines]; decide

end SyslModel.DataModel
