/-
C15 — `DataModel`: the bookkeeping of the data-model diagram view.
`UniqueVarForAppName` hands out aliases `_0, _1, …` by first use of a name (a symbol table);
`DrawTuple` counts, per (source alias, target alias), the fields that refer to the target, and
`DrawRelationship` writes that many lines.
Core Lean only.
-/
namespace SyslModel.DataModel

/-- the symbol table: names in order of first use; the alias of a name is its index -/
abbrev Syms := List String

def indexOf : List String → String → Option Nat
  | [], _ => none
  | x :: xs, a => if x = a then some 0 else (indexOf xs a).map (· + 1)

def aliasOf (syms : Syms) (name : String) : Syms × Nat :=
  match indexOf syms name with
  | some i => (syms, i)
  | none => (syms ++ [name], syms.length)

/-- a field: `none` for a primitive, `some target` for a reference (directly or through a set,
    sequence or list) to the drawn type `target` -/
abbrev FieldRef := Option String

/-- the counter kept per (source, target) -/
abbrev RelMap := String → String → Nat

def bump (m : RelMap) (src tgt : String) : RelMap :=
  fun s t => if s = src ∧ t = tgt then m s t + 1 else m s t

/-- `DrawTuple` over the fields of one type -/
def drawType (m : RelMap) (src : String) (fields : List FieldRef) : RelMap :=
  fields.foldl (fun m f => match f with | some t => bump m src t | none => m) m

/-- `DrawRelationship`: `Count` lines per pair -/
def linesFor (m : RelMap) (src tgt : String) : List (String × String) := List.replicate (m src tgt) (src, tgt)

end SyslModel.DataModel
