import SyslModel.Core.Proto
import SyslModel.SeqDiag.Model

namespace SyslModel.SeqDiag
open Lean (Json)
open SyslModel.Proto

instance : Inhabited Stmt := ⟨.action ""⟩

partial def stmtOf (j : Json) : Stmt :=
  match strD j "kind" with
  | "call" => .call (strD j "app") (strD j "ep")
  | "action" => .action (strD j "text")
  | "ret" => .ret (strD j "raw") (strD j "fmt")
  | "alt" => .alt ((arrD j "alts").map (fun c => (asArr c).map stmtOf))
  | k => .block k ((arrD j "body").map stmtOf)

def moduleOf (j : Json) : Module :=
  (asArr j).map (fun a =>
    { name := strD a "name", human := boolD a "human", cron := boolD a "cron",
      eps := (arrD a "eps").map (fun e =>
        { name := strD e "name", hidden := boolD e "hidden", stmts := (arrD e "stmts").map stmtOf }) })

def evJson : Ev → Json
  | .arrow a b => jstrs ["arrow", a, b]
  | .self a => jstrs ["self", a]
  | .ret a b => jstrs ["ret", a, b]
  | .act a => jstrs ["act", a]
  | .deact a => jstrs ["deact", a]
  | .note a => jstrs ["note", a]
  | .noteSide => jstrs ["noteside"]
  | .open_ k => jstrs ["open", k]
  | .else_ => jstrs ["else"]
  | .end_ => jstrs ["end"]

def handle (op : String) (j : Json) : Option Json :=
  match op with
  | "sd.gen" =>
      let m := moduleOf ((obj? j "module").getD Json.null)
      let bb := (arrD j "blackboxes").map (fun b => (strD b "key", strD b "comment"))
      match generate m 100000 (strD j "app") (strD j "ep") bb with
      | none => some (Json.mkObj [("diverges", Json.bool true)])
      | some (.error (.missingApp a)) => some (Json.mkObj [("error", Json.str "missing-app"), ("what", Json.str a)])
      | some (.error (.missingEp a e)) => some (Json.mkObj [("error", Json.str "missing-endpoint"), ("what", Json.str (a ++ " <- " ++ e))])
      | some (.ok o) => some (Json.mkObj [("events", jarr (o.events.map evJson)), ("participants", jstrs o.participants),
          ("balanced", Json.bool (blocksBalanced o.events)), ("wf", Json.bool o.wf)])
  | _ => none

end SyslModel.SeqDiag
