/-
C13 — theorems about the sequence-diagram model.
-/
import SyslModel.SeqDiag.Model

namespace SyslModel.SeqDiag

/-! ## helper lemmas -/

theorem blockDepth_plain (e : Ev) (h : e.plain = true) (r : List Ev) (d : Nat) :
    blockDepth (e :: r) d = blockDepth r d := by
  cases e <;> simp [Ev.plain] at h <;> simp [blockDepth]

mutual
theorem depth_flat : ∀ (ns : List Node) (r : List Ev) (d : Nat), wfNodes ns = true →
    blockDepth (flat ns ++ r) d = blockDepth r d
  | [], r, d, _ => by simp [flat]
  | n :: rest, r, d, h => by
    simp only [wfNodes, Bool.and_eq_true] at h
    simp only [flat, List.append_assoc]
    rw [depth_flatNode n _ d h.1, depth_flat rest r d h.2]
theorem depth_flatNode : ∀ (n : Node) (r : List Ev) (d : Nat), wfNode n = true →
    blockDepth (flatNode n ++ r) d = blockDepth r d
  | .ev e, r, d, h => by
    simp only [wfNode] at h
    simp only [flatNode, List.singleton_append]
    exact blockDepth_plain e h r d
  | .block k body, r, d, h => by
    simp only [wfNode] at h
    have e : flatNode (.block k body) ++ r = Ev.open_ k :: (flat body ++ ([Ev.end_] ++ r)) := by
      simp [flatNode]
    rw [e]
    simp only [blockDepth]
    rw [depth_flat body _ (d + 1) h]
    simp [blockDepth]
  | .alt [], r, d, h => by simp [wfNode] at h
  | .alt (c :: rest), r, d, h => by
    simp only [wfNode, wfChoices, Bool.and_eq_true] at h
    have e : flatNode (.alt (c :: rest)) ++ r =
        Ev.open_ "alt" :: (flat c ++ (flatAlt rest false ++ [Ev.end_] ++ r)) := by
      simp [flatNode, flatAlt]
    rw [e]
    simp only [blockDepth]
    rw [depth_flat c _ (d + 1) h.2.1]
    exact depth_flatAlt rest r d h.2.2
theorem depth_flatAlt : ∀ (cs : List (List Node)) (r : List Ev) (d : Nat), wfChoices cs = true →
    blockDepth (flatAlt cs false ++ [.end_] ++ r) (d + 1) = blockDepth r d
  | [], r, d, _ => by simp [flatAlt, blockDepth]
  | c :: rest, r, d, h => by
    simp only [wfChoices, Bool.and_eq_true] at h
    have e : flatAlt (c :: rest) false ++ [Ev.end_] ++ r =
        Ev.else_ :: (flat c ++ (flatAlt rest false ++ [Ev.end_] ++ r)) := by
      simp [flatAlt]
    rw [e]
    simp only [blockDepth, Nat.add_one_ne_zero, if_false]
    rw [depth_flat c _ (d + 1) h.1]
    exact depth_flatAlt rest r d h.2
end

/-! ## PROPERTY THEOREMS (C13) -/

/-- **sd_blocks_balanced**: the event list of every well-formed output tree (every `alt` has
    at least one choice, leaves are plain events) opens and closes blocks in a well-nested
    way: every `end`/`else` has an open block and every opened block is closed. -/
theorem sd_blocks_balanced (ns : List Node) (h : wfNodes ns = true) : blocksBalanced (flat ns) = true := by
  have := depth_flat ns [] 0 h
  simp [blockDepth] at this
  simp [blocksBalanced, this]

/-- the alias table never holds an application twice: `alias` only appends a name it did
    not find -/
theorem alias_nodup (s : S) (app : String) (h : s.syms.Nodup) : (alias s app).2.syms.Nodup := by
  unfold alias
  split
  · exact h
  · rename_i hn
    simp only
    rw [List.nodup_append]
    refine ⟨h, by simp, ?_⟩
    intro a ha b hb
    simp at hb; subst hb
    intro e; subst e
    rw [List.idxOf?_eq_none_iff] at hn
    exact hn ha

/-- the alias of an application is stable once allocated (a participant keeps its name) -/
theorem alias_stable (s : S) (app other : String) (h : app ∈ s.syms) :
    (alias (alias s other).2 app).1 = (alias s app).1 := by
  unfold alias
  cases ho : s.syms.idxOf? other with
  | some j => simp [ho]
  | none =>
    simp only [ho]
    have hi : ∃ i, s.syms.idxOf? app = some i := by
      cases hq : s.syms.idxOf? app with
      | some i => exact ⟨i, rfl⟩
      | none => rw [List.idxOf?_eq_none_iff] at hq; exact absurd h hq
    obtain ⟨i, hi⟩ := hi
    have : (s.syms ++ [other]).idxOf? app = some i := by
      simp only [List.idxOf?] at hi ⊢
      rw [List.findIdx?_append, hi]; rfl
    simp [hi, this]

/-- non-vacuity / regression: a model with a call back into an endpoint in progress whose
    endpoint returns a payload — activations pair up and blocks balance -/
example :
    let m : Module := [
      ⟨"A", false, false, [⟨"a0", false, [.call "B" "b0", .block "opt" [.call "B" "b1"], .ret "ok <: T" "T"]⟩]⟩,
      ⟨"B", false, false, [⟨"b0", false, [.call "A" "a0"]⟩, ⟨"b1", false, [.action "work"]⟩]⟩]
    (match generate m 50 "A" "a0" with
     | some (.ok o) => o.events
     | _ => []) =
    [.arrow "[" "_0", .act "_0", .arrow "_0" "_1", .act "_1", .arrow "_1" "_0", .ret "_1" "_0", .deact "_1",
     .open_ "opt", .arrow "_0" "_1", .act "_1", .self "_1", .deact "_1", .end_, .ret "[" "_0", .deact "_0"] := by
  decide +kernel

/-- a black box is shown with its note and never expanded: the call inside `B <- b1` does not appear -/
example :
    let m : Module := [
      ⟨"A", false, false, [⟨"a0", false, [.call "B" "b1", .call "B" "b2"]⟩]⟩,
      ⟨"B", false, false, [⟨"b1", false, [.call "C" "c0", .ret "ok <: T" "T"]⟩, ⟨"b2", false, [.call "C" "c0"]⟩]⟩,
      ⟨"C", false, false, [⟨"c0", false, [.action "work"]⟩]⟩]
    (match generate m 50 "A" "a0" [("B <- b1", "x"), ("B <- b2", "see other diagram")] with
     | some (.ok o) => o.events
     | _ => []) =
    [.arrow "[" "_0", .act "_0", .arrow "_0" "_1", .act "_1", .note "_1", .ret "_0" "_1", .deact "_1",
     .arrow "_0" "_1", .deact "_0", .noteSide] := by
  decide +kernel

end SyslModel.SeqDiag
