/-
C13 — model of the sequence-diagram visitor (pkg/cmdutils/visitor.go:334-601) and writer
(pkg/cmdutils/writer.go:106-139): one starting endpoint, default labels, optional black boxes
(endpoints that are shown with a note but never expanded).

The walk produces a TREE of output nodes (so that block structure is explicit) which `flat`
turns into the event list that corresponds line by line to the PlantUML body.
Mirrored state: the symbol table (alias = allocation index), the writer's `Active` counters,
the one-shot cells of the `Activated` closures, the `visited` multiset.
Recursion is on fuel; `none` = out of fuel (the Go code would not return).
Core Lean only.
-/
namespace SyslModel.SeqDiag

inductive Stmt where
  | call (app ep : String)
  | action (text : String)
  | ret (raw fmt : String)                         -- raw payload text, formatted payload
  | block (kind : String) (body : List Stmt)       -- opt / loop / group
  | alt (choices : List (List Stmt))
deriving Repr

structure Ep where
  name   : String
  hidden : Bool
  stmts  : List Stmt
deriving Repr

structure App where
  name  : String
  human : Bool
  cron  : Bool
  eps   : List Ep
deriving Repr

abbrev Module := List App

def Module.app? (m : Module) (n : String) : Option App := m.find? (fun a => a.name == n)
def App.ep? (a : App) (n : String) : Option Ep := a.eps.find? (fun e => e.name == n)

inductive Ev where
  | arrow (src dst : String)      -- src->dst : label
  | self (a : String)             -- a -> a : action text
  | ret (dst src : String)        -- dst<--src : payload
  | act (a : String)
  | deact (a : String)
  | note (a : String)             -- note over a: comment   (black box with a return)
  | noteSide                      -- note left/right: comment (black box without a return)
  | open_ (kind : String)
  | else_
  | end_
deriving Repr, DecidableEq

inductive Node where
  | ev (e : Ev)
  | block (kind : String) (body : List Node)
  | alt (choices : List (List Node))
deriving Repr

structure S where
  syms    : List String := []           -- application names in allocation order; alias _i
  active  : List (String × Nat) := []   -- writer.Active
  cells   : List Bool := []             -- one-shot flags of the Activated closures
  visited : List String := []           -- "app <- ep" keys in progress
  bb      : List (String × String) := []  -- black boxes: "app <- ep" key, comment
deriving Repr

/-- `UniqueVarForAppName` -/
def alias (s : S) (app : String) : String × S :=
  match s.syms.idxOf? app with
  | some i => ("_" ++ toString i, s)
  | none => ("_" ++ toString s.syms.length, { s with syms := s.syms ++ [app] })

def activeOf (s : S) (a : String) : Nat := (s.active.lookup a).getD 0
def setActive (s : S) (a : String) (n : Nat) : S :=
  { s with active := (a, n) :: s.active.filter (fun p => p.1 != a) }

/-- `Activate` -/
def activate (s : S) (a : String) : List Node × S :=
  ([.ev (.act a)], setActive s a (activeOf s a + 1))

/-- `Deactivate`: a no-op at zero -/
def deactivate (s : S) (a : String) : List Node × S :=
  if activeOf s a = 0 then ([], s) else ([.ev (.deact a)], setActive s a (activeOf s a - 1))

/-- `Activated`: returns the cell of the one-shot closure -/
def activated (s : S) (a : String) (suppressed : Bool) : List Node × Nat × S :=
  let r := if suppressed then ([], s) else activate s a
  (r.1, r.2.cells.length, { r.2 with cells := r.2.cells ++ [!suppressed] })

/-- calling the closure of a cell -/
def fire (s : S) (cell : Nat) (a : String) : List Node × S :=
  if s.cells.getD cell false then
    deactivate { s with cells := s.cells.set cell false } a
  else ([], s)

/-- `GetReturnPayload`: (raw, formatted) of the first return found, depth first; a top-level
    return ends the search even when empty, nested ones only when non-empty -/
def firstRet : Nat → List Stmt → String × String
  | 0, _ => ("", "")
  | _, [] => ("", "")
  | f + 1, s :: rest =>
    match s with
    | .ret raw fmt => (raw, fmt)
    | .call _ _ => firstRet f rest
    | .action _ => firstRet f rest
    | .block _ body =>
      let p := firstRet f body
      if p.1 != "" then p else firstRet f rest
    | .alt choices =>
      let p := choices.foldl (fun acc c => if acc.1 != "" then acc else firstRet f c) ("", "")
      if p.1 != "" then p else firstRet f rest

/-- context of the endpoint being expanded -/
structure Ctx where
  fromApp : Option String
  app     : String
  ep      : String
  sender  : String        -- alias of the sender or "["
  agent   : String
  cell    : Nat           -- closure of this endpoint's activation
deriving Repr

inductive Err where
  | missingApp (a : String)
  | missingEp (a e : String)
deriving Repr, DecidableEq

abbrev Res := Option (Except Err (List Node × S))

mutual
/-- `visitEndpoint` -/
def visitEndpoint (m : Module) : Nat → S → (fromApp : Option String) → (app ep : String) →
    (senderHuman senderCron : Bool) → (deact : Option (Nat × String)) → Res
  | 0, _, _, _, _, _, _, _ => none
  | fuel + 1, s, fromApp, app, ep, senderHuman, senderCron, deact =>
    let (sender, s) := match fromApp with
      | some f => alias s f
      | none => ("[", s)
    let (agent, s) := alias s app
    match m.app? app with
    | none => some (.error (.missingApp app))
    | some a =>
    match a.ep? ep with
    | none => some (.error (.missingEp app ep))
    | some e =>
      let out1 : List Node :=
        if (a.human && sender == "[") || a.cron then [] else
        if e.hidden then [] else [.ev (.arrow sender agent)]
      let payload := (firstRet 1000 e.stmts).2
      let callingSelf := fromApp == some app
      let (out2, s) := match deact with
        | some (cell, ag) => if !callingSelf && payload == "" then fire s cell ag else ([], s)
        | none => ([], s)
      if e.stmts.isEmpty then some (.ok (out1 ++ out2, s)) else
      let key := app ++ " <- " ++ ep
      match s.bb.lookup key with
      | some comment =>
        -- a black box: shown with its note, never expanded
        if payload != "" then
          let (oa, s) := activate s agent
          let on := if comment.isEmpty then [] else [Node.ev (.note agent)]
          let orr := if e.hidden then [] else [Node.ev (.ret sender agent)]
          let (od, s) := deactivate s agent
          some (.ok (out1 ++ out2 ++ oa ++ on ++ orr ++ od, s))
        else some (.ok (out1 ++ out2 ++ [Node.ev .noteSide], s))
      | none =>
      if s.visited.contains key then
        -- shown, not expanded again; no black-box entry here, so neither Activate nor Deactivate
        if payload != "" then
          let o := if e.hidden then [] else [Node.ev (.ret sender agent)]
          some (.ok (out1 ++ out2 ++ o, s))
        else some (.ok (out1 ++ out2, s))
      else
        let (o3, cell, s) := activated s agent (a.human || a.cron)
        let s := { s with visited := key :: s.visited }
        let ctx : Ctx := { fromApp := fromApp, app := app, ep := ep, sender := sender, agent := agent, cell := cell }
        match visitStmts m fuel s ctx a e.stmts true with
        | none => none
        | some (.error x) => some (.error x)
        | some (.ok (o4, s)) =>
          let (o5, s) := fire s cell agent
          let s := { s with visited := s.visited.erase key }
          some (.ok (out1 ++ out2 ++ o3 ++ o4 ++ o5, s))

/-- `visitStatment` over a statement list; `lastParent` = isLastParentStmt -/
def visitStmts (m : Module) : Nat → S → Ctx → App → List Stmt → Bool → Res
  | 0, _, _, _, _, _ => none
  | _ + 1, s, _, _, [], _ => some (.ok ([], s))
  | fuel + 1, s, ctx, a, st :: rest, lastParent =>
    let isLast := lastParent && rest.isEmpty
    let r : Res := match st with
      | .call tapp tep =>
        visitEndpoint m fuel s (some ctx.app) tapp tep a.human a.cron
          (if isLast then some (ctx.cell, ctx.agent) else none)
      | .action text => some (.ok (if text == "..." then [] else [.ev (.self ctx.agent)], s))
      | .ret _ _ => some (.ok ([.ev (.ret ctx.sender ctx.agent)], s))
      | .block kind body =>
        match visitStmts m fuel s ctx a body isLast with
        | none => none
        | some (.error x) => some (.error x)
        | some (.ok (o, s)) => some (.ok ([.block kind o], s))
      | .alt choices =>
        match visitChoices m fuel s ctx a choices isLast with
        | none => none
        | some (.error x) => some (.error x)
        | some (.ok (cs, s)) => some (.ok ([.alt cs], s))
    match r with
    | none => none
    | some (.error x) => some (.error x)
    | some (.ok (o, s)) =>
      match visitStmts m fuel s ctx a rest lastParent with
      | none => none
      | some (.error x) => some (.error x)
      | some (.ok (o2, s)) => some (.ok (o ++ o2, s))

/-- the choices of an alternative; only the last choice inherits `last` -/
def visitChoices (m : Module) : Nat → S → Ctx → App → List (List Stmt) → Bool →
    Option (Except Err (List (List Node) × S))
  | 0, _, _, _, _, _ => none
  | _ + 1, s, _, _, [], _ => some (.ok ([], s))
  | fuel + 1, s, ctx, a, c :: rest, last =>
    match visitStmts m fuel s ctx a c (last && rest.isEmpty) with
    | none => none
    | some (.error x) => some (.error x)
    | some (.ok (o, s)) =>
      match visitChoices m fuel s ctx a rest last with
      | none => none
      | some (.error x) => some (.error x)
      | some (.ok (os, s)) => some (.ok (o :: os, s))
end

-- flatten the node tree into the event list (= PlantUML body lines)
mutual
def flat : List Node → List Ev
  | [] => []
  | n :: rest => flatNode n ++ flat rest
def flatNode : Node → List Ev
  | .ev e => [e]
  | .block kind body => [.open_ kind] ++ flat body ++ [.end_]
  | .alt choices => flatAlt choices true ++ [.end_]
def flatAlt : List (List Node) → Bool → List Ev
  | [], _ => []
  | c :: rest, first => [if first then .open_ "alt" else .else_] ++ flat c ++ flatAlt rest false
end

/-! well-formed output trees: leaves are plain events, every alternative has a choice -/

def Ev.plain : Ev → Bool
  | .open_ _ => false
  | .else_ => false
  | .end_ => false
  | _ => true

mutual
def wfNodes : List Node → Bool
  | [] => true
  | n :: r => wfNode n && wfNodes r
def wfNode : Node → Bool
  | .ev e => e.plain
  | .block _ b => wfNodes b
  | .alt cs => !cs.isEmpty && wfChoices cs
def wfChoices : List (List Node) → Bool
  | [] => true
  | c :: r => wfNodes c && wfChoices r
end

structure Output where
  wf : Bool
  events : List Ev
  participants : List String       -- application names, allocation order
deriving Repr

def generate (m : Module) (fuel : Nat) (app ep : String) (bb : List (String × String) := []) : Option (Except Err Output) :=
  match visitEndpoint m fuel { bb := bb } none app ep false false none with
  | none => none
  | some (.error e) => some (.error e)
  | some (.ok (nodes, s)) => some (.ok { wf := wfNodes nodes, events := flat nodes, participants := s.syms })

/-! ### well-formedness predicates on event lists (what the property says about a diagram) -/

/-- block nesting depth after a prefix; `none` when an `end`/`else` has no open block -/
def blockDepth : List Ev → Nat → Option Nat
  | [], d => some d
  | .open_ _ :: rest, d => blockDepth rest (d + 1)
  | .end_ :: rest, d => if d = 0 then none else blockDepth rest (d - 1)
  | .else_ :: rest, d => if d = 0 then none else blockDepth rest d
  | _ :: rest, d => blockDepth rest d

def blocksBalanced (es : List Ev) : Bool := blockDepth es 0 == some 0

end SyslModel.SeqDiag
