/-
Line protocol helpers shared by all areas (core Lean only).
One JSON object per line in, one JSON value per line out.
-/
import Lean.Data.Json

namespace SyslModel.Proto
open Lean (Json)

def str? (j : Json) (k : String) : Option String :=
  match j.getObjVal? k with
  | .ok v => match v.getStr? with | .ok s => some s | _ => none
  | _ => none

def strD (j : Json) (k : String) (d : String := "") : String := (str? j k).getD d

def nat? (j : Json) (k : String) : Option Nat :=
  match j.getObjVal? k with
  | .ok v => match v.getNat? with | .ok s => some s | _ => none
  | _ => none

def natD (j : Json) (k : String) (d : Nat := 0) : Nat := (nat? j k).getD d

def int? (j : Json) (k : String) : Option Int :=
  match j.getObjVal? k with
  | .ok v => match v.getInt? with | .ok s => some s | _ => none
  | _ => none

def bool? (j : Json) (k : String) : Option Bool :=
  match j.getObjVal? k with
  | .ok v => match v.getBool? with | .ok s => some s | _ => none
  | _ => none

def boolD (j : Json) (k : String) (d : Bool := false) : Bool := (bool? j k).getD d

def arr? (j : Json) (k : String) : Option (Array Json) :=
  match j.getObjVal? k with
  | .ok v => match v.getArr? with | .ok s => some s | _ => none
  | _ => none

def arrD (j : Json) (k : String) : List Json := ((arr? j k).getD #[]).toList

def obj? (j : Json) (k : String) : Option Json :=
  match j.getObjVal? k with
  | .ok v => some v
  | _ => none

def asStr (j : Json) : String := match j.getStr? with | .ok s => s | _ => ""
def asNat (j : Json) : Nat := match j.getNat? with | .ok s => s | _ => 0
def asInt (j : Json) : Int := match j.getInt? with | .ok s => s | _ => 0
def asArr (j : Json) : List Json := match j.getArr? with | .ok s => s.toList | _ => []

def strList (j : Json) (k : String) : List String := (arrD j k).map asStr

def jstrs (l : List String) : Json := Json.arr (l.map Json.str).toArray
def jarr (l : List Json) : Json := Json.arr l.toArray
def jnat (n : Nat) : Json := Json.num (Lean.JsonNumber.fromNat n)
def jint (n : Int) : Json := Json.num (Lean.JsonNumber.fromInt n)

end SyslModel.Proto
