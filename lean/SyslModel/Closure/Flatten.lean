/-
C05 — theorems about `flattenW` (the model of `flattenSpecs`) and their composition with the
schedule theorems: the processed-file order is a function of the text alone.
-/
import SyslModel.Closure.Props

namespace SyslModel.Closure

/-! ## helper lemmas -/

theorem mem_erase_iff_of_mem {l : List Nat} {n x : Nat} (hn : n ∈ l) :
    x ∈ l ↔ x = n ∨ x ∈ l.erase n := by
  constructor
  · intro hx
    by_cases e : x = n
    · exact Or.inl e
    · exact Or.inr ((List.mem_erase_of_ne e).2 hx)
  · rintro (rfl | hx)
    · exact hn
    · exact List.mem_of_mem_erase hx

theorem flattenW_nodup (imps : Nat → List Nat) (rem st acc : List Nat)
    (ha : acc.Nodup) (hr : rem.Nodup) (hd : ∀ x ∈ acc, x ∉ rem) :
    (flattenW imps rem st acc).Nodup := by
  fun_induction flattenW imps rem st acc with
  | case1 rem acc => exact ha
  | case2 rem n st acc h ih =>
    apply ih
    · rw [List.nodup_append]
      refine ⟨ha, by simp, ?_⟩
      intro a haa b hb
      simp at hb; subst hb
      intro e; subst e; exact hd a haa h
    · exact hr.erase n
    · intro x hx
      simp at hx
      rcases hx with hx | rfl
      · intro hx'; exact hd x hx (List.mem_of_mem_erase hx')
      · intro hx'; exact ((List.Nodup.mem_erase_iff hr).1 hx').1 rfl
  | case3 rem n st acc h ih => exact ih ha hr hd

theorem flattenW_mem (imps : Nat → List Nat) (rem st acc : List Nat) :
    ∀ x ∈ flattenW imps rem st acc, x ∈ acc ∨ x ∈ rem := by
  fun_induction flattenW imps rem st acc with
  | case1 rem acc => intro x hx; exact Or.inl hx
  | case2 rem n st acc h ih =>
    intro x hx
    rcases ih x hx with a | a
    · simp at a
      rcases a with a | rfl
      · exact Or.inl a
      · exact Or.inr h
    · exact Or.inr (List.mem_of_mem_erase a)
  | case3 rem n st acc h ih => exact ih

theorem flattenW_prefix (imps : Nat → List Nat) (rem st acc : List Nat) :
    acc <+: flattenW imps rem st acc := by
  fun_induction flattenW imps rem st acc with
  | case1 rem acc => exact List.prefix_refl _
  | case2 rem n st acc h ih => exact List.IsPrefix.trans (List.prefix_append acc [n]) ih
  | case3 rem n st acc h ih => exact ih

theorem flattenW_closed (imps : Nat → List Nat) (K : List Nat) (rem st acc : List Nat)
    (hK : ∀ x, x ∈ K ↔ x ∈ acc ∨ x ∈ rem)
    (hJ : ∀ m ∈ acc, ∀ ch ∈ imps m, ch ∈ K → ch ∈ acc ∨ ch ∈ st) :
    (∀ s ∈ st, s ∈ K → s ∈ flattenW imps rem st acc) ∧
    (∀ m ∈ flattenW imps rem st acc, ∀ ch ∈ imps m, ch ∈ K → ch ∈ flattenW imps rem st acc) ∧
    (∀ x ∈ acc, x ∈ flattenW imps rem st acc) := by
  fun_induction flattenW imps rem st acc with
  | case1 rem acc =>
    refine ⟨by simp, ?_, fun x hx => hx⟩
    intro m hm ch hch hk
    rcases hJ m hm ch hch hk with a | a
    · exact a
    · cases a
  | case2 rem n st acc h ih =>
    have hK' : ∀ x, x ∈ K ↔ x ∈ acc ++ [n] ∨ x ∈ rem.erase n := by
      intro x
      rw [hK x, mem_erase_iff_of_mem h (x := x)]
      simp only [List.mem_append, List.mem_singleton]
      constructor
      · rintro (a | a | a)
        · exact Or.inl (Or.inl a)
        · exact Or.inl (Or.inr a)
        · exact Or.inr a
      · rintro ((a | a) | a)
        · exact Or.inl a
        · exact Or.inr (Or.inl a)
        · exact Or.inr (Or.inr a)
    have hJ' : ∀ m ∈ acc ++ [n], ∀ ch ∈ imps m, ch ∈ K → ch ∈ acc ++ [n] ∨ ch ∈ imps n ++ st := by
      intro m hm ch hch hk
      simp only [List.mem_append, List.mem_singleton] at hm ⊢
      rcases hm with hm | rfl
      · rcases hJ m hm ch hch hk with a | a
        · exact Or.inl (Or.inl a)
        · simp at a
          rcases a with rfl | a
          · exact Or.inl (Or.inr rfl)
          · exact Or.inr (Or.inr a)
      · exact Or.inr (Or.inl hch)
    obtain ⟨ia, ib, ic⟩ := ih hK' hJ'
    refine ⟨?_, ib, fun x hx => ic x (by simp [hx])⟩
    intro s hs hk
    simp at hs
    rcases hs with rfl | hs
    · exact ic s (by simp)
    · exact ia s (by simp [hs]) hk
  | case3 rem n st acc h ih =>
    have hJ' : ∀ m ∈ acc, ∀ ch ∈ imps m, ch ∈ K → ch ∈ acc ∨ ch ∈ st := by
      intro m hm ch hch hk
      rcases hJ m hm ch hch hk with a | a
      · exact Or.inl a
      · simp at a
        rcases a with rfl | a
        · rcases (hK ch).1 hk with b | b
          · exact Or.inl b
          · exact absurd b h
        · exact Or.inr a
    obtain ⟨ia, ib, ic⟩ := ih hK hJ'
    refine ⟨?_, ib, ic⟩
    intro s hs hk
    simp at hs
    rcases hs with rfl | hs
    · rcases (hK s).1 hk with b | b
      · exact ic s b
      · exact absurd b h
    · exact ia s hs hk

/-- the result depends only on the SET of retrieved files, not on the order in which the
    concurrent fetches registered them -/
theorem flattenW_congr (imps : Nat → List Nat) (rem₁ rem₂ st acc : List Nat)
    (h₁ : rem₁.Nodup) (h₂ : rem₂.Nodup) (he : ∀ x, x ∈ rem₁ ↔ x ∈ rem₂) :
    flattenW imps rem₁ st acc = flattenW imps rem₂ st acc := by
  fun_induction flattenW imps rem₁ st acc generalizing rem₂ with
  | case1 rem acc => rw [flattenW]
  | case2 rem n st acc h ih =>
    have h' : n ∈ rem₂ := (he n).1 h
    rw [flattenW.eq_2, dif_pos h']
    apply ih _ (h₁.erase n) (h₂.erase n)
    intro x
    rw [List.Nodup.mem_erase_iff h₁, List.Nodup.mem_erase_iff h₂, he x]
  | case3 rem n st acc h ih =>
    have h' : n ∉ rem₂ := fun e => h ((he n).2 e)
    rw [flattenW.eq_2, dif_neg h']
    exact ih _ h₁ h₂ he

/-! ## PROPERTY THEOREMS (C05) -/

/-- **flatten_dfs_once**: each retrieved file appears at most once in the processed order. -/
theorem flatten_nodup (c : Cfg) (retrieved : List Nat) (root : Nat) (h : retrieved.Nodup) :
    (flatten c retrieved root).Nodup :=
  flattenW_nodup c.imports retrieved [root] [] List.nodup_nil h (by simp)

/-- **flatten_exact**: when the retrieved set is the reachable set (what `closure_sched_indep`
    gives) and no file is faulty, the processed files are exactly the reachable ones. -/
theorem flatten_exact (c : Cfg) (retrieved : List Nat) (root : Nat)
    (hset : ∀ n, n ∈ retrieved ↔ Reach c root n)
    (hgood : ∀ n, Reach c root n → c.faulty n = false) :
    ∀ n, n ∈ flatten c retrieved root ↔ Reach c root n := by
  intro n
  unfold flatten
  constructor
  · intro hn
    rcases flattenW_mem c.imports retrieved [root] [] n hn with a | a
    · cases a
    · exact (hset n).1 a
  · intro hn
    obtain ⟨ia, ib, _⟩ := flattenW_closed c.imports retrieved retrieved [root] []
      (by intro x; simp) (by intro m hm; cases hm)
    induction hn with
    | refl => exact ia root (by simp) ((hset root).2 Reach.refl)
    | step hm hg hk ih =>
      rename_i m k
      exact ib m ih k hk ((hset k).2 (Reach.step hm hg hk))

/-- the root is processed first -/
theorem flatten_root_first (c : Cfg) (retrieved : List Nat) (root : Nat) (h : root ∈ retrieved) :
    [root] <+: flatten c retrieved root := by
  unfold flatten
  rw [flattenW.eq_2, dif_pos h]
  exact flattenW_prefix c.imports _ _ _

/-- **outcome_sched_indep** (C05 headline, unlimited depth, no failing file): the processed
    file list — the input of the single tree walk that builds the model — is THE SAME LIST
    under every two interleavings of the concurrent fetches. -/
theorem outcome_sched_indep (c : Cfg) (root : Nat) (σ₁ σ₂ : List Choice) (s₁ s₂ : St)
    (hmax : c.max = 0)
    (h₁ : run c σ₁ (init root) = some s₁) (h₂ : run c σ₂ (init root) = some s₂)
    (f₁ : final s₁) (f₂ : final s₂)
    (hgood : ∀ n, Reach c root n → c.faulty n = false) :
    outcome c root s₁ = outcome c root s₂ ∧
      (c.badBody = [] → outcome c root s₁ = .files (flatten c s₁.claimed root)) := by
  have e₁ : s₁.errs = [] := by
    have := (fault_clean c root σ₁ s₁ hmax h₁ f₁).2.1
    by_cases e : s₁.errs = []
    · exact e
    · obtain ⟨n, hn, hb⟩ := this.1 e
      rw [hgood n hn] at hb; cases hb
  have e₂ : s₂.errs = [] := by
    have := (fault_clean c root σ₂ s₂ hmax h₂ f₂).2.1
    by_cases e : s₂.errs = []
    · exact e
    · obtain ⟨n, hn, hb⟩ := this.1 e
      rw [hgood n hn] at hb; cases hb
  have c₁ := closure_sched_indep c root σ₁ s₁ hmax h₁ f₁
  have c₂ := closure_sched_indep c root σ₂ s₂ hmax h₂ f₂
  have hfl : flatten c s₁.claimed root = flatten c s₂.claimed root := by
    unfold flatten
    apply flattenW_congr _ _ _ _ _ (claimed_once c root σ₁ s₁ h₁) (claimed_once c root σ₂ s₂ h₂)
    intro x; rw [c₁ x, c₂ x]
  refine ⟨?_, ?_⟩
  · simp [outcome, e₁, e₂, hfl]
  · intro hb
    have hn : ∀ l : List Nat, l.find? (fun _ => false) = none := by
      intro l; induction l with
      | nil => rfl
      | cons a t ih => simp [List.find?]
    simp [outcome, e₁, hb, hn]

/-- **parse_phase_fault** (C06, second phase): when every fetch succeeded but some processed
    file does not parse, the outcome is an error naming such a file, and no file list. -/
theorem parse_phase_fault (c : Cfg) (root : Nat) (s : St) (he : s.errs = [])
    (hb : ∃ f ∈ flatten c s.claimed root, f ∈ c.badBody) :
    ∃ f, outcome c root s = .error [f] ∧ f ∈ c.badBody ∧ f ∈ flatten c s.claimed root := by
  obtain ⟨f, hf, hfb⟩ := hb
  simp only [outcome, he, if_true]
  cases hfind : (flatten c s.claimed root).find? (fun f => c.badBody.contains f) with
  | none =>
    rw [List.find?_eq_none] at hfind
    have := hfind f hf
    simp [hfb] at this
  | some g =>
    refine ⟨g, rfl, ?_, List.mem_of_find?_eq_some hfind⟩
    have := List.find?_some hfind
    simpa using this

/-- non-vacuity: a diamond with a cycle and a self-import (0 → {1,2}, 1 → 3, 2 → 3, 3 → {0,3});
    two different maximal schedules exist, with different claim orders -/
def diamond : Cfg := { G := [(0, [1, 2]), (1, [3]), (2, [3]), (3, [0, 3])], max := 0, bad := [] }

example :
    (∃ s, run diamond [.start 0, .finish 0, .start 0, .start 0, .finish 0, .finish 0, .start 0, .start 0,
        .finish 0, .start 0, .start 0] (init 0) = some s ∧ (final s ∧ s.claimed = [0, 1, 2, 3])) ∧
    (∃ s, run diamond [.start 0, .finish 0, .start 1, .finish 0, .start 1, .finish 0, .start 1, .start 1,
        .start 0, .finish 0, .start 0] (init 0) = some s ∧ (final s ∧ s.claimed = [0, 2, 3, 1])) := by
  constructor
  · apply exists_of_decide; decide
  · apply exists_of_decide; decide

end SyslModel.Closure
