import SyslModel.Core.Proto
import SyslModel.Closure.Model
import SyslModel.Closure.Version

namespace SyslModel.Closure
open Lean (Json)
open SyslModel.Proto

def cfgOf (j : Json) : Cfg :=
  { G := (arrD j "G").map (fun e => match asArr e with
        | [n, ims] => (asNat n, (asArr ims).map asNat)
        | _ => (0, []))
    max := natD j "max"
    bad := (arrD j "bad").map asNat
    badBody := (arrD j "badBody").map asNat }

def handle (op : String) (j : Json) : Option Json :=
  match op with
  | "closure.replay" =>
      let c := cfgOf j
      let root := natD j "root"
      let order := (arrD j "order").map asNat
      match replay c order (init root) with
      | none => some (Json.mkObj [("err", Json.str "replay-stuck")])
      | some s =>
        let fin := decide (final s)
        let base := [("final", Json.bool fin), ("claimed", jarr (s.claimed.map jnat)),
                     ("reading", jarr (s.reading.map (fun p => jnat p.1)))]
        if ¬ fin then some (Json.mkObj base) else
        match outcome c root s with
        | .files o => some (Json.mkObj (base ++ [("files", jarr (o.map jnat))]))
        | .error e => some (Json.mkObj (base ++ [("error", jarr (e.map jnat))]))
  | "closure.flatten" =>
      let c := cfgOf j
      some (Json.mkObj [("files", jarr ((flatten c ((arrD j "retrieved").map asNat) (natD j "root")).map jnat))])
  | "closure.versions" =>
      -- spellings: [[file index, import target as spelled]]: the key each claims and whether two imports of
      -- one file ask for different versions
      let sp := (arrD j "spellings").map (fun e => match asArr e with
        | [n, s] => (asNat n, (asStr s).toList)
        | _ => (0, []))
      let conflict := sp.any fun a => sp.any fun b => a.1 == b.1 && Version.conflict a.2 b.2
      some (Json.mkObj [("conflict", Json.bool conflict),
        ("keys", jarr (sp.map fun a => Json.str (String.ofList (Version.index a.2))))])
  | _ => none

end SyslModel.Closure
