/-
C05 / C06 — theorems about the import-closure model.  Helper lemmas first, property
theorems after the marker.
-/
import SyslModel.Closure.Model

namespace SyslModel.Closure

/-! ## helper lemmas -/

theorem mem_eraseIdx_of_ne {α} (l : List α) (i : Nat) (x y : α) (hx : x ∈ l)
    (hy : l[i]? = some y) (hne : x ≠ y) : x ∈ l.eraseIdx i := by
  rw [List.mem_eraseIdx_iff_getElem?]
  obtain ⟨j, hj⟩ := List.getElem?_of_mem hx
  refine ⟨j, ?_, hj⟩
  intro e; subst e
  rw [hj] at hy; cases hy; exact hne rfl

theorem mem_of_getElem? {α} (l : List α) (i : Nat) (y : α) (hy : l[i]? = some y) : y ∈ l :=
  List.mem_of_getElem? hy

/-- the invariant carried by every reachable state -/
structure Inv (c : Cfg) (root : Nat) (s : St) : Prop where
  claimedReach : ∀ n ∈ s.claimed, Reach c root n
  pendingReach : ∀ p ∈ s.pending, Reach c root p.1
  readingReach : ∀ p ∈ s.reading, Reach c root p.1 ∧ p.1 ∈ s.claimed
  doneGood     : ∀ n ∈ s.done, c.faulty n = false
  doneKids     : c.max = 0 → ∀ n ∈ s.done, ∀ ch ∈ c.imports n, ch ∈ s.claimed ∨ ∃ d, (ch, d) ∈ s.pending
  claimedWhere : ∀ n ∈ s.claimed, n ∈ s.done ∨ n ∈ s.errs ∨ ∃ d, (n, d) ∈ s.reading
  rootSeen     : c.max = 0 → root ∈ s.claimed ∨ ∃ d, (root, d) ∈ s.pending
  errsBad      : ∀ n ∈ s.errs, c.faulty n = true ∧ n ∈ s.claimed
  claimedNodup : s.claimed.Nodup
  doneClaimed  : ∀ n ∈ s.done, n ∈ s.claimed

theorem inv_init (c : Cfg) (root : Nat) : Inv c root (init root) := by
  refine ⟨?_, ?_, ?_, ?_, ?_, ?_, ?_, ?_, ?_, ?_⟩ <;> simp [init]
  exact Reach.refl

theorem inv_step (c : Cfg) (root : Nat) (s s' : St) (ch : Choice) (h : Inv c root s)
    (hs : step c s ch = some s') : Inv c root s' := by
  cases ch with
  | start i =>
    simp only [step] at hs
    split at hs
    · cases hs
    · rename_i n d hp
      have hmem : (n, d) ∈ s.pending := mem_of_getElem? _ _ _ hp
      have pend_sub : ∀ p ∈ s.pending.eraseIdx i, p ∈ s.pending := fun p hp' => List.mem_of_mem_eraseIdx hp'
      split at hs
      · -- depth cut: max > 0
        rename_i hcut
        cases hs
        have hmax : c.max ≠ 0 := by omega
        exact { claimedReach := h.claimedReach
                pendingReach := fun p hp' => h.pendingReach p (pend_sub p hp')
                readingReach := h.readingReach
                doneGood := h.doneGood
                doneKids := fun h0 => absurd h0 hmax
                claimedWhere := h.claimedWhere
                rootSeen := fun h0 => absurd h0 hmax
                errsBad := h.errsBad
                claimedNodup := h.claimedNodup
                doneClaimed := h.doneClaimed }
      · split at hs
        · -- already claimed
          rename_i hcl
          cases hs
          refine { claimedReach := h.claimedReach
                   pendingReach := fun p hp' => h.pendingReach p (pend_sub p hp')
                   readingReach := h.readingReach
                   doneGood := h.doneGood
                   doneKids := ?_
                   claimedWhere := h.claimedWhere
                   rootSeen := ?_
                   errsBad := h.errsBad
                   claimedNodup := h.claimedNodup
                   doneClaimed := h.doneClaimed }
          · intro h0 m hm k hk
            rcases h.doneKids h0 m hm k hk with hc | ⟨d', hd'⟩
            · exact Or.inl hc
            · by_cases e : k = n
              · subst e; exact Or.inl hcl
              · right; refine ⟨d', mem_eraseIdx_of_ne _ i _ _ hd' hp ?_⟩
                intro e2; cases e2; exact e rfl
          · intro h0
            rcases h.rootSeen h0 with hc | ⟨d', hd'⟩
            · exact Or.inl hc
            · by_cases e : root = n
              · subst e; exact Or.inl hcl
              · right; refine ⟨d', mem_eraseIdx_of_ne _ i _ _ hd' hp ?_⟩
                intro e2; cases e2; exact e rfl
        · -- claim
          rename_i hncl
          cases hs
          have hr : Reach c root n := h.pendingReach (n, d) hmem
          refine { claimedReach := ?_, pendingReach := fun p hp' => h.pendingReach p (pend_sub p hp')
                   readingReach := ?_, doneGood := h.doneGood, doneKids := ?_, claimedWhere := ?_
                   rootSeen := ?_, errsBad := ?_, claimedNodup := ?_, doneClaimed := ?_ }
          · intro m hm
            simp at hm
            rcases hm with hm | rfl
            · exact h.claimedReach m hm
            · exact hr
          · intro p hp'
            simp at hp'
            rcases hp' with hp' | rfl
            · have := h.readingReach p hp'
              exact ⟨this.1, by simp [this.2]⟩
            · exact ⟨hr, by simp⟩
          · intro h0 m hm k hk
            rcases h.doneKids h0 m hm k hk with hc | ⟨d', hd'⟩
            · left; simp [hc]
            · by_cases e : k = n
              · subst e; left; simp
              · right; refine ⟨d', mem_eraseIdx_of_ne _ i _ _ hd' hp ?_⟩
                intro e2; cases e2; exact e rfl
          · intro m hm
            simp at hm
            rcases hm with hm | rfl
            · rcases h.claimedWhere m hm with a | a | ⟨d', a⟩
              · exact Or.inl a
              · exact Or.inr (Or.inl a)
              · exact Or.inr (Or.inr ⟨d', by simp [a]⟩)
            · exact Or.inr (Or.inr ⟨d, by simp⟩)
          · intro h0
            rcases h.rootSeen h0 with hc | ⟨d', hd'⟩
            · left; simp [hc]
            · by_cases e : root = n
              · subst e; left; simp
              · right; refine ⟨d', mem_eraseIdx_of_ne _ i _ _ hd' hp ?_⟩
                intro e2; cases e2; exact e rfl
          · intro m hm
            have := h.errsBad m hm
            exact ⟨this.1, by simp [this.2]⟩
          · rw [List.nodup_append]
            refine ⟨h.claimedNodup, by simp, ?_⟩
            intro a ha b hb
            simp at hb; subst hb
            intro e; subst e; exact hncl ha
          · intro m hm
            simp [h.doneClaimed m hm]
  | finish i =>
    simp only [step] at hs
    split at hs
    · cases hs
    · rename_i n d hp
      have hmem : (n, d) ∈ s.reading := mem_of_getElem? _ _ _ hp
      have hrd := h.readingReach (n, d) hmem
      have rd_sub : ∀ p ∈ s.reading.eraseIdx i, p ∈ s.reading := fun p hp' => List.mem_of_mem_eraseIdx hp'
      split at hs
      · -- faulty file: error, no children
        rename_i hf
        cases hs
        refine { claimedReach := h.claimedReach, pendingReach := h.pendingReach
                 readingReach := fun p hp' => h.readingReach p (rd_sub p hp')
                 doneGood := h.doneGood, doneKids := h.doneKids, claimedWhere := ?_
                 rootSeen := h.rootSeen, errsBad := ?_, claimedNodup := h.claimedNodup
                 doneClaimed := h.doneClaimed }
        · intro m hm
          rcases h.claimedWhere m hm with a | a | ⟨d', a⟩
          · exact Or.inl a
          · right; left; simp [a]
          · by_cases e : m = n
            · subst e; right; left; simp
            · right; right; refine ⟨d', mem_eraseIdx_of_ne _ i _ _ a hp ?_⟩
              intro e2; cases e2; exact e rfl
        · intro m hm
          simp at hm
          rcases hm with hm | rfl
          · exact h.errsBad m hm
          · exact ⟨hf, hrd.2⟩
      · rename_i hf
        have hf' : c.faulty n = false := by simpa using hf
        cases hs
        refine { claimedReach := h.claimedReach, pendingReach := ?_
                 readingReach := fun p hp' => h.readingReach p (rd_sub p hp')
                 doneGood := ?_, doneKids := ?_, claimedWhere := ?_
                 rootSeen := ?_, errsBad := h.errsBad, claimedNodup := h.claimedNodup
                 doneClaimed := ?_ }
        · intro p hp'
          simp at hp'
          rcases hp' with hp' | ⟨k, hk, rfl⟩
          · exact h.pendingReach p hp'
          · exact Reach.step hrd.1 hf' hk
        · intro m hm
          simp at hm
          rcases hm with hm | rfl
          · exact h.doneGood m hm
          · exact hf'
        · intro h0 m hm k hk
          simp at hm
          rcases hm with hm | rfl
          · rcases h.doneKids h0 m hm k hk with a | ⟨d', a⟩
            · exact Or.inl a
            · right; exact ⟨d', by simp [a]⟩
          · right; exact ⟨d + 1, by simp; right; exact hk⟩
        · intro m hm
          rcases h.claimedWhere m hm with a | a | ⟨d', a⟩
          · left; simp [a]
          · exact Or.inr (Or.inl a)
          · by_cases e : m = n
            · subst e; left; simp
            · right; right; refine ⟨d', mem_eraseIdx_of_ne _ i _ _ a hp ?_⟩
              intro e2; cases e2; exact e rfl
        · intro h0
          rcases h.rootSeen h0 with a | ⟨d', a⟩
          · exact Or.inl a
          · right; exact ⟨d', by simp [a]⟩
        · intro m hm
          simp at hm
          rcases hm with hm | rfl
          · exact h.doneClaimed m hm
          · exact hrd.2

theorem inv_run (c : Cfg) (root : Nat) (σ : List Choice) (s s' : St) (h : Inv c root s)
    (hr : run c σ s = some s') : Inv c root s' := by
  induction σ generalizing s with
  | nil => simp [run] at hr; subst hr; exact h
  | cons ch rest ih =>
    simp only [run] at hr
    split at hr
    · cases hr
    · rename_i s1 hs1
      exact ih s1 (inv_step c root s s1 ch h hs1) hr

theorem exists_of_decide {α} (o : Option α) (P : α → Prop) [DecidablePred P]
    (h : o.map (fun s => decide (P s)) = some true) : ∃ s, o = some s ∧ P s := by
  cases o with
  | none => simp at h
  | some s => exact ⟨s, rfl, by simpa using h⟩

/-! ## PROPERTY THEOREMS (C05, C06) -/

/-- **closure_sched_indep** (unlimited depth): under EVERY schedule, when all fetches have
    ended the set of retrieved files is exactly the set reachable through import statements
    of good files — whatever the interleaving. -/
theorem closure_sched_indep (c : Cfg) (root : Nat) (σ : List Choice) (s : St)
    (hmax : c.max = 0) (hr : run c σ (init root) = some s) (hf : final s) :
    ∀ n, n ∈ s.claimed ↔ Reach c root n := by
  have h := inv_run c root σ _ s (inv_init c root) hr
  intro n
  constructor
  · exact h.claimedReach n
  · intro hn
    induction hn with
    | refl =>
      rcases h.rootSeen hmax with a | ⟨d, a⟩
      · exact a
      · rw [hf.1] at a; cases a
    | step hm hgood hk ih =>
      rename_i m k
      rcases h.claimedWhere m ih with a | a | ⟨d, a⟩
      · rcases h.doneKids hmax m a k hk with b | ⟨d, b⟩
        · exact b
        · rw [hf.1] at b; cases b
      · have := (h.errsBad m a).1; rw [hgood] at this; cases this
      · rw [hf.2] at a; cases a

/-- each file is claimed (hence fetched) at most once, however many paths, diamonds,
    cycles or self-imports reach it -/
theorem claimed_once (c : Cfg) (root : Nat) (σ : List Choice) (s : St)
    (hr : run c σ (init root) = some s) : s.claimed.Nodup :=
  (inv_run c root σ _ s (inv_init c root) hr).claimedNodup

/-- **closure_done_eq** : without faults the files whose imports were recorded are exactly
    the claimed ones (this is the map `flattenSpecs` walks). -/
theorem done_iff_claimed (c : Cfg) (root : Nat) (σ : List Choice) (s : St)
    (hr : run c σ (init root) = some s) (hf : final s) (he : s.errs = []) :
    ∀ n, n ∈ s.done ↔ n ∈ s.claimed := by
  have h := inv_run c root σ _ s (inv_init c root) hr
  intro n
  constructor
  · exact h.doneClaimed n
  · intro hn
    rcases h.claimedWhere n hn with a | a | ⟨d, a⟩
    · exact a
    · rw [he] at a; cases a
    · rw [hf.2] at a; cases a

/-- **no_hang** (progress): a state that is not final always has an enabled step. -/
theorem no_hang (c : Cfg) (s : St) (h : ¬ final s) : ∃ ch s', step c s ch = some s' := by
  unfold final at h
  by_cases hp : s.pending = []
  · have hr : s.reading ≠ [] := fun e => h ⟨hp, e⟩
    cases hrd : s.reading with
    | nil => exact absurd hrd hr
    | cons p rest =>
      obtain ⟨n, d⟩ := p
      refine ⟨.finish 0, ?_⟩
      simp only [step, hrd, List.getElem?_cons_zero]
      split <;> exact ⟨_, rfl⟩
  · cases hpd : s.pending with
    | nil => exact absurd hpd hp
    | cons p rest =>
      obtain ⟨n, d⟩ := p
      refine ⟨.start 0, ?_⟩
      simp only [step, hpd, List.getElem?_cons_zero]
      split
      · exact ⟨_, rfl⟩
      · split <;> exact ⟨_, rfl⟩

/-- **fault_clean** (C06): under every schedule and every placement of the failures, when
    the collection has ended an error is reported iff some faulty file is reachable through
    good files; every file the error names is a faulty one; and then no file list (no model)
    is produced. -/
theorem fault_clean (c : Cfg) (root : Nat) (σ : List Choice) (s : St)
    (hmax : c.max = 0) (hr : run c σ (init root) = some s) (hf : final s) :
    (∀ e ∈ s.errs, c.faulty e = true ∧ Reach c root e) ∧
    (s.errs ≠ [] ↔ ∃ n, Reach c root n ∧ c.faulty n = true) ∧
    ((∃ n, Reach c root n ∧ c.faulty n = true) → ∃ names, outcome c root s = .error names ∧ names ≠ [] ∧ ∀ e ∈ names, c.faulty e = true) := by
  have h := inv_run c root σ _ s (inv_init c root) hr
  have hcl := closure_sched_indep c root σ s hmax hr hf
  have A : ∀ e ∈ s.errs, c.faulty e = true ∧ Reach c root e := fun e he =>
    ⟨(h.errsBad e he).1, h.claimedReach e (h.errsBad e he).2⟩
  have B : (∃ n, Reach c root n ∧ c.faulty n = true) → s.errs ≠ [] := by
    rintro ⟨n, hn, hbad⟩
    have hc := (hcl n).2 hn
    rcases h.claimedWhere n hc with a | a | ⟨d, a⟩
    · have := h.doneGood n a; rw [hbad] at this; cases this
    · intro e; rw [e] at a; cases a
    · rw [hf.2] at a; cases a
  refine ⟨A, ⟨?_, B⟩, ?_⟩
  · intro hne
    cases he : s.errs with
    | nil => exact absurd he hne
    | cons e rest => exact ⟨e, (A e (by simp [he])).2, (A e (by simp [he])).1⟩
  · intro hex
    have hne := B hex
    refine ⟨s.errs, ?_, hne, fun e he => (A e he).1⟩
    simp [outcome, hne]

/-- **depth_limit_upper**: with a depth limit `max > 0`, under every schedule every retrieved
    file is reachable by fewer than `max` import hops. -/
theorem depth_limit_upper (c : Cfg) (root : Nat) (σ : List Choice) (s : St)
    (hr : run c σ (init root) = some s) (hmax : c.max > 0) :
    ∀ n ∈ s.claimed, ∃ d, d < c.max ∧ ReachN c root n d := by
  -- auxiliary invariant
  suffices H : ∀ (σ : List Choice) (s0 s1 : St),
      ((∀ p ∈ s0.pending, ReachN c root p.1 p.2) ∧ (∀ p ∈ s0.reading, ReachN c root p.1 p.2) ∧
        (∀ n ∈ s0.claimed, ∃ d, d < c.max ∧ ReachN c root n d)) →
      run c σ s0 = some s1 →
      ((∀ p ∈ s1.pending, ReachN c root p.1 p.2) ∧ (∀ p ∈ s1.reading, ReachN c root p.1 p.2) ∧
        (∀ n ∈ s1.claimed, ∃ d, d < c.max ∧ ReachN c root n d)) by
    refine (H σ (init root) s ?_ hr).2.2
    refine ⟨?_, ?_, ?_⟩ <;> simp [init]
    exact ReachN.refl
  intro σ
  induction σ with
  | nil => intro s0 s1 h hr; simp [run] at hr; subst hr; exact h
  | cons ch rest ih =>
    intro s0 s1 h hr
    simp only [run] at hr
    split at hr
    · cases hr
    · rename_i s2 hs2
      refine ih s2 s1 ?_ hr
      obtain ⟨hP, hR, hC⟩ := h
      cases ch with
      | start i =>
        simp only [step] at hs2
        split at hs2
        · cases hs2
        · rename_i n d hp
          have hmem : (n, d) ∈ s0.pending := mem_of_getElem? _ _ _ hp
          have sub : ∀ p ∈ s0.pending.eraseIdx i, p ∈ s0.pending := fun p hp' => List.mem_of_mem_eraseIdx hp'
          split at hs2
          · cases hs2; exact ⟨fun p hp' => hP p (sub p hp'), hR, hC⟩
          · rename_i hcut
            split at hs2
            · cases hs2; exact ⟨fun p hp' => hP p (sub p hp'), hR, hC⟩
            · cases hs2
              have hd : d < c.max := by
                have : ¬ (c.max > 0 ∧ d ≥ c.max) := hcut
                omega
              refine ⟨fun p hp' => hP p (sub p hp'), ?_, ?_⟩
              · intro p hp'
                simp at hp'
                rcases hp' with hp' | rfl
                · exact hR p hp'
                · exact hP (n, d) hmem
              · intro m hm
                simp at hm
                rcases hm with hm | hm
                · exact hC m hm
                · rw [hm]; exact ⟨d, hd, hP (n, d) hmem⟩
      | finish i =>
        simp only [step] at hs2
        split at hs2
        · cases hs2
        · rename_i n d hp
          have hmem : (n, d) ∈ s0.reading := mem_of_getElem? _ _ _ hp
          have sub : ∀ p ∈ s0.reading.eraseIdx i, p ∈ s0.reading := fun p hp' => List.mem_of_mem_eraseIdx hp'
          split at hs2
          · cases hs2; exact ⟨hP, fun p hp' => hR p (sub p hp'), hC⟩
          · cases hs2
            refine ⟨?_, fun p hp' => hR p (sub p hp'), hC⟩
            intro p hp'
            simp at hp'
            rcases hp' with hp' | ⟨k, hk, rfl⟩
            · exact hP p hp'
            · exact ReachN.step (hR (n, d) hmem) hk

/-- the depth-limit witness: root 0 → {1,2}, 1 → 3, 2 → 5, 3 → 5, 5 → 6; limit 4.
    File 6 is 3 hops from the root (0 → 2 → 5 → 6), i.e. nearer than 4. -/
def depthWitness : Cfg :=
  { G := [(0, [1, 2]), (1, [3]), (2, [5]), (3, [5]), (5, [6]), (6, [])], max := 4, bad := [] }

/-- schedule A: 1's branch runs ahead and claims 5 at depth 3, so 6 (depth 4) is cut -/
def schedA : List Choice :=
  [.start 0, .finish 0, .start 0, .finish 0, .start 1, .finish 0, .start 1, .finish 0,
   .start 0, .finish 0, .start 0, .start 0]

/-- schedule B: 2's branch runs first and claims 5 at depth 2, so 6 (depth 3) is included -/
def schedB : List Choice :=
  [.start 0, .finish 0, .start 1, .finish 0, .start 1, .finish 0, .start 1, .finish 0,
   .start 0, .finish 0, .start 0, .finish 0, .start 0]

/-- **depth_limit_not_sched_indep**: with a depth limit the retrieved set DOES depend on the
    interleaving — the property's depth clause ("exactly the files nearer than n, under every
    interleaving") is false of this protocol.  Both runs are maximal. -/
theorem depth_limit_not_sched_indep :
    (∃ sA, run depthWitness schedA (init 0) = some sA ∧ (final sA ∧ 6 ∉ sA.claimed)) ∧
    (∃ sB, run depthWitness schedB (init 0) = some sB ∧ (final sB ∧ 6 ∈ sB.claimed)) := by
  constructor
  · apply exists_of_decide; decide
  · apply exists_of_decide; decide

end SyslModel.Closure
