/-
C05 / C06 — model of the import closure of `pkg/parse/parse.go`.

Mirrors:
  * `(*Parser).collectSpecs`  (parse.go:369-474)   → transition system `step` over `St`
      - depth test first                               (`start`, dropped when max>0 ∧ d ≥ max)
      - claim under the mutex BEFORE the read          (`start`, claim + move to `reading`)
      - read, scan imports, fan out one task per import (`finish`, children pushed to `pending`)
      - read / pre-parse failure returns an error, no children (`finish` on a bad file)
  * `flattenSpecs`            (parse.go:350-367)   → `flattenW` (explicit-stack DFS, pre-order)

A *schedule* is any list of `Choice`s; every goroutine interleaving of the real code is one
(the claim is the only shared-state access and it is atomic; a goroutine sees nothing of
another's result before the final join).  Files are numbers; the harness maps names.
Core Lean only.
-/
namespace SyslModel.Closure

structure Cfg where
  /-- file ↦ its imports, in text order, already canonical.  A file absent from `G` is
      unreadable (read error). -/
  G : List (Nat × List Nat)
  /-- import depth limit; 0 = unlimited -/
  max : Nat
  /-- files whose content is bad: syntax error in the import pre-parse, truncated, … -/
  bad : List Nat
  /-- files that are fetched and scanned for imports normally but fail in the parse phase
      (syntax error in the body, foreign format that cannot be converted) -/
  badBody : List Nat := []
deriving Repr

def Cfg.imports (c : Cfg) (n : Nat) : List Nat := (c.G.lookup n).getD []
def Cfg.readable (c : Cfg) (n : Nat) : Bool := (c.G.lookup n).isSome
/-- a file that makes the compile fail when it is fetched -/
def Cfg.faulty (c : Cfg) (n : Nat) : Bool := !c.readable n || c.bad.contains n

structure St where
  claimed : List Nat            -- keys of `retrieved.l`, in claim order
  pending : List (Nat × Nat)    -- spawned collectSpecs calls not yet past the mutex (file, depth)
  reading : List (Nat × Nat)    -- claimed, read in flight
  done    : List Nat            -- read finished and imports recorded
  errs    : List Nat            -- files whose fetch returned an error
deriving Repr, DecidableEq

inductive Choice where
  | start  (i : Nat)   -- the i-th pending call runs its depth test and the mutex section
  | finish (i : Nat)   -- the i-th in-flight read completes
deriving Repr, DecidableEq

def init (root : Nat) : St := { claimed := [], pending := [(root, 0)], reading := [], done := [], errs := [] }

def step (c : Cfg) (s : St) : Choice → Option St
  | .start i =>
    match s.pending[i]? with
    | none => none
    | some (n, d) =>
      let p := s.pending.eraseIdx i
      if c.max > 0 ∧ d ≥ c.max then some { s with pending := p }
      else if n ∈ s.claimed then some { s with pending := p }
      else some { s with pending := p, claimed := s.claimed ++ [n], reading := s.reading ++ [(n, d)] }
  | .finish i =>
    match s.reading[i]? with
    | none => none
    | some (n, d) =>
      let r := s.reading.eraseIdx i
      if c.faulty n then some { s with reading := r, errs := s.errs ++ [n] }
      else some { s with reading := r, done := s.done ++ [n],
                         pending := s.pending ++ (c.imports n).map (fun ch => (ch, d + 1)) }

def run (c : Cfg) : List Choice → St → Option St
  | [], s => some s
  | ch :: rest, s => match step c s ch with
    | none => none
    | some s' => run c rest s'

def final (s : St) : Prop := s.pending = [] ∧ s.reading = []
instance (s : St) : Decidable (final s) := by unfold final; infer_instance

/-- reachability through import statements of readable, good files -/
inductive Reach (c : Cfg) (root : Nat) : Nat → Prop where
  | refl : Reach c root root
  | step {n ch : Nat} : Reach c root n → c.faulty n = false → ch ∈ c.imports n → Reach c root ch

/-- reachability with the number of import hops -/
inductive ReachN (c : Cfg) (root : Nat) : Nat → Nat → Prop where
  | refl : ReachN c root root 0
  | step {n ch d : Nat} : ReachN c root n d → ch ∈ c.imports n → ReachN c root ch (d + 1)

/-! ### flatten -/

/-- `flattenSpecs` as an explicit-stack pre-order DFS.  `rem` = retrieved files not yet
    emitted; `imps` = the recorded import lists. -/
def flattenW (imps : Nat → List Nat) : (rem : List Nat) → (stack : List Nat) → (acc : List Nat) → List Nat
  | _, [], acc => acc
  | rem, n :: st, acc =>
    if h : n ∈ rem then flattenW imps (rem.erase n) (imps n ++ st) (acc ++ [n])
    else flattenW imps rem st acc
termination_by rem st => (rem.length, st.length)
decreasing_by
  · apply Prod.Lex.left
    rw [List.length_erase_of_mem h]
    have := List.length_pos_of_mem h
    omega
  · apply Prod.Lex.right
    simp

def flatten (c : Cfg) (retrieved : List Nat) (root : Nat) : List Nat :=
  flattenW c.imports retrieved [root] []

/-- outcome of the whole collection for a finished state -/
inductive Outcome where
  | files (order : List Nat)
  | error (names : List Nat)
deriving Repr, DecidableEq

def outcome (c : Cfg) (root : Nat) (s : St) : Outcome :=
  if s.errs = [] then
    let order := flatten c s.claimed root
    match order.find? (fun f => c.badBody.contains f) with
    | some f => .error [f]          -- parseSpecs stops at the first file that does not parse
    | none => .files order
  else .error s.errs

/-- a deterministic scheduler used by the oracle: interprets a list of numbers as choices
    (even → start, odd → finish; index taken modulo the queue length; falls back to any
    enabled step), and runs until final or the fuel ends. -/
def drive (c : Cfg) : Nat → List Nat → St → St
  | 0, _, s => s
  | fuel + 1, ks, s =>
    if s.pending = [] ∧ s.reading = [] then s else
    let (k, ks') := match ks with | [] => (0, []) | k :: r => (k, r)
    let wantStart := k % 2 = 0
    let ch : Choice :=
      if (wantStart ∧ s.pending ≠ []) ∨ s.reading = [] then .start ((k / 2) % s.pending.length)
      else .finish ((k / 2) % s.reading.length)
    match step c s ch with
    | none => s
    | some s' => drive c fuel ks' s'

end SyslModel.Closure

namespace SyslModel.Closure

/-- run every pending call through its depth test / mutex section, oldest first -/
def startAll (c : Cfg) (s : St) : St :=
  s.pending.foldl (fun s _ => (step c s (.start 0)).getD s) s

/-- replay of a harness history: the reads complete in the given order; between two
    completions every spawned call has reached its read (or returned). -/
def replay (c : Cfg) : List Nat → St → Option St
  | [], s => some (startAll c s)
  | n :: rest, s =>
    let s := startAll c s
    match s.reading.findIdx? (fun p => p.1 == n) with
    | none => none
    | some i => match step c s (.finish i) with
      | none => none
      | some s' => replay c rest s'

end SyslModel.Closure
