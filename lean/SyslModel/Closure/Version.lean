/-
C05 — the key under which a file is claimed, and the version an import asks for.

`fileNameToIndex` (parse.go) cuts a cleaned import target at its first `@`: the part before is the file's
identity, whatever follows is the version (a tag, a branch, a branch with slashes in its name).
`collectSpecs` refuses a second import of a claimed file when the two versions differ, `master`, `main`
and `develop` counting as no version.  Core Lean only; strings as lists of characters.
-/
namespace SyslModel.Closure.Version

/-- the identity of a file: its target up to the first `@` -/
def index (s : List Char) : List Char := s.takeWhile (· != '@')

/-- the version an import target asks for: what follows the first `@` (nothing when there is none) -/
def version (s : List Char) : List Char := (s.dropWhile (· != '@')).drop 1

def defaults : List String := ["master", "main", "develop"]

/-- branch names that stand for "no particular version" -/
def effective (v : List Char) : List Char := if defaults.contains (String.ofList v) then [] else v

/-- two imports of one file ask for different versions: the second one is refused -/
def conflict (s₁ s₂ : List Char) : Bool := effective (version s₁) != effective (version s₂)

end SyslModel.Closure.Version
