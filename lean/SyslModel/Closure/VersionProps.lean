import SyslModel.Closure.Version

namespace SyslModel.Closure.Version

theorem takeWhile_append_stop (p : List Char) (v : List Char) (hp : ∀ c ∈ p, c ≠ '@') :
    (p ++ '@' :: v).takeWhile (· != '@') = p := by
  induction p with
  | nil => simp
  | cons c cs ih =>
    have hc : c ≠ '@' := hp c (by simp)
    have := ih (fun x hx => hp x (by simp [hx]))
    simp [hc, this]

theorem dropWhile_append_stop (p : List Char) (v : List Char) (hp : ∀ c ∈ p, c ≠ '@') :
    (p ++ '@' :: v).dropWhile (· != '@') = '@' :: v := by
  induction p with
  | nil => simp
  | cons c cs ih =>
    have hc : c ≠ '@' := hp c (by simp)
    have := ih (fun x hx => hp x (by simp [hx]))
    simp [hc, this]

/-! ## PROPERTY THEOREMS (C05: each file once, whatever version its imports spell) -/

/-- **index_of_versioned**: the identity of `path@version` is `path`, whatever characters the version
    consists of (slashes, dots, further `@`) -/
theorem index_of_versioned (p v : List Char) (hp : ∀ c ∈ p, c ≠ '@') : index (p ++ '@' :: v) = p :=
  takeWhile_append_stop p v hp

/-- **index_unversioned**: a target without `@` is its own identity -/
theorem index_unversioned (p : List Char) (hp : ∀ c ∈ p, c ≠ '@') : index p = p := by
  unfold index
  induction p with
  | nil => rfl
  | cons c cs ih =>
    have hc : c ≠ '@' := hp c (by simp)
    have := ih (fun x hx => hp x (by simp [hx]))
    rw [List.takeWhile_cons]
    simp [hc, this]

/-- **one_identity_any_version**: every version spelling of a file, and the unversioned one, claim the same key -/
theorem one_identity_any_version (p v w : List Char) (hp : ∀ c ∈ p, c ≠ '@') :
    index (p ++ '@' :: v) = index (p ++ '@' :: w) ∧ index (p ++ '@' :: v) = index p := by
  rw [index_of_versioned p v hp, index_of_versioned p w hp, index_unversioned p hp]
  exact ⟨rfl, rfl⟩

/-- **version_of_versioned**: the version of `path@version` is the whole of `version` -/
theorem version_of_versioned (p v : List Char) (hp : ∀ c ∈ p, c ≠ '@') : version (p ++ '@' :: v) = v := by
  unfold version
  rw [dropWhile_append_stop p v hp]
  rfl

theorem version_unversioned (p : List Char) (hp : ∀ c ∈ p, c ≠ '@') : version p = [] := by
  unfold version
  induction p with
  | nil => rfl
  | cons c cs ih =>
    have hc : c ≠ '@' := hp c (by simp)
    have := ih (fun x hx => hp x (by simp [hx]))
    rw [List.dropWhile_cons]
    simpa [hc] using this

/-- **conflict_iff**: for one file, a second import is refused exactly when the two effective versions differ -/
theorem conflict_iff (p v w : List Char) (hp : ∀ c ∈ p, c ≠ '@') :
    conflict (p ++ '@' :: v) (p ++ '@' :: w) = true ↔ effective v ≠ effective w := by
  unfold conflict
  rw [version_of_versioned p v hp, version_of_versioned p w hp]
  simp

theorem conflict_symm (a b : List Char) : conflict a b = conflict b a := by
  unfold conflict
  cases h : (effective (version a) != effective (version b)) <;> simp_all [bne_comm]

theorem conflict_irrefl (a : List Char) : conflict a a = false := by simp [conflict]

/-- the version written into the source contexts of a file's elements is that of the import that claimed the
    file, i.e. of the first arrival -/
def recorded (arrivals : List (List Char)) : Option (List Char) := arrivals.head?.map version

/-- **recorded_version_follows_arrival** (known finding of C05): two imports of one file that do not conflict
    can still leave different versions on record, depending on which arrives first -/
theorem recorded_version_follows_arrival :
    ∃ a b : List Char, index a = index b ∧ conflict a b = false ∧ recorded [a, b] ≠ recorded [b, a] :=
  ⟨"//h/o/r/x.sysl@main".toList, "//h/o/r/x.sysl@master".toList, by decide, by decide, by decide⟩

/-- the default branches and the unversioned spelling agree with each other; a tag or a branch with a
    slash in its name agrees with none of them (non-vacuity, on the spellings the harness uses) -/
example : conflict "//h/o/r/x.sysl@main".toList "//h/o/r/x.sysl".toList = false := by decide
example : conflict "//h/o/r/x.sysl@master".toList "//h/o/r/x.sysl@develop".toList = false := by decide
example : conflict "//h/o/r/x.sysl@feature/login".toList "//h/o/r/x.sysl@main".toList = true := by decide
example : conflict "//h/o/r/x.sysl@feature/login".toList "//h/o/r/x.sysl@v1.0.0".toList = true := by decide
example : index "//h/o/r/x.sysl@feature/login".toList = "//h/o/r/x.sysl".toList := by decide

end SyslModel.Closure.Version
