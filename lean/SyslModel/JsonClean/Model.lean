/-
C09 — `JsonClean`: the clean-up the JSON encoder's bytes go through.
pkg/pbutil/output.go rewrites the bytes protojson produced with
    (?m)^(\s*"[^"]*": ) <space>   →   $1
i.e. at the start of a line: optional white space, a quoted run without `"`, colon, space, and one
more space, which is dropped.  `clean` implements exactly that matcher (leftmost, non-overlapping;
every sub-pattern is deterministic: `\s*` is followed by `"`, `[^"]*` by `"`).
Core Lean only.
-/
namespace SyslModel.JsonClean

/-- RE2 `\s`: tab, newline, form feed, carriage return, space (vertical tab is not included) -/
def isSpace (c : Char) : Bool := c = ' ' || c = '\t' || c = '\n' || c = '\r' || c = '\x0c'

/-- try the pattern at the head of `s`: what is kept of the match, and what follows it -/
def tryMatch (s : List Char) : Option (List Char × List Char) :=
  let ws := s.takeWhile isSpace
  match s.dropWhile isSpace with
  | '"' :: r =>
    let k := r.takeWhile (· ≠ '"')
    match r.dropWhile (· ≠ '"') with
    | '"' :: ':' :: ' ' :: ' ' :: rest => some (ws ++ '"' :: k ++ ['"', ':', ' '], rest)
    | _ => none
  | _ => none

/-- scan left to right; `bol` says whether the head is at the beginning of a line -/
def cleanF : Nat → Bool → List Char → List Char
  | 0, _, s => s
  | _, _, [] => []
  | fuel + 1, bol, c :: cs =>
    match (if bol then tryMatch (c :: cs) else none) with
    | some (kept, rest) =>
      -- the scan resumes after the match; it is at a line start only if the match ended a line,
      -- which it cannot (it ends with a space)
      kept ++ cleanF fuel false rest
    | none => c :: cleanF fuel (c = '\n') cs

def clean (s : String) : String := String.ofList (cleanF (s.length + 1) true s.toList)

end SyslModel.JsonClean
