/-
C09 — `JsonClean`: the clean-up the JSON encoder's bytes go through.
pkg/pbutil/output.go rewrites the bytes protojson produced with
    (?m)^(\s*"(?:[^"\\]|\\.)*": ) <space>   →   $1
i.e. at the start of a line: optional white space, a whole JSON string (escapes included), colon,
space, and one more space, which is dropped.  `clean` implements exactly that matcher (leftmost,
non-overlapping; every sub-pattern is deterministic: `\s*` is followed by `"`, the string body
ends at the first unescaped `"`).  `cleanOld` is the matcher of the pattern before the repair
(`"[^"]*"`), kept to state what was wrong with it.
Core Lean only.
-/
namespace SyslModel.JsonClean

/-- RE2 `\s`: tab, newline, form feed, carriage return, space -/
def isSpace (c : Char) : Bool := c = ' ' || c = '\t' || c = '\n' || c = '\r' || c = '\x0c'

/-- the body of a JSON string: up to the first unescaped quote; `none` if there is none.
    `\\.` of the pattern does not match a newline (no `s` flag). -/
def strBody : List Char → Option (List Char × List Char)
  | [] => none
  | '"' :: rest => some ([], rest)
  | '\\' :: c :: rest =>
    if c = '\n' then none else
    match strBody rest with
    | some (b, r) => some ('\\' :: c :: b, r)
    | none => none
  | '\\' :: [] => none
  | c :: rest =>
    match strBody rest with
    | some (b, r) => some (c :: b, r)
    | none => none

/-- try the pattern at the head of `s`: what is kept of the match, and what follows it -/
def tryMatch (s : List Char) : Option (List Char × List Char) :=
  match s.dropWhile isSpace with
  | '"' :: r =>
    match strBody r with
    | some (k, ':' :: ' ' :: ' ' :: rest) => some (s.takeWhile isSpace ++ '"' :: k ++ ['"', ':', ' '], rest)
    | _ => none
  | _ => none

/-- the matcher of the pattern before the repair: the "string" ends at the first quote, escaped or not -/
def tryMatchOld (s : List Char) : Option (List Char × List Char) :=
  match s.dropWhile isSpace with
  | '"' :: r =>
    match r.dropWhile (· ≠ '"') with
    | '"' :: ':' :: ' ' :: ' ' :: rest => some (s.takeWhile isSpace ++ '"' :: r.takeWhile (· ≠ '"') ++ ['"', ':', ' '], rest)
    | _ => none
  | _ => none

/-- scan left to right; `bol` says whether the head is at the beginning of a line -/
def cleanWith (m : List Char → Option (List Char × List Char)) : Nat → Bool → List Char → List Char
  | 0, _, s => s
  | _, _, [] => []
  | fuel + 1, bol, c :: cs =>
    match (if bol then m (c :: cs) else none) with
    | some (kept, rest) => kept ++ cleanWith m fuel false rest
    | none => c :: cleanWith m fuel (c = '\n') cs

def cleanL (s : List Char) : List Char := cleanWith tryMatch (s.length + 1) true s
def cleanOldL (s : List Char) : List Char := cleanWith tryMatchOld (s.length + 1) true s

def clean (s : String) : String := String.ofList (cleanL s.toList)

end SyslModel.JsonClean
