import SyslModel.Core.Proto
import SyslModel.JsonClean.Model

namespace SyslModel.JsonClean
open Lean (Json)
open SyslModel.Proto

def handle (op : String) (j : Json) : Option Json :=
  match op with
  | "jsonclean.clean" => some (Json.mkObj [("text", Json.str (clean (strD j "text")))])
  | _ => none

end SyslModel.JsonClean
