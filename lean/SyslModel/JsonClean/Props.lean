import SyslModel.JsonClean.Model

namespace SyslModel.JsonClean

theorem strBody_spec (s b r : List Char) (h : strBody s = some (b, r)) : s = b ++ '"' :: r := by
  fun_induction strBody s generalizing b r <;> simp_all
  all_goals (obtain ⟨rfl, rfl⟩ := h; simp)

theorem takeWhile_dropWhile (p : Char → Bool) (s : List Char) : s.takeWhile p ++ s.dropWhile p = s :=
  List.takeWhile_append_dropWhile

/-- what a match keeps plus one space plus what follows it is the text it matched in -/
theorem tryMatch_spec (s kept rest : List Char) (h : tryMatch s = some (kept, rest)) : s = kept ++ ' ' :: rest := by
  unfold tryMatch at h
  split at h
  · rename_i r hd
    split at h
    · rename_i k rest' hb
      simp only [Option.some.injEq, Prod.mk.injEq] at h
      obtain ⟨rfl, rfl⟩ := h
      have e := strBody_spec r k _ hb
      have := takeWhile_dropWhile isSpace s
      rw [hd, e] at this
      conv => lhs; rw [← this]
      simp [List.append_assoc]
    · simp at h
  · simp at h

def nosp (c : Char) : Bool := c != ' '

/-! ## PROPERTY THEOREMS (C09) -/

/-- **clean_removes_only_spaces**: the clean-up changes nothing but spaces: with every space
    taken out, the bytes before and after are the same -/
theorem cleanWith_nonspace (fuel : Nat) (bol : Bool) (s : List Char) :
    (cleanWith tryMatch fuel bol s).filter nosp = s.filter nosp := by
  induction fuel generalizing bol s with
  | zero => simp [cleanWith]
  | succ n ih =>
    cases s with
    | nil => simp [cleanWith]
    | cons c cs =>
      simp only [cleanWith]
      cases bol with
      | false =>
        have : (if false = true then tryMatch (c :: cs) else none) = none := by simp
        simp only [this, List.filter_cons, ih]
      | true =>
        simp only [if_true]
        cases hm : tryMatch (c :: cs) with
        | none => simp only [List.filter_cons, ih]
        | some p =>
          obtain ⟨kept, rest⟩ := p
          have e := tryMatch_spec _ _ _ hm
          simp only
          rw [e, List.filter_append, List.filter_append, ih]
          simp [nosp]

theorem clean_removes_only_spaces (s : List Char) : (cleanL s).filter nosp = s.filter nosp :=
  cleanWith_nonspace _ _ _

/-- **string_value_untouched**: a line that is a JSON string value containing `\":` followed by
    two spaces (the element `K":  v` of a string array, as protojson writes it) comes out
    unchanged ... -/
theorem string_value_untouched :
    cleanL "  \"part\": [\n   \"K\\\":  v\"\n  ]".toList = "  \"part\": [\n   \"K\\\":  v\"\n  ]".toList := by
  decide

/-- ... whereas the pattern before the repair took `"K\"` for a key and removed a space from
    inside the value: the decoded name was no longer the name that was encoded -/
theorem old_pattern_alters_string_value :
    cleanOldL "  \"part\": [\n   \"K\\\":  v\"\n  ]".toList = "  \"part\": [\n   \"K\\\": v\"\n  ]".toList := by
  decide

/-- the extra space after a key is removed (what the clean-up is for) -/
example : cleanL " \"name\":  \"x\"\n \"a\":  {\n".toList = " \"name\": \"x\"\n \"a\": {\n".toList := by decide

end SyslModel.JsonClean
