/-
C11 — `Escape`: how the importers make a foreign name safe for Sysl text.
`escapeUnsafeSyslChars` (pkg/importer/utils.go) URL-path-escapes the name and then also escapes
`. : + $ &`; the compiler reads `%XX` back (`MustUnescape`).  A name is a list of bytes; a byte is
kept if it is a letter, a digit or one of `- _ ~ = @`, anything else becomes `%` and two upper-case
hexadecimal digits.
Core Lean only.
-/
namespace SyslModel.Escape

def isAlnum (b : Nat) : Bool := (48 ≤ b && b ≤ 57) || (65 ≤ b && b ≤ 90) || (97 ≤ b && b ≤ 122)

/-- bytes left as they are: unreserved characters and the sub-delimiters url.PathEscape keeps,
    minus the ones the importer escapes itself (`. : + $ &`) -/
def safe (b : Nat) : Bool := isAlnum b || b = 45 || b = 95 || b = 126 || b = 61 || b = 64

def hexDigit (n : Nat) : Nat := if n < 10 then 48 + n else 55 + n     -- '0'..'9', 'A'..'F'

def unhex (c : Nat) : Option Nat :=
  if 48 ≤ c ∧ c ≤ 57 then some (c - 48)
  else if 65 ≤ c ∧ c ≤ 70 then some (c - 55)
  else if 97 ≤ c ∧ c ≤ 102 then some (c - 87)
  else none

/-- escape a name given as bytes (each < 256) into the bytes written to the Sysl text -/
def escape : List Nat → List Nat
  | [] => []
  | b :: bs => if safe b then b :: escape bs else 37 :: hexDigit (b / 16) :: hexDigit (b % 16) :: escape bs

/-- reader state: plain text, after `%`, after `%` and one hexadecimal digit -/
inductive St where
  | normal
  | p1
  | p2 (hi : Nat)

/-- what the compiler reads back (`url.PathUnescape`): `%XX` becomes a byte, a malformed escape is an error -/
def unescapeSt : St → List Nat → Option (List Nat)
  | .normal, [] => some []
  | .p1, [] => none
  | .p2 _, [] => none
  | .normal, c :: rest => if c = 37 then unescapeSt .p1 rest else (unescapeSt .normal rest).map (c :: ·)
  | .p1, c :: rest => match unhex c with
    | some a => unescapeSt (.p2 a) rest
    | none => none
  | .p2 a, c :: rest => match unhex c with
    | some b => (unescapeSt .normal rest).map ((a * 16 + b) :: ·)
    | none => none

def unescape (s : List Nat) : Option (List Nat) := unescapeSt .normal s

end SyslModel.Escape
