import SyslModel.Escape.Model

namespace SyslModel.Escape

theorem unhex_hexDigit (n : Nat) (h : n < 16) : unhex (hexDigit n) = some n := by
  unfold hexDigit unhex
  split <;> rename_i hn
  · have : 48 ≤ 48 + n ∧ 48 + n ≤ 57 := ⟨by omega, by omega⟩
    simp [this]
  · have h1 : ¬(48 ≤ 55 + n ∧ 55 + n ≤ 57) := by omega
    have h2 : 65 ≤ 55 + n ∧ 55 + n ≤ 70 := ⟨by omega, by omega⟩
    simp [h1, h2]

theorem safe_ne_percent (b : Nat) (h : safe b = true) : b ≠ 37 := by
  intro e; subst e; simp [safe, isAlnum] at h

/-! ## PROPERTY THEOREMS (C11) -/

/-- **unescape_escape**: whatever bytes a foreign name consists of, the compiler reads the escaped
    name back as exactly those bytes -/
theorem unescape_escape (bs : List Nat) (h : ∀ b ∈ bs, b < 256) : unescape (escape bs) = some bs := by
  induction bs with
  | nil => rfl
  | cons b bs ih =>
    have hb : b < 256 := h b (by simp)
    have ih' := ih (fun c hc => h c (by simp [hc]))
    unfold escape
    split
    · rename_i hs
      have hne := safe_ne_percent b hs
      simp only [unescape] at ih' ⊢
      simp [unescapeSt, hne, ih']
    · have e : b / 16 * 16 + b % 16 = b := by omega
      simp only [unescape] at ih' ⊢
      simp [unescapeSt, unhex_hexDigit (b / 16) (by omega), unhex_hexDigit (b % 16) (Nat.mod_lt _ (by decide)), ih', e]

/-- **escape_is_safe**: the escaped name consists only of letters, digits, `- _ ~ = @` and `%` -/
theorem escape_is_safe (bs : List Nat) (h : ∀ b ∈ bs, b < 256) : ∀ c ∈ escape bs, safe c = true ∨ c = 37 := by
  induction bs with
  | nil => simp [escape]
  | cons b bs ih =>
    have hb : b < 256 := h b (by simp)
    have ih' := ih (fun c hc => h c (by simp [hc]))
    unfold escape
    split
    · rename_i hs
      intro c hc
      simp only [List.mem_cons] at hc
      rcases hc with rfl | hc
      · exact Or.inl hs
      · exact ih' c hc
    · intro c hc
      simp only [List.mem_cons] at hc
      have hd : ∀ n, n < 16 → safe (hexDigit n) = true := by
        intro n hn
        unfold hexDigit safe isAlnum
        split <;> simp <;> omega
      rcases hc with rfl | rfl | rfl | hc
      · exact Or.inr rfl
      · exact Or.inl (hd _ (by omega))
      · exact Or.inl (hd _ (Nat.mod_lt _ (by decide)))
      · exact ih' c hc

/-- **escape_injective**: two different foreign names never collide after escaping -/
theorem escape_injective (a b : List Nat) (ha : ∀ x ∈ a, x < 256) (hb : ∀ x ∈ b, x < 256) (h : escape a = escape b) : a = b := by
  have := congrArg unescape h
  rw [unescape_escape a ha, unescape_escape b hb] at this
  exact Option.some.inj this

/-- non-vacuity: `a.b`, a space, `née` (UTF-8 bytes) -/
example : escape [97, 46, 98] = [97, 37, 50, 69, 98] := by decide
example : unescape (escape [110, 195, 169, 101, 32, 58]) = some [110, 195, 169, 101, 32, 58] := by decide

end SyslModel.Escape
