/-
C16 — theorems about the database-script model: reference depths are well founded, the
emission order is a permutation sorted by depth, hence every table is created once and only
after every table it references.
-/
import SyslModel.DbScript.Model

namespace SyslModel.DbScript

/-! ## helper lemmas -/

theorem lookup_append_some {α} (l m : List (String × α)) (k : String) (v : α)
    (h : l.lookup k = some v) : (l ++ m).lookup k = some v := by
  induction l with
  | nil => simp [List.lookup] at h
  | cons p rest ih =>
    obtain ⟨a, b⟩ := p
    simp only [List.cons_append, List.lookup]
    by_cases e : k == a
    · simp [List.lookup, e] at h ⊢; exact h
    · simp [List.lookup, e] at h ⊢; exact ih h

/-- what `tryDepth` guarantees about each reference when it succeeds -/
theorem tryDepth_spec (s : Schema) (done : List (String × Nat)) (refs : List (String × String))
    (d0 d : Nat)
    (h : refs.foldl (fun acc r =>
      match acc with
      | none => none
      | some d =>
        match done.lookup r.1, s.find r.1 with
        | some dt, some tt => if (tt.col r.2).isSome then some (max d (dt + 1)) else none
        | _, _ => none) (some d0) = some d) :
    d0 ≤ d ∧ ∀ r ∈ refs, ∃ du, done.lookup r.1 = some du ∧ du < d := by
  induction refs generalizing d0 with
  | nil => simp at h; subst h; exact ⟨Nat.le_refl _, by simp⟩
  | cons r rest ih =>
    simp only [List.foldl_cons] at h
    cases hl : done.lookup r.1 with
    | none =>
      simp only [hl] at h
      have : ∀ (l : List (String × String)), l.foldl (fun acc r =>
          match acc with
          | none => none
          | some d =>
            match done.lookup r.1, s.find r.1 with
            | some dt, some tt => if (tt.col r.2).isSome then some (max d (dt + 1)) else none
            | _, _ => none) (none : Option Nat) = none := by
        intro l; induction l with
        | nil => rfl
        | cons x xs ihx => simpa using ihx
      rw [this] at h; cases h
    | some du =>
      cases hf : s.find r.1 with
      | none =>
        simp only [hl, hf] at h
        have : ∀ (l : List (String × String)), l.foldl (fun acc r =>
            match acc with
            | none => none
            | some d =>
              match done.lookup r.1, s.find r.1 with
              | some dt, some tt => if (tt.col r.2).isSome then some (max d (dt + 1)) else none
              | _, _ => none) (none : Option Nat) = none := by
          intro l; induction l with
          | nil => rfl
          | cons x xs ihx => simpa using ihx
        rw [this] at h; cases h
      | some tt =>
        simp only [hl, hf] at h
        by_cases hc : (tt.col r.2).isSome
        · simp only [hc, if_true] at h
          obtain ⟨hle, hall⟩ := ih (max d0 (du + 1)) h
          refine ⟨by omega, ?_⟩
          intro x hx
          simp at hx
          rcases hx with rfl | hx
          · exact ⟨du, hl, by omega⟩
          · exact hall x hx
        · simp only [hc] at h
          have : ∀ (l : List (String × String)), l.foldl (fun acc r =>
              match acc with
              | none => none
              | some d =>
                match done.lookup r.1, s.find r.1 with
                | some dt, some tt => if (tt.col r.2).isSome then some (max d (dt + 1)) else none
                | _, _ => none) (none : Option Nat) = none := by
            intro l; induction l with
            | nil => rfl
            | cons x xs ihx => simpa using ihx
          simp at h
          rw [this] at h; cases h

def UniqueNames (s : Schema) : Prop := ∀ a ∈ s, ∀ b ∈ s, a.name = b.name → a = b

/-- every recorded depth is justified: all reference targets are recorded with a smaller depth -/
def Justified (s : Schema) (done : List (String × Nat)) : Prop :=
  ∀ t ∈ s, ∀ d, done.lookup t.name = some d →
    ∀ r ∈ t.refs, ∃ du, done.lookup r.1 = some du ∧ du < d

theorem lookup_append_none {α} (l : List (String × α)) (k k' : String) (v : α)
    (h : l.lookup k = none) : (l ++ [(k', v)]).lookup k = if k == k' then some v else none := by
  induction l with
  | nil => simp [List.lookup]; split <;> simp_all
  | cons p rest ih =>
    obtain ⟨a, b⟩ := p
    cases hka : (k == a) with
    | true => simp only [List.lookup, hka] at h; cases h
    | false =>
      simp only [List.cons_append, List.lookup, hka] at h ⊢
      exact ih h

theorem mem_lookup_ne_none (l : List (String × Nat)) (k : String) (v : Nat) (hm : (k, v) ∈ l) :
    ∃ w, l.lookup k = some w := by
  induction l with
  | nil => cases hm
  | cons p rest ih =>
    obtain ⟨a, b⟩ := p
    simp only [List.lookup]
    by_cases e : k == a
    · simp [e]
    · simp [e]
      apply ih
      simp at hm
      rcases hm with ⟨rfl, _⟩ | hm
      · simp at e
      · exact hm

theorem justified_append (s : Schema) (done : List (String × Nat)) (t : Table) (d : Nat)
    (hu : UniqueNames s) (hj : Justified s done) (ht : t ∈ s) (hd : tryDepth s done t = some d) :
    Justified s (done ++ [(t.name, d)]) := by
  intro u hus d' hl r hr
  cases hq : done.lookup u.name with
  | some v =>
    have := lookup_append_some done [(t.name, d)] u.name v hq
    rw [this] at hl; cases hl
    obtain ⟨du, h1, h2⟩ := hj u hus d' hq r hr
    exact ⟨du, lookup_append_some _ _ _ _ h1, h2⟩
  | none =>
    rw [lookup_append_none done u.name t.name d hq] at hl
    by_cases e : u.name == t.name
    · simp [e] at hl; subst hl
      have : u = t := hu u hus t ht (by simpa using e)
      subst this
      obtain ⟨_, hall⟩ := tryDepth_spec s done u.refs 0 d hd
      obtain ⟨du, h1, h2⟩ := hall r hr
      exact ⟨du, lookup_append_some _ _ _ _ h1, h2⟩
    · simp [e] at hl

theorem pass_spec (s : Schema) (hu : UniqueNames s) (todo : List Table) (done : List (String × Nat)) (left : List Table)
    (hj : Justified s done) (ht : ∀ t ∈ todo, t ∈ s) (hl : ∀ t ∈ left, t ∈ s) :
    Justified s (pass s todo done left).1 ∧ (∀ t ∈ (pass s todo done left).2, t ∈ s) ∧
    (∀ t ∈ todo, (∃ d, (t.name, d) ∈ (pass s todo done left).1) ∨ t ∈ (pass s todo done left).2) ∧
    (∀ p ∈ done, p ∈ (pass s todo done left).1) ∧ (∀ t ∈ left, t ∈ (pass s todo done left).2) := by
  induction todo generalizing done left with
  | nil =>
    simp only [pass]
    exact ⟨hj, by intro t h; exact hl t (by simpa using h), by simp, fun p h => h, by intro t h; simpa using h⟩
  | cons t rest ih =>
    simp only [pass]
    cases hd : tryDepth s done t with
    | some d =>
      simp only
      have hj' := justified_append s done t d hu hj (ht t (by simp)) hd
      obtain ⟨a, b, c, e, f⟩ := ih (done ++ [(t.name, d)]) left hj' (fun u hu => ht u (by simp [hu])) hl
      refine ⟨a, b, ?_, fun p hp => e p (by simp [hp]), f⟩
      intro u hu
      simp at hu
      rcases hu with rfl | hu
      · exact Or.inl ⟨d, e _ (by simp)⟩
      · exact c u hu
    | none =>
      simp only
      obtain ⟨a, b, c, e, f⟩ := ih done (t :: left) hj (fun u hu => ht u (by simp [hu]))
        (by intro u hu; simp at hu; rcases hu with rfl | hu; exact ht _ (by simp); exact hl u hu)
      refine ⟨a, b, ?_, e, fun u hu => f u (by simp [hu])⟩
      intro u hu
      simp at hu
      rcases hu with rfl | hu
      · exact Or.inr (f _ (by simp))
      · exact c u hu

theorem depthsF_spec (s : Schema) (hu : UniqueNames s) (fuel : Nat) (done : List (String × Nat)) (inc : List Table)
    (D : List (String × Nat)) (hj : Justified s done) (hi : ∀ t ∈ inc, t ∈ s)
    (h : depthsF s fuel done inc = some D) :
    Justified s D ∧ (∀ t ∈ inc, ∃ d, (t.name, d) ∈ D) ∧ (∀ p ∈ done, p ∈ D) := by
  induction fuel generalizing done inc with
  | zero =>
    cases inc with
    | nil => simp [depthsF] at h; subst h; exact ⟨hj, by simp, fun p hp => hp⟩
    | cons t rest => simp [depthsF] at h
  | succ n ih =>
    cases inc with
    | nil => simp [depthsF] at h; subst h; exact ⟨hj, by simp, fun p hp => hp⟩
    | cons t rest =>
      simp only [depthsF] at h
      split at h
      · cases h
      · obtain ⟨a, b, c, e, _⟩ := pass_spec s hu (t :: rest) done [] hj hi (by simp)
        obtain ⟨x, y, z⟩ := ih _ _ a b h
        refine ⟨x, ?_, fun p hp => z p (e p hp)⟩
        intro u hu
        rcases c u hu with ⟨d, hd⟩ | hleft
        · exact ⟨d, z _ hd⟩
        · exact y u hleft

/-! sorting -/

theorem insertBy_perm {α} (key : α → Key) (x : α) (l : List α) : (insertBy key x l).Perm (x :: l) := by
  induction l with
  | nil => simp [insertBy]
  | cons y ys ih =>
    simp only [insertBy]
    split
    · exact List.Perm.refl _
    · exact (List.Perm.cons y ih).trans (List.Perm.swap x y ys)

theorem sortBy_perm {α} (key : α → Key) (l : List α) : (sortBy key l).Perm l := by
  induction l with
  | nil => simp [sortBy]
  | cons x xs ih =>
    simp only [sortBy, List.foldr_cons]
    exact (insertBy_perm key x _).trans (List.Perm.cons x ih)

theorem before_false_ge (a b : Key) (h : a.before b = false) : b.1 ≤ a.1 := by
  simp only [Key.before, Bool.or_eq_false_iff, decide_eq_false_iff_not] at h
  omega

theorem before_true_le (a b : Key) (h : a.before b = true) : a.1 ≤ b.1 := by
  simp only [Key.before, Bool.or_eq_true, decide_eq_true_eq, Bool.and_eq_true, beq_iff_eq] at h
  rcases h with h | ⟨h, _⟩ <;> omega

theorem insertBy_sorted {α} (key : α → Key) (x : α) (l : List α)
    (h : l.Pairwise (fun a b => (key a).1 ≤ (key b).1)) :
    (insertBy key x l).Pairwise (fun a b => (key a).1 ≤ (key b).1) := by
  induction l with
  | nil => simp [insertBy]
  | cons y ys ih =>
    simp only [insertBy]
    rw [List.pairwise_cons] at h
    cases hb : (key x).before (key y) with
    | true =>
      simp only [if_true]
      have hxy := before_true_le _ _ hb
      rw [List.pairwise_cons]
      refine ⟨?_, by rw [List.pairwise_cons]; exact h⟩
      intro z hz
      simp at hz
      rcases hz with rfl | hz
      · exact hxy
      · exact Nat.le_trans hxy (h.1 z hz)
    | false =>
      simp only [Bool.false_eq_true, if_false]
      have hyx := before_false_ge _ _ hb
      rw [List.pairwise_cons]
      refine ⟨?_, ih h.2⟩
      intro z hz
      have := (insertBy_perm key x ys).mem_iff.1 hz
      simp at this
      rcases this with rfl | hz'
      · exact hyx
      · exact h.1 z hz'

theorem sortBy_sorted {α} (key : α → Key) (l : List α) :
    (sortBy key l).Pairwise (fun a b => (key a).1 ≤ (key b).1) := by
  induction l with
  | nil => simp [sortBy]
  | cons x xs ih => simp only [sortBy, List.foldr_cons]; exact insertBy_sorted key x _ ih

/-! ## PROPERTY THEOREMS (C16) -/

/-- **depths_justified**: when the depth computation ends, every table of the schema has a
    depth, and every reference of every table points to a table with a strictly smaller depth —
    whatever order the passes visit the tables in (the order is the list order of `s`, and `s`
    is arbitrary). -/
theorem depths_justified (s : Schema) (hu : UniqueNames s) (D : List (String × Nat)) (h : depths s = some D) :
    Justified s D ∧ ∀ t ∈ s, ∃ d, D.lookup t.name = some d := by
  have := depthsF_spec s hu (s.length + 1) [] s D (by intro t _ d hl; simp [List.lookup] at hl) (fun t ht => ht) h
  refine ⟨this.1, ?_⟩
  intro t ht
  obtain ⟨d, hd⟩ := this.2.1 t ht
  exact mem_lookup_ne_none D t.name d hd

/-- **order_perm**: the emission order contains every table of the schema exactly as often
    as the schema does (each table once) -/
theorem order_perm (s : Schema) (D : List (String × Nat)) : (tableOrder s D).Perm s :=
  sortBy_perm _ s

/-- **order_sorted**: tables are emitted in non-decreasing depth -/
theorem order_sorted (s : Schema) (D : List (String × Nat)) :
    (tableOrder s D).Pairwise (fun a b => depthIn D a ≤ depthIn D b) :=
  sortBy_sorted (fun t => (depthIn D t, t.line, t.name)) s

/-- **create_topo** (C16, first sentence): for every schema with distinct table names whose
    depth computation ends, a table `u` referenced by a table `t` has a strictly smaller depth
    and therefore stands strictly before `t` in the emission order. -/
theorem create_topo (s : Schema) (hu : UniqueNames s) (D : List (String × Nat)) (h : depths s = some D)
    (t u : Table) (ht : t ∈ s) (hus : u ∈ s) (r : String × String) (hr : r ∈ t.refs) (hru : u.name = r.1) :
    depthIn D u < depthIn D t ∧
    ∀ pre post, tableOrder s D = pre ++ t :: post → u ∈ pre := by
  obtain ⟨hj, hall⟩ := depths_justified s hu D h
  obtain ⟨dt, hdt⟩ := hall t ht
  obtain ⟨du, h1, h2⟩ := hj t ht dt hdt r hr
  have key : depthIn D u < depthIn D t := by
    simp only [depthIn, hru, h1, hdt, Option.getD_some]; exact h2
  refine ⟨key, ?_⟩
  intro pre post he
  have hmem : u ∈ tableOrder s D := (order_perm s D).mem_iff.2 hus
  rw [he] at hmem
  simp at hmem
  rcases hmem with hp | rfl | hp
  · exact hp
  · omega
  · have hs := order_sorted s D
    rw [he, List.pairwise_append] at hs
    have := (List.pairwise_cons.1 hs.2.1).1 u hp
    omega

/-- every reference target exists among the tables when the computation ends -/
theorem refs_resolve (s : Schema) (hu : UniqueNames s) (D : List (String × Nat)) (h : depths s = some D)
    (t : Table) (ht : t ∈ s) (r : String × String) (hr : r ∈ t.refs) : ∃ du, D.lookup r.1 = some du := by
  obtain ⟨hj, hall⟩ := depths_justified s hu D h
  obtain ⟨dt, hdt⟩ := hall t ht
  obtain ⟨du, h1, _⟩ := hj t ht dt hdt r hr
  exact ⟨du, h1⟩

/-- a self-referencing or cyclic schema never gets depths (the Go code then recurses without
    bound): witness -/
theorem cyclic_diverges :
    depths [⟨"A", 1, [⟨"id", 2, .prim "integer", true, false⟩, ⟨"b", 3, .ref "B" "id", false, false⟩]⟩,
            ⟨"B", 5, [⟨"id", 6, .prim "integer", true, false⟩, ⟨"a", 7, .ref "A" "id", false, false⟩]⟩] = none := by
  decide

/-- non-vacuity: a three-table chain has depths 0,1,2 and is emitted in dependency order even
    though the source lists it in reverse -/
example :
    let s : Schema := [⟨"C", 1, [⟨"b", 2, .ref "B" "id", false, false⟩]⟩,
                       ⟨"B", 4, [⟨"id", 5, .prim "integer", true, false⟩, ⟨"a", 6, .ref "A" "id", false, false⟩]⟩,
                       ⟨"A", 8, [⟨"id", 9, .prim "integer", true, false⟩]⟩]
    depths s = some [("A", 0), ("B", 1), ("C", 2)] ∧
    (tableOrder s [("A", 0), ("B", 1), ("C", 2)]).map (·.name) = ["A", "B", "C"] := by decide

end SyslModel.DbScript
