/-
C16 — model of pkg/database: reference-depth fix-point (db_utils.go:14-97), table and column
emission order (databasescriptview.go:60-98, postgres.go:12-43), CREATE and delta statement
assembly (postgres.go), and `Sql.exec`, a reference interpreter for exactly the emitted DDL
subset.  Core Lean only.
-/
namespace SyslModel.DbScript

inductive ColTy where
  | prim (sqlType : String)            -- already mapped: integer, date, varchar (n), bigserial…
  | ref (table : String) (col : String)
deriving Repr, DecidableEq, BEq

structure Col where
  name : String
  line : Nat
  ty   : ColTy
  pk   : Bool
  auto : Bool := false
deriving Repr, DecidableEq

structure Table where
  name : String
  line : Nat
  cols : List Col
deriving Repr, DecidableEq

abbrev Schema := List Table

def Schema.find (s : Schema) (n : String) : Option Table := List.find? (fun t => t.name == n) s
def Table.col (t : Table) (n : String) : Option Col := t.cols.find? (fun c => c.name == n)

/-- foreign-key targets of a table: (table, column) pairs -/
def Table.refs (t : Table) : List (String × String) :=
  t.cols.filterMap (fun c => match c.ty with | .ref a b => some (a, b) | _ => none)

/-- `findTableDepth`: a table completes when every reference target `T.c` has been visited,
    i.e. T is already complete and has a column c.  `done` = completed tables with depth. -/
def tryDepth (s : Schema) (done : List (String × Nat)) (t : Table) : Option Nat :=
  t.refs.foldl (fun acc r =>
    match acc with
    | none => none
    | some d =>
      match done.lookup r.1, s.find r.1 with
      | some dt, some tt => if (tt.col r.2).isSome then some (max d (dt + 1)) else none
      | _, _ => none) (some 0)

/-- one pass of `processTableDepth` over the incomplete tables, in the given order
    (Go ranges over a map: the order is arbitrary).  A table completed earlier in the pass is
    visible to the later ones, exactly as in the Go loop. -/
def pass (s : Schema) : List Table → List (String × Nat) → List Table → List (String × Nat) × List Table
  | [], done, left => (done, left.reverse)
  | t :: rest, done, left =>
    match tryDepth s done t with
    | some d => pass s rest (done ++ [(t.name, d)]) left
    | none => pass s rest done (t :: left)

/-- repeat passes until nothing is incomplete.  Go recurses without a progress check; fuel
    exhaustion (`none`) models the unbounded recursion. -/
def depthsF (s : Schema) : Nat → List (String × Nat) → List Table → Option (List (String × Nat))
  | _, done, [] => some done
  | 0, _, _ :: _ => none
  | fuel + 1, done, inc =>
    let r := pass s inc done []
    if r.2.length = inc.length then none   -- no progress: the Go code recurses forever
    else depthsF s fuel r.1 r.2

def depths (s : Schema) : Option (List (String × Nat)) := depthsF s (s.length + 1) [] s

/-- sort key: (depth, source line, name), compared lexicographically -/
abbrev Key := Nat × Nat × String

def Key.before (a b : Key) : Bool :=
  decide (a.1 < b.1) || (a.1 == b.1 && (decide (a.2.1 < b.2.1) || (a.2.1 == b.2.1 && decide (a.2.2 < b.2.2))))

/-- insertion into a list sorted by key -/
def insertBy {α} (key : α → Key) (x : α) : List α → List α
  | [] => [x]
  | y :: ys => if (key x).before (key y) then x :: y :: ys else y :: insertBy key x ys

def sortBy {α} (key : α → Key) (l : List α) : List α := l.foldr (insertBy key) []

def depthIn (d : List (String × Nat)) (t : Table) : Nat := (d.lookup t.name).getD 0

/-- emission order of tables: depth ascending, then source line, then name -/
def tableOrder (s : Schema) (d : List (String × Nat)) : List Table :=
  sortBy (fun t => (depthIn d t, t.line, t.name)) s

def colOrder (t : Table) : List Col := sortBy (fun c => (0, c.line, c.name)) t.cols

/-! ### emitted DDL -/

inductive DDL where
  | createTable (name : String) (cols : List (String × String)) (pk : List String)
      (fks : List (String × String × String))        -- (column, target table, target column)
  | addColumn (t c ty : String)
  | dropColumn (t c : String)
  | alterType (t c ty : String)
  | addFk (t c rt rc : String)
  | dropConstraint (t name : String)
  | addPk (t : String) (cols : List String)
  | other (text : String)                              -- sequences etc.: no effect on the catalog
deriving Repr, DecidableEq

/-- data type of a column as the script writes it; `vis` = visitedAttributes (T.c ↦ type) -/
def colSqlType (vis : List (String × String)) (c : Col) : String :=
  match c.ty with
  | .ref a b => (vis.lookup (a ++ "." ++ b)).getD ""
  | .prim ty => if c.auto then "bigserial" else ty

def visType (vis : List (String × String)) (c : Col) : String :=
  match c.ty with
  | .ref a b => (vis.lookup (a ++ "." ++ b)).getD ""
  | .prim ty => if c.auto then "bigint" else ty

def createOne (vis : List (String × String)) (t : Table) : DDL × List (String × String) :=
  let cols := colOrder t
  let step := fun (acc : List (String × String) × List (String × String)) (c : Col) =>
    let ty := colSqlType acc.2 c
    (acc.1 ++ [(c.name, ty)], acc.2 ++ [(t.name ++ "." ++ c.name, visType acc.2 c)])
  let r := cols.foldl step ([], vis)
  let pk := (cols.filter (·.pk)).map (·.name)
  let fks := cols.filterMap (fun c => match c.ty with | .ref a b => some (c.name, a, b) | _ => none)
  (.createTable t.name r.1 pk fks, r.2)

def createAll : List (String × String) → List Table → List DDL
  | _, [] => []
  | vis, t :: rest => let r := createOne vis t; r.1 :: createAll r.2 rest

def create (s : Schema) : Option (List DDL) :=
  match depths s with
  | none => none
  | some d => some (createAll [] (tableOrder s d))

/-! ### reference interpreter for the emitted subset -/

structure CatCol where
  name : String
  ty   : String
deriving Repr, DecidableEq

structure CatTable where
  name : String
  cols : List CatCol
  pk   : List String
  fks  : List (String × String × String)   -- column, target table, target column
deriving Repr, DecidableEq

abbrev Catalog := List CatTable

inductive SqlErr where
  | dupTable (t : String) | noTable (t : String) | noColumn (t c : String)
  | dupColumn (t c : String) | dupConstraint (t n : String) | badFk (t c rt rc : String) | noConstraint (t n : String) | dupPk (t : String)
deriving Repr, DecidableEq

def Catalog.get (c : Catalog) (n : String) : Option CatTable := List.find? (fun t => t.name == n) c
def Catalog.set (c : Catalog) (t : CatTable) : Catalog := c.map (fun u => if u.name == t.name then t else u)
def CatTable.has (t : CatTable) (c : String) : Bool := t.cols.any (·.name == c)

def fkTargetOk (cat : Catalog) (self : CatTable) (rt rc : String) : Bool :=
  if rt == self.name then self.has rc else
  match cat.get rt with
  | some t => t.has rc
  | none => false

def pkName (t : String) : String := t.toUpper ++ "_PK"
def fkName (t c : String) : String := (t ++ "_" ++ c ++ "_FK").toUpper

def exec (cat : Catalog) : DDL → Except SqlErr Catalog
  | .createTable n cols pk fks =>
    if (cat.get n).isSome then .error (.dupTable n) else
    let t : CatTable := { name := n, cols := cols.map (fun p => ⟨p.1, p.2⟩), pk := pk, fks := fks }
    match fks.find? (fun f => !(t.has f.1) || !(fkTargetOk cat t f.2.1 f.2.2)) with
    | some f => .error (.badFk n f.1 f.2.1 f.2.2)
    | none =>
      match pk.find? (fun c => !(t.has c)) with
      | some c => .error (.noColumn n c)
      | none => .ok (cat ++ [t])
  | .addColumn tn c ty =>
    match cat.get tn with
    | none => .error (.noTable tn)
    | some t => if t.has c then .error (.dupColumn tn c) else .ok (cat.set { t with cols := t.cols ++ [⟨c, ty⟩] })
  | .dropColumn tn c =>
    match cat.get tn with
    | none => .error (.noTable tn)
    | some t =>
      if !(t.has c) then .error (.noColumn tn c) else
      -- PostgreSQL drops constraints that involve the column together with it
      .ok (cat.set { t with cols := t.cols.filter (·.name != c), fks := t.fks.filter (·.1 != c),
                            pk := if t.pk.contains c then [] else t.pk })
  | .alterType tn c ty =>
    match cat.get tn with
    | none => .error (.noTable tn)
    | some t => if !(t.has c) then .error (.noColumn tn c) else
      .ok (cat.set { t with cols := t.cols.map (fun x => if x.name == c then ⟨c, ty⟩ else x) })
  | .addFk tn c rt rc =>
    match cat.get tn with
    | none => .error (.noTable tn)
    | some t =>
      if !(t.has c) || !(fkTargetOk cat t rt rc) then .error (.badFk tn c rt rc)
      else if t.fks.any (fun f => f.1 == c) then .error (.dupConstraint tn (fkName tn c))   -- constraint names derive from the column
      else .ok (cat.set { t with fks := t.fks ++ [(c, rt, rc)] })
  | .dropConstraint tn n =>
    match cat.get tn with
    | none => .error (.noTable tn)
    | some t =>
      if n == pkName tn then
        (if t.pk.isEmpty then .error (.noConstraint tn n) else .ok (cat.set { t with pk := [] }))
      else
        match t.fks.find? (fun f => fkName tn f.1 == n) with
        | none => .error (.noConstraint tn n)
        | some f => .ok (cat.set { t with fks := t.fks.filter (fun g => g != f) })
  | .addPk tn cols =>
    match cat.get tn with
    | none => .error (.noTable tn)
    | some t =>
      if !t.pk.isEmpty then .error (.dupPk tn) else
      match cols.find? (fun c => !(t.has c)) with
      | some c => .error (.noColumn tn c)
      | none => .ok (cat.set { t with pk := cols })
  | .other _ => .ok cat

def execAll (cat : Catalog) : List DDL → Except (SqlErr × Nat) Catalog
  | [] => .ok cat
  | d :: rest =>
    match exec cat d with
    | .error e => .error (e, rest.length)
    | .ok c => execAll c rest

end SyslModel.DbScript

namespace SyslModel.DbScript

/-! ### what the catalog must be for a schema (specification level) -/

def normTy (s : String) : String := if s == "bigserial" then "bigint" else s

/-- resolved SQL type of a column: a reference takes the type of its target (fuel = schema size) -/
def resolveTy (s : Schema) : Nat → ColTy → Bool → String
  | _, .prim ty, auto => if auto then "bigint" else ty
  | 0, .ref _ _, _ => ""
  | fuel + 1, .ref a b, _ =>
    match s.find a with
    | none => ""
    | some t => match t.col b with
      | none => ""
      | some c => resolveTy s fuel c.ty c.auto

def expectedTable (s : Schema) (t : Table) : CatTable :=
  { name := t.name
    cols := t.cols.map (fun c => ⟨c.name, normTy (resolveTy s (s.length + 1) c.ty c.auto)⟩)
    pk := (t.cols.filter (·.pk)).map (·.name)
    fks := t.cols.filterMap (fun c => match c.ty with | .ref a b => some (c.name, a, b) | _ => none) }

def sameSet {α} [BEq α] (a b : List α) : Bool := a.all (b.contains ·) && b.all (a.contains ·) && a.length == b.length

/-- does a catalog table carry exactly the columns, types and keys of the schema table? -/
def tableMatches (want got : CatTable) : Bool :=
  sameSet (want.cols.map (fun c => (c.name, c.ty))) (got.cols.map (fun c => (c.name, normTy c.ty))) &&
  sameSet want.pk got.pk && sameSet want.fks got.fks

/-- first difference, as a short tag (for violation signatures) -/
def tableDiff (want got : CatTable) : String :=
  if !(sameSet (want.cols.map (·.name)) (got.cols.map (·.name))) then "columns"
  else if !(sameSet (want.cols.map (fun c => (c.name, c.ty))) (got.cols.map (fun c => (c.name, normTy c.ty)))) then "column-types"
  else if !(sameSet want.pk got.pk) then "primary-key"
  else if !(sameSet want.fks got.fks) then "foreign-keys"
  else ""

end SyslModel.DbScript
