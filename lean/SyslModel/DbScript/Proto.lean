import SyslModel.Core.Proto
import SyslModel.DbScript.Model

namespace SyslModel.DbScript
open Lean (Json)
open SyslModel.Proto

def colOf (j : Json) : Col :=
  let ty := match str? j "ref_t" with
    | some rt => ColTy.ref rt (strD j "ref_c")
    | none => ColTy.prim (strD j "ty")
  { name := strD j "name", line := natD j "line", ty := ty, pk := boolD j "pk", auto := boolD j "auto" }

def schemaOf (j : Json) : Schema :=
  (asArr j).map (fun t => { name := strD t "name", line := natD t "line", cols := (arrD t "cols").map colOf })

def ddlOf (j : Json) : DDL :=
  match strD j "k" with
  | "create" => .createTable (strD j "t")
      ((arrD j "cols").map (fun c => match asArr c with | [a, b] => (asStr a, asStr b) | _ => ("", "")))
      (strList j "pk")
      ((arrD j "fks").map (fun c => match asArr c with | [a, b, d] => (asStr a, asStr b, asStr d) | _ => ("", "", "")))
  | "addcol" => .addColumn (strD j "t") (strD j "c") (strD j "ty")
  | "dropcol" => .dropColumn (strD j "t") (strD j "c")
  | "altertype" => .alterType (strD j "t") (strD j "c") (strD j "ty")
  | "addfk" => .addFk (strD j "t") (strD j "c") (strD j "rt") (strD j "rc")
  | "dropcons" => .dropConstraint (strD j "t") (strD j "n")
  | "addpk" => .addPk (strD j "t") (strList j "cols")
  | _ => .other (strD j "text")

def ddlJson : DDL → Json
  | .createTable n cols pk fks => Json.mkObj [("k", "create"), ("t", Json.str n),
      ("cols", jarr (cols.map (fun p => jstrs [p.1, p.2]))), ("pk", jstrs pk),
      ("fks", jarr (fks.map (fun p => jstrs [p.1, p.2.1, p.2.2])))]
  | .addColumn t c ty => Json.mkObj [("k", "addcol"), ("t", Json.str t), ("c", Json.str c), ("ty", Json.str ty)]
  | .dropColumn t c => Json.mkObj [("k", "dropcol"), ("t", Json.str t), ("c", Json.str c)]
  | .alterType t c ty => Json.mkObj [("k", "altertype"), ("t", Json.str t), ("c", Json.str c), ("ty", Json.str ty)]
  | .addFk t c rt rc => Json.mkObj [("k", "addfk"), ("t", Json.str t), ("c", Json.str c), ("rt", Json.str rt), ("rc", Json.str rc)]
  | .dropConstraint t n => Json.mkObj [("k", "dropcons"), ("t", Json.str t), ("n", Json.str n)]
  | .addPk t cols => Json.mkObj [("k", "addpk"), ("t", Json.str t), ("cols", jstrs cols)]
  | .other x => Json.mkObj [("k", "other"), ("text", Json.str x)]

def errStr : SqlErr → String
  | .dupTable t => "dup-table " ++ t
  | .noTable t => "no-table " ++ t
  | .noColumn t c => "no-column " ++ t ++ "." ++ c
  | .dupColumn t c => "dup-column " ++ t ++ "." ++ c
  | .dupConstraint t n => "dup-constraint " ++ t ++ " " ++ n
  | .badFk t c rt rc => "bad-fk " ++ t ++ "." ++ c ++ " -> " ++ rt ++ "." ++ rc
  | .noConstraint t n => "no-constraint " ++ t ++ " " ++ n
  | .dupPk t => "dup-pk " ++ t

def errTag : SqlErr → String
  | .dupTable _ => "dup-table" | .noTable _ => "no-table" | .noColumn _ _ => "no-column"
  | .dupColumn _ _ => "dup-column" | .dupConstraint _ _ => "dup-constraint" | .badFk _ _ _ _ => "bad-fk" | .noConstraint _ _ => "no-constraint" | .dupPk _ => "dup-pk"

def catJson (c : Catalog) : Json :=
  jarr (c.map (fun t => Json.mkObj [("name", Json.str t.name),
    ("cols", jarr (t.cols.map (fun c => jstrs [c.name, c.ty]))), ("pk", jstrs t.pk),
    ("fks", jarr (t.fks.map (fun p => jstrs [p.1, p.2.1, p.2.2])))]))

def handle (op : String) (j : Json) : Option Json :=
  match op with
  | "db.create" =>
      let s := schemaOf ((obj? j "schema").getD Json.null)
      match create s with
      | none => some (Json.mkObj [("diverges", Json.bool true)])
      | some d => some (Json.mkObj [("ddl", jarr (d.map ddlJson))])
  | "db.check" =>
      -- run `pre` then `ddl` on the empty catalog and compare with the schema `want`
      let want := schemaOf ((obj? j "want").getD Json.null)
      let pre := (arrD j "pre").map ddlOf
      let ddl := (arrD j "ddl").map ddlOf
      match execAll [] pre with
      | .error (e, k) => some (Json.mkObj [("phase", "pre"), ("err", Json.str (errStr e)), ("tag", Json.str (errTag e)), ("remaining", jnat k)])
      | .ok c0 =>
        match execAll c0 ddl with
        | .error (e, k) => some (Json.mkObj [("phase", "ddl"), ("err", Json.str (errStr e)), ("tag", Json.str (errTag e)), ("remaining", jnat k)])
        | .ok c1 =>
          let diffs := want.filterMap (fun t =>
            match c1.get t.name with
            | none => some (t.name, "missing-table")
            | some g => let d := tableDiff (expectedTable want t) g; if d == "" then none else some (t.name, d))
          let colDiffs := want.flatMap (fun t =>
            match c1.get t.name with
            | none => []
            | some g => (expectedTable want t).cols.filterMap (fun wc =>
                match g.cols.find? (·.name == wc.name) with
                | some gc => if normTy gc.ty == wc.ty then none else some (jstrs [t.name, wc.name, wc.ty, normTy gc.ty])
                | none => none))
          some (Json.mkObj [("ok", Json.bool diffs.isEmpty), ("coldiffs", jarr colDiffs),
            ("diffs", jarr (diffs.map (fun p => jstrs [p.1, p.2]))), ("catalog", catJson c1),
            ("created", jstrs (c1.map (·.name)))])
  | _ => none

end SyslModel.DbScript
