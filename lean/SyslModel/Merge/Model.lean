/-
C04 — `Merge`: an application written as several blocks.
Every block of an application is an `App` of the `Compile` description with the same name; the
listener walks the blocks one after the other into one module (lookup-or-create by name).  `join`
is what that walk amounts to on descriptions: members accumulate, the pieces of one tuple or
table accumulate their fields, the blocks of one endpoint accumulate their statements.
Core Lean only.
-/
import SyslModel.Compile.Model

namespace SyslModel.Merge
open SyslModel.Compile

/-- add a type piece: fields of a piece with the name of an earlier tuple/table are appended to it -/
def addType (ts : List TypeDecl) (t : TypeDecl) : List TypeDecl :=
  if ts.any (fun u => u.name == t.name) then
    ts.map fun u =>
      if u.name == t.name then
        match u.body, t.body with
        | .tuple fs, .tuple gs => { u with body := .tuple (fs ++ gs), attrs := mergeAttrs u.attrs t.attrs }
        | .table fs, .table gs => { u with body := .table (fs ++ gs), attrs := mergeAttrs u.attrs t.attrs }
        | _, _ => t
      else u
  else ts ++ [t]

/-- add an endpoint block: statements of a block with the name of an earlier endpoint are appended -/
def addEp (es : List Ep) (e : Ep) : List Ep :=
  if es.any (fun u => u.name == e.name) then
    es.map fun u =>
      if u.name == e.name then
        { u with stmts := u.stmts ++ e.stmts, attrs := mergeAttrs u.attrs e.attrs,
                 long := if e.long.isEmpty then u.long else e.long,
                 params := if e.params.isEmpty then u.params else e.params }
      else u
  else es ++ [e]

/-- walk one more block of the application into what has been walked so far -/
def joinTwo (a b : App) : App :=
  { parts := a.parts,
    long := if b.long.isEmpty then a.long else b.long,
    attrs := mergeAttrs a.attrs b.attrs,
    mixins := a.mixins ++ b.mixins,
    types := b.types.foldl addType a.types,
    eps := b.eps.foldl addEp a.eps,
    rest := a.rest ++ b.rest,
    collector := a.collector ++ b.collector,
    subs := a.subs ++ b.subs }

def emptyApp (parts : List String) : App :=
  { parts := parts, long := "", attrs := ⟨[], []⟩, mixins := [], types := [], eps := [], rest := [], collector := [], subs := [] }

/-- all blocks of one application, in walk order -/
def join (parts : List String) (blocks : List App) : App := blocks.foldl joinTwo (emptyApp parts)

end SyslModel.Merge
