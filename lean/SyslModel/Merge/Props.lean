import SyslModel.Merge.Model

namespace SyslModel.Merge
open SyslModel.Compile

theorem mergeAttrs_empty_left (a : Attrs) : mergeAttrs ⟨[], []⟩ a = a := by
  cases a with
  | mk tags kv => simp [mergeAttrs]

/-! ## PROPERTY THEOREMS (C04) -/

/-- **join_append**: walking the blocks `xs ++ ys` is walking `xs` and then continuing with `ys` -
    the result does not depend on where the block list is cut into files (each file's blocks are
    walked in flatten order into the same module) -/
theorem join_append (parts : List String) (xs ys : List App) :
    join parts (xs ++ ys) = ys.foldl joinTwo (join parts xs) := by
  simp [join, List.foldl_append]

/-- adding type pieces one block at a time is adding all of them at once -/
theorem types_accumulate (a b c : App) :
    (joinTwo (joinTwo a b) c).types = (b.types ++ c.types).foldl addType a.types := by
  simp [joinTwo, List.foldl_append]

theorem eps_accumulate (a b c : App) :
    (joinTwo (joinTwo a b) c).eps = (b.eps ++ c.eps).foldl addEp a.eps := by
  simp [joinTwo, List.foldl_append]

/-- **partition_independent** (members): cutting the member list of a block in two blocks at any
    point gives the same types, endpoints, REST trees, subscriptions and mixins -/
theorem partition_independent (a b₁ b₂ : App) (h : b₂.long = "") (ha : b₂.attrs = ⟨[], []⟩) :
    let whole : App := { b₁ with types := b₁.types ++ b₂.types, eps := b₁.eps ++ b₂.eps, rest := b₁.rest ++ b₂.rest,
                                 subs := b₁.subs ++ b₂.subs, mixins := b₁.mixins ++ b₂.mixins, collector := b₁.collector ++ b₂.collector }
    (joinTwo (joinTwo a b₁) b₂).types = (joinTwo a whole).types ∧
    (joinTwo (joinTwo a b₁) b₂).eps = (joinTwo a whole).eps ∧
    (joinTwo (joinTwo a b₁) b₂).rest = (joinTwo a whole).rest ∧
    (joinTwo (joinTwo a b₁) b₂).subs = (joinTwo a whole).subs ∧
    (joinTwo (joinTwo a b₁) b₂).mixins = (joinTwo a whole).mixins ∧
    (joinTwo (joinTwo a b₁) b₂).long = (joinTwo a whole).long := by
  simp [joinTwo, List.foldl_append, List.append_assoc, h]

/-- a type whose name no earlier piece has is simply added -/
theorem addType_fresh (ts : List TypeDecl) (t : TypeDecl) (h : ∀ u ∈ ts, u.name ≠ t.name) :
    addType ts t = ts ++ [t] := by
  unfold addType
  have : ts.any (fun u => u.name == t.name) = false := by
    simp only [List.any_eq_false, beq_iff_eq]
    intro u hu; exact h u hu
  simp [this]

/-- **order_independent** (names): two re-opening blocks that declare types with different fresh
    names can be walked in either order - the application gets the same set of type names -/
theorem fresh_types_commute (ts : List TypeDecl) (t u : TypeDecl)
    (ht : ∀ x ∈ ts, x.name ≠ t.name) (hu : ∀ x ∈ ts, x.name ≠ u.name) (hne : t.name ≠ u.name) :
    (addType (addType ts t) u).Perm (addType (addType ts u) t) := by
  rw [addType_fresh ts t ht, addType_fresh ts u hu]
  rw [addType_fresh (ts ++ [t]) u (by
    intro x hx; simp only [List.mem_append, List.mem_singleton] at hx
    rcases hx with hx | rfl
    · exact hu x hx
    · exact hne)]
  rw [addType_fresh (ts ++ [u]) t (by
    intro x hx; simp only [List.mem_append, List.mem_singleton] at hx
    rcases hx with hx | rfl
    · exact ht x hx
    · exact Ne.symm hne)]
  simp only [List.append_assoc, List.singleton_append]
  exact List.Perm.append_left ts (List.Perm.swap u t [])

/-- the fields of one tuple written over two blocks are the fields of the type written once -/
theorem tuple_pieces_join (n : String) (a₁ : Attrs) (fs gs : List Field) :
    addType [⟨n, a₁, .tuple fs⟩] ⟨n, ⟨[], []⟩, .tuple gs⟩ = [⟨n, mergeAttrs a₁ ⟨[], []⟩, .tuple (fs ++ gs)⟩] := by
  simp [addType]

/-- non-vacuity: an application in three blocks -/
example :
    (join ["A"] [{ emptyApp ["A"] with types := [⟨"T", ⟨[], []⟩, .tuple [⟨"a", ⟨.none, .prim "int" .none, false⟩, ⟨[], []⟩⟩]⟩] },
                 { emptyApp ["A"] with types := [⟨"U", ⟨[], []⟩, .enum [("X", 1)]⟩] },
                 { emptyApp ["A"] with types := [⟨"T", ⟨[], []⟩, .tuple [⟨"b", ⟨.none, .prim "int" .none, false⟩, ⟨[], []⟩⟩]⟩] }]).types.map (·.name)
      = ["T", "U"] := by
  decide

end SyslModel.Merge
