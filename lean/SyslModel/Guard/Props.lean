/-
C01 / C20 — theorems about the `Guard` model.
-/
import SyslModel.Guard.Model

namespace SyslModel.Guard

/-- completes without killing the process: a model or a reported error -/
def Fine (o : Outcome) : Prop := o = .ok ∨ o = .error
/-- at worst a panic still unwinding its own goroutine -/
def Recoverable (o : Outcome) : Prop := o = .ok ∨ o = .error ∨ o = .panicking

/-! ## helper lemmas -/

theorem fine_recoverable {o} (h : Fine o) : Recoverable o := by
  rcases h with h | h <;> simp [Recoverable, h]

theorem worse_fine (a b : Outcome) (ha : Fine a) (hb : Fine b) : Fine (worse a b) := by
  rcases ha with rfl | rfl <;> rcases hb with rfl | rfl <;> simp [worse, Fine]

theorem top_fine (o : Outcome) (h : Fine o) : Fine (atGoroutineTop o) := by
  rcases h with rfl | rfl <;> simp [atGoroutineTop, Fine]

mutual
/-- `g = false`: the region is self-contained (all its leaves sit under a recover inside it) -/
theorem fine_unguarded : ∀ (φ : Oracle) (r : Region), allGuarded false r = true → noExit r = true → Fine (run φ r)
  | φ, .leaf n e, hg, _ => by simp [allGuarded] at hg
  | φ, .seq rs, hg, he => by
    simp only [allGuarded] at hg; simp only [noExit] at he; simp only [run]
    exact fine_seq_unguarded φ rs hg he
  | φ, .par rs, hg, he => by
    simp only [allGuarded] at hg; simp only [noExit] at he; simp only [run]
    exact fine_par φ rs hg he
  | φ, .guarded r, hg, he => by
    simp only [allGuarded] at hg; simp only [noExit] at he
    have := rec_guarded φ r hg he
    simp only [run]
    rcases this with h | h | h <;> simp [h, Fine]
/-- `g = true`: the region runs under a recover of its goroutine; a panic may still be unwinding -/
theorem rec_guarded : ∀ (φ : Oracle) (r : Region), allGuarded true r = true → noExit r = true → Recoverable (run φ r)
  | φ, .leaf n e, _, he => by
    simp only [noExit] at he
    have : e = false := by simpa using he
    subst this
    simp only [run, leafOutcome]
    cases φ n <;> simp [Recoverable]
  | φ, .seq rs, hg, he => by
    simp only [allGuarded] at hg; simp only [noExit] at he; simp only [run]
    exact rec_seq_guarded φ rs hg he
  | φ, .par rs, hg, he => by
    simp only [allGuarded] at hg; simp only [noExit] at he; simp only [run]
    exact fine_recoverable (fine_par φ rs hg he)
  | φ, .guarded r, hg, he => by
    simp only [allGuarded] at hg; simp only [noExit] at he
    have := rec_guarded φ r hg he
    simp only [run]
    rcases this with h | h | h <;> simp [h, Recoverable]
theorem fine_seq_unguarded : ∀ (φ : Oracle) (rs : List Region), allGuardedL false rs = true → noExitL rs = true →
    Fine (runSeq φ rs)
  | φ, [], _, _ => by simp [runSeq, Fine]
  | φ, r :: rest, hg, he => by
    simp only [allGuardedL, Bool.and_eq_true] at hg
    simp only [noExitL, Bool.and_eq_true] at he
    have h1 := fine_unguarded φ r hg.1 he.1
    have h2 := fine_seq_unguarded φ rest hg.2 he.2
    simp only [runSeq]
    rcases h1 with h1 | h1
    · simp [h1]; exact h2
    · simp [h1, Fine]
theorem rec_seq_guarded : ∀ (φ : Oracle) (rs : List Region), allGuardedL true rs = true → noExitL rs = true →
    Recoverable (runSeq φ rs)
  | φ, [], _, _ => by simp [runSeq, Recoverable]
  | φ, r :: rest, hg, he => by
    simp only [allGuardedL, Bool.and_eq_true] at hg
    simp only [noExitL, Bool.and_eq_true] at he
    have h1 := rec_guarded φ r hg.1 he.1
    have h2 := rec_seq_guarded φ rest hg.2 he.2
    simp only [runSeq]
    rcases h1 with h1 | h1 | h1
    · simp [h1]; exact h2
    · simp [h1, Recoverable]
    · simp [h1, Recoverable]
/-- goroutine children always start unguarded, whatever surrounds the fan-out -/
theorem fine_par : ∀ (φ : Oracle) (rs : List Region), allGuardedL false rs = true → noExitL rs = true →
    Fine (runPar φ rs)
  | φ, [], _, _ => by simp [runPar, Fine]
  | φ, r :: rest, hg, he => by
    simp only [allGuardedL, Bool.and_eq_true] at hg
    simp only [noExitL, Bool.and_eq_true] at he
    have h1 := fine_unguarded φ r hg.1 he.1
    have h2 := fine_par φ rest hg.2 he.2
    simp only [runPar]
    exact worse_fine _ _ (top_fine _ h1) h2
end

/-- for a command-line program an exit with a message is an acceptable end: what must never
    happen is an unrecovered panic -/
def NoCrash (o : Outcome) : Prop := o = .ok ∨ o = .error ∨ o = .killed
def NoCrashRec (o : Outcome) : Prop := o = .ok ∨ o = .error ∨ o = .killed ∨ o = .panicking

theorem worse_nocrash (a b : Outcome) (ha : NoCrash a) (hb : NoCrash b) : NoCrash (worse a b) := by
  rcases ha with rfl | rfl | rfl <;> rcases hb with rfl | rfl | rfl <;> simp [worse, NoCrash]

theorem top_nocrash (o : Outcome) (h : NoCrash o) : NoCrash (atGoroutineTop o) := by
  rcases h with rfl | rfl | rfl <;> simp [atGoroutineTop, NoCrash]

mutual
theorem nc_unguarded : ∀ (φ : Oracle) (r : Region), allGuarded false r = true → NoCrash (run φ r)
  | φ, .leaf n e, hg => by simp [allGuarded] at hg
  | φ, .seq rs, hg => by
    simp only [allGuarded] at hg; simp only [run]; exact nc_seq_unguarded φ rs hg
  | φ, .par rs, hg => by
    simp only [allGuarded] at hg; simp only [run]; exact nc_par φ rs hg
  | φ, .guarded r, hg => by
    simp only [allGuarded] at hg
    have := nc_guarded φ r hg
    simp only [run]
    rcases this with h | h | h | h <;> simp [h, NoCrash]
theorem nc_guarded : ∀ (φ : Oracle) (r : Region), allGuarded true r = true → NoCrashRec (run φ r)
  | φ, .leaf n e, _ => by
    simp only [run, leafOutcome]
    cases φ n <;> cases e <;> simp [NoCrashRec]
  | φ, .seq rs, hg => by
    simp only [allGuarded] at hg; simp only [run]; exact nc_seq_guarded φ rs hg
  | φ, .par rs, hg => by
    simp only [allGuarded] at hg; simp only [run]
    rcases nc_par φ rs hg with h | h | h <;> simp [h, NoCrashRec]
  | φ, .guarded r, hg => by
    simp only [allGuarded] at hg
    have := nc_guarded φ r hg
    simp only [run]
    rcases this with h | h | h | h <;> simp [h, NoCrashRec]
theorem nc_seq_unguarded : ∀ (φ : Oracle) (rs : List Region), allGuardedL false rs = true → NoCrash (runSeq φ rs)
  | φ, [], _ => by simp [runSeq, NoCrash]
  | φ, r :: rest, hg => by
    simp only [allGuardedL, Bool.and_eq_true] at hg
    have h1 := nc_unguarded φ r hg.1
    have h2 := nc_seq_unguarded φ rest hg.2
    simp only [runSeq]
    rcases h1 with h1 | h1 | h1
    · simp [h1]; exact h2
    · simp [h1, NoCrash]
    · simp [h1, NoCrash]
theorem nc_seq_guarded : ∀ (φ : Oracle) (rs : List Region), allGuardedL true rs = true → NoCrashRec (runSeq φ rs)
  | φ, [], _ => by simp [runSeq, NoCrashRec]
  | φ, r :: rest, hg => by
    simp only [allGuardedL, Bool.and_eq_true] at hg
    have h1 := nc_guarded φ r hg.1
    have h2 := nc_seq_guarded φ rest hg.2
    simp only [runSeq]
    rcases h1 with h1 | h1 | h1 | h1
    · simp [h1]; exact h2
    · simp [h1, NoCrashRec]
    · simp [h1, NoCrashRec]
    · simp [h1, NoCrashRec]
theorem nc_par : ∀ (φ : Oracle) (rs : List Region), allGuardedL false rs = true → NoCrash (runPar φ rs)
  | φ, [], _ => by simp [runPar, NoCrash]
  | φ, r :: rest, hg => by
    simp only [allGuardedL, Bool.and_eq_true] at hg
    have h1 := nc_unguarded φ r hg.1
    have h2 := nc_par φ rest hg.2
    simp only [runPar]
    exact worse_nocrash _ _ (top_nocrash _ h1) h2
end

/-! ## PROPERTY THEOREMS (C01 / C20) -/

/-- **cmd_never_crashes** (C20): if every stretch of a command's code runs under a recover of
    its own goroutine, then for EVERY placement of panics, errors and exits the command ends
    with output, an error, or an exit it performed itself — never with an unrecovered panic. -/
theorem cmd_never_crashes (P : Region) (hg : allGuarded false P = true) :
    ∀ φ : Oracle, runProgram φ P ≠ .crash := by
  intro φ h
  have := top_nocrash _ (nc_unguarded φ P hg)
  unfold runProgram at h
  rw [h] at this
  rcases this with h | h | h <;> cases h


/-- **parse_total**: if every leaf of the program runs under a recover of its OWN goroutine
    and no leaf contains a process-exit call, then for EVERY fault oracle — a panic or an
    error at any point of any region, explicit or implicit — the outcome is a model or a
    reported error; never a crash, never a killed process. -/
theorem parse_total (P : Region) (hg : allGuarded false P = true) (he : noExit P = true) :
    ∀ φ : Oracle, runProgram φ P = .ok ∨ runProgram φ P = .error := by
  intro φ
  exact top_fine _ (fine_unguarded φ P hg he)

/-- the obligations are necessary: an unguarded leaf crashes under the oracle that panics there -/
theorem unguarded_crashes :
    runProgram (fun n => if n = "walk" then .panic else .none)
      (.seq [.guarded (.leaf "parse" false), .leaf "walk" false]) = .crash := by decide

/-- … an exit site kills the process even under a recover -/
theorem exit_site_kills :
    runProgram (fun n => if n = "lint" then .exit else .none)
      (.guarded (.seq [.leaf "walk" false, .leaf "lint" true])) = .killed := by decide

/-- … and a goroutine needs a recover of its own: the parent's does not help -/
theorem goroutine_needs_own_guard :
    runProgram (fun n => if n = "child" then .panic else .none)
      (.guarded (.par [.leaf "child" false])) = .crash ∧
    runProgram (fun n => if n = "child" then .panic else .none)
      (.guarded (.par [.guarded (.leaf "child" false)])) = .error := by decide

end SyslModel.Guard
