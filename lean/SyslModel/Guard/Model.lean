/-
C01 / C20 — `Guard`: an abstract program of compiler *regions* with a fault oracle.

A region tree mirrors how `Parser.Parse` (or a command) is composed:
  * `leaf name mayExit` — a stretch of code; `mayExit` = it contains a process-exit call
    (os.Exit, logrus.Fatal*, log.Fatal*),
  * `seq rs`            — sequential composition on one goroutine,
  * `par rs`            — each child runs in its OWN goroutine (errgroup fan-out): a panic
                          there is not caught by a recover of the parent,
  * `guarded r`         — `r` runs under a deferred recover() that converts a panic into an
                          error return.
The fault oracle decides, for EVERY leaf, what happens there: nothing, an error return, a
runtime panic (explicit or implicit: index out of range, nil map write, failed assertion…),
or — only where `mayExit` — a process exit.  Core Lean only.
-/
namespace SyslModel.Guard

inductive Region where
  | leaf (name : String) (mayExit : Bool)
  | seq (rs : List Region)
  | par (rs : List Region)
  | guarded (r : Region)
deriving Repr

inductive Fault where
  | none | error | panic | exit
deriving Repr, DecidableEq

inductive Outcome where
  | ok        -- a model
  | error     -- a reported error, non-zero exit status
  | panicking -- a panic is unwinding THIS goroutine (a recover on it can still catch it)
  | crash     -- unrecovered panic: the process dies with a stack trace
  | killed    -- the library exited the process itself
deriving Repr, DecidableEq

abbrev Oracle := String → Fault

def leafOutcome (φ : Oracle) (name : String) (mayExit : Bool) : Outcome :=
  match φ name with
  | .none => .ok
  | .error => .error
  | .panic => .panicking
  | .exit => if mayExit then .killed else .ok

/-- worst outcome first: killed > crash > error > ok (a process that is dead stays dead) -/
def worse : Outcome → Outcome → Outcome
  | .killed, _ => .killed
  | _, .killed => .killed
  | .crash, _ => .crash
  | _, .crash => .crash
  | .panicking, _ => .crash
  | _, .panicking => .crash
  | .error, _ => .error
  | _, .error => .error
  | .ok, .ok => .ok

/-- a panic that reaches the top of a goroutine kills the process -/
def atGoroutineTop : Outcome → Outcome
  | .panicking => .crash
  | o => o

mutual
/-- outcome of a region on the goroutine that runs it -/
def run (φ : Oracle) : Region → Outcome
  | .leaf n e => leafOutcome φ n e
  | .seq rs => runSeq φ rs
  | .par rs => runPar φ rs
  | .guarded r =>
    match run φ r with
    | .panicking => .error   -- recover(): the panic becomes an error return
    | o => o
/-- sequential: stop at the first region that does not complete normally -/
def runSeq (φ : Oracle) : List Region → Outcome
  | [] => .ok
  | r :: rest =>
    match run φ r with
    | .ok => runSeq φ rest
    | o => o
/-- goroutines: all children run; the process-level result is the worst of them -/
def runPar (φ : Oracle) : List Region → Outcome
  | [] => .ok
  | r :: rest => worse (atGoroutineTop (run φ r)) (runPar φ rest)
end

/-- outcome of the whole program: the root region runs on the calling goroutine -/
def runProgram (φ : Oracle) (P : Region) : Outcome := atGoroutineTop (run φ P)

mutual
/-- every leaf runs under a recover of its own goroutine -/
def allGuarded : Bool → Region → Bool
  | g, .leaf _ _ => g
  | g, .seq rs => allGuardedL g rs
  | _, .par rs => allGuardedL false rs     -- a new goroutine starts unguarded
  | _, .guarded r => allGuarded true r
def allGuardedL : Bool → List Region → Bool
  | _, [] => true
  | g, r :: rest => allGuarded g r && allGuardedL g rest
end

mutual
def noExit : Region → Bool
  | .leaf _ e => !e
  | .seq rs => noExitL rs
  | .par rs => noExitL rs
  | .guarded r => noExit r
def noExitL : List Region → Bool
  | [] => true
  | r :: rest => noExit r && noExitL rest
end

mutual
def leaves : Region → List (String × Bool)
  | .leaf n e => [(n, e)]
  | .seq rs => leavesL rs
  | .par rs => leavesL rs
  | .guarded r => leaves r
def leavesL : List Region → List (String × Bool)
  | [] => []
  | r :: rest => leaves r ++ leavesL rest
end

end SyslModel.Guard
