/-
C17 — model of pkg/arrai/relmod/normalize.go (`Normalize`): one row per construct, keyed as
the relational model keys it.  Statement rows carry their position path (`StmtIndex`).
Rows are (relation, key) pairs of strings so that the real `Schema` can be canonicalised into
the same shape and compared as a multiset.  Core Lean only.
-/
namespace SyslModel.Relmod

inductive Stmt where
  | leaf (desc : String)                   -- action / call / return: one row
  | placeholder                            -- the action "...": no row
  | block (desc : String) (children : List Stmt)   -- cond / loop / loopN / foreach / group
  | alt (choices : List (String × List Stmt))      -- no row of its own; one row per choice
deriving Repr

/-! ### statement rows: (position path, description) -/

mutual
def rowsS (p : List Nat) : Stmt → List (List Nat × String)
  | .leaf d => [(p, d)]
  | .placeholder => []
  | .block d cs => rowsL p 0 cs ++ [(p, d)]
  | .alt chs => rowsA p 0 chs
def rowsL (p : List Nat) (i : Nat) : List Stmt → List (List Nat × String)
  | [] => []
  | s :: r => rowsS (p ++ [i]) s ++ rowsL p (i + 1) r
def rowsA (p : List Nat) (i : Nat) : List (String × List Stmt) → List (List Nat × String)
  | [] => []
  | c :: r => (rowsL (p ++ [i]) 0 c.2 ++ [(p ++ [i], "alt " ++ c.1)]) ++ rowsA p (i + 1) r
end

/-- rows of an endpoint's statement list: top-level statement i has path [i] -/
def stmtRows (ss : List Stmt) : List (List Nat × String) := rowsL [] 0 ss

-- number of statements that get a row
mutual
def countS : Stmt → Nat
  | .leaf _ => 1
  | .placeholder => 0
  | .block _ cs => countL cs + 1
  | .alt chs => countA chs
def countL : List Stmt → Nat
  | [] => 0
  | s :: r => countS s + countL r
def countA : List (String × List Stmt) → Nat
  | [] => 0
  | c :: r => (countL c.2 + 1) + countA r
end

/-! ### the other constructs -/

structure Field where
  name : String
  desc : String            -- optionality, type, constraint as the relational model shows them
  tags : List String
  annos : List String
deriving Repr

structure TypeD where
  name : String
  kind : String            -- tuple | table | enum | alias | other
  opt  : Bool
  pk   : List String
  enumItems : List String
  fields : List Field
  tags : List String
  annos : List String
deriving Repr

structure Param where
  name : String
  loc  : String
  idx  : Nat
  desc : String
deriving Repr

structure Ep where
  name : String
  placeholderEp : Bool     -- the endpoint named "...": skipped
  event : Bool             -- pubsub: an Event row instead of an Endpoint row
  desc : String            -- rest method/path, subscription source
  params : List Param
  stmts : List Stmt
  tags : List String
  annos : List String
deriving Repr

structure App where
  name : String
  mixins : List String
  eps : List Ep
  types : List TypeD
  views : List String
  tags : List String
  annos : List String
deriving Repr

abbrev Row := String × String      -- relation, key

def pathStr (p : List Nat) : String := ",".intercalate (p.map toString)

def epRows (app : String) (e : Ep) : List Row :=
  if e.placeholderEp then [] else
  if e.event then
    [("event", app ++ "|" ++ e.name)] ++
    e.params.map (fun p => ("param", app ++ "|" ++ e.name ++ "|" ++ p.name ++ "|" ++ p.loc ++ "|" ++ toString p.idx ++ "|" ++ p.desc)) ++
    e.tags.map (fun t => ("tag.event", app ++ "|" ++ e.name ++ "|" ++ t)) ++
    e.annos.map (fun t => ("anno.event", app ++ "|" ++ e.name ++ "|" ++ t))
  else
    [("ep", app ++ "|" ++ e.name ++ "|" ++ e.desc)] ++
    e.params.map (fun p => ("param", app ++ "|" ++ e.name ++ "|" ++ p.name ++ "|" ++ p.loc ++ "|" ++ toString p.idx ++ "|" ++ p.desc)) ++
    (stmtRows e.stmts).map (fun r => ("stmt", app ++ "|" ++ e.name ++ "|" ++ pathStr r.1 ++ "|" ++ r.2)) ++
    e.tags.map (fun t => ("tag.ep", app ++ "|" ++ e.name ++ "|" ++ t)) ++
    e.annos.map (fun t => ("anno.ep", app ++ "|" ++ e.name ++ "|" ++ t))

def typeRows (app : String) (t : TypeD) : List Row :=
  [("type", app ++ "|" ++ t.name ++ "|" ++ toString t.opt)] ++
  (if t.kind == "table" then [("table", app ++ "|" ++ t.name ++ "|" ++ ",".intercalate t.pk)] else []) ++
  (if t.kind == "enum" then [("enum", app ++ "|" ++ t.name ++ "|" ++ ",".intercalate t.enumItems)] else []) ++
  (if t.kind == "alias" then [("alias", app ++ "|" ++ t.name)] else []) ++
  t.fields.flatMap (fun f =>
    [("field", app ++ "|" ++ t.name ++ "|" ++ f.name ++ "|" ++ f.desc)] ++
    f.tags.map (fun x => ("tag.field", app ++ "|" ++ t.name ++ "|" ++ f.name ++ "|" ++ x)) ++
    f.annos.map (fun x => ("anno.field", app ++ "|" ++ t.name ++ "|" ++ f.name ++ "|" ++ x))) ++
  t.tags.map (fun x => ("tag.type", app ++ "|" ++ t.name ++ "|" ++ x)) ++
  t.annos.map (fun x => ("anno.type", app ++ "|" ++ t.name ++ "|" ++ x))

def appRows (a : App) : List Row :=
  [("app", a.name)] ++
  a.mixins.map (fun m => ("mixin", a.name ++ "|" ++ m)) ++
  a.eps.flatMap (epRows a.name) ++
  a.types.flatMap (typeRows a.name) ++
  a.views.map (fun v => ("view", a.name ++ "|" ++ v)) ++
  a.tags.map (fun x => ("tag.app", a.name ++ "|" ++ x)) ++
  a.annos.map (fun x => ("anno.app", a.name ++ "|" ++ x))

def normalize (m : List App) : List Row := m.flatMap appRows

end SyslModel.Relmod
