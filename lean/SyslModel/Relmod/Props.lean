/-
C17 — theorems about the relational-model image: statement position paths are exactly tree
positions, pairwise distinct, one row per statement.
-/
import SyslModel.Relmod.Model

namespace SyslModel.Relmod

/-! ## helper lemmas -/

theorem prefix_sibling (p r : List Nat) (i j : Nat) (h1 : (p ++ [i]) <+: r) (h2 : (p ++ [j]) <+: r) : i = j := by
  have hl : (p ++ [i]).length ≤ (p ++ [j]).length := by simp
  have h3 := List.prefix_of_prefix_length_le h1 h2 hl
  have h4 := List.IsPrefix.eq_of_length h3 (by simp)
  have := List.append_cancel_left h4
  simpa using this

theorem prefix_longer (p r : List Nat) (i : Nat) (h : (p ++ [i]) <+: r) : r ≠ p := by
  intro e
  subst e
  have := List.IsPrefix.length_le h
  simp at this
  omega

theorem prefix_trans_snoc (p r : List Nat) (i : Nat) (h : (p ++ [i]) <+: r) : p <+: r :=
  List.IsPrefix.trans (List.prefix_append p [i]) h

/-- paths of the rows -/
def paths (l : List (List Nat × String)) : List (List Nat) := l.map (·.1)

mutual
theorem rowsS_spec : ∀ (s : Stmt) (p : List Nat),
    (paths (rowsS p s)).Nodup ∧ (∀ r ∈ paths (rowsS p s), p <+: r) ∧ (rowsS p s).length = countS s
  | .leaf d, p => by simp [rowsS, paths, countS]
  | .placeholder, p => by simp [rowsS, paths, countS]
  | .block d cs, p => by
    obtain ⟨hn, hp, hc⟩ := rowsL_spec cs p 0
    refine ⟨?_, ?_, ?_⟩
    · simp only [rowsS, paths, List.map_append, List.map_cons, List.map_nil]
      rw [List.nodup_append]
      refine ⟨hn, by simp, ?_⟩
      intro a ha b hb
      simp at hb; rw [hb]
      obtain ⟨j, _, hj⟩ := hp a ha
      exact prefix_longer p a j hj
    · intro r hr
      simp only [rowsS, paths, List.map_append, List.map_cons, List.map_nil, List.mem_append, List.mem_singleton] at hr
      rcases hr with hr | hr
      · obtain ⟨j, _, hj⟩ := hp r hr
        exact prefix_trans_snoc p r j hj
      · rw [hr]; exact List.prefix_refl _
    · simp [rowsS, countS, hc]
  | .alt chs, p => by
    obtain ⟨hn, hp, hc⟩ := rowsA_spec chs p 0
    refine ⟨by simpa [rowsS] using hn, ?_, by simp [rowsS, countS, hc]⟩
    intro r hr
    simp only [rowsS] at hr
    obtain ⟨j, _, hj⟩ := hp r hr
    exact prefix_trans_snoc p r j hj
theorem rowsL_spec : ∀ (ss : List Stmt) (p : List Nat) (i : Nat),
    (paths (rowsL p i ss)).Nodup ∧ (∀ r ∈ paths (rowsL p i ss), ∃ j, j ≥ i ∧ (p ++ [j]) <+: r) ∧
    (rowsL p i ss).length = countL ss
  | [], p, i => by simp [rowsL, paths, countL]
  | s :: rest, p, i => by
    obtain ⟨hn1, hp1, hc1⟩ := rowsS_spec s (p ++ [i])
    obtain ⟨hn2, hp2, hc2⟩ := rowsL_spec rest p (i + 1)
    refine ⟨?_, ?_, ?_⟩
    · simp only [rowsL, paths, List.map_append]
      rw [List.nodup_append]
      refine ⟨hn1, hn2, ?_⟩
      intro a ha b hb e
      subst e
      obtain ⟨j, hj, hjp⟩ := hp2 a hb
      have := prefix_sibling p a i j (hp1 a ha) hjp
      omega
    · intro r hr
      simp only [rowsL, paths, List.map_append, List.mem_append] at hr
      rcases hr with hr | hr
      · exact ⟨i, Nat.le_refl _, hp1 r hr⟩
      · obtain ⟨j, hj, hjp⟩ := hp2 r hr
        exact ⟨j, by omega, hjp⟩
    · simp [rowsL, countL, hc1, hc2]
theorem rowsA_spec : ∀ (chs : List (String × List Stmt)) (p : List Nat) (i : Nat),
    (paths (rowsA p i chs)).Nodup ∧ (∀ r ∈ paths (rowsA p i chs), ∃ j, j ≥ i ∧ (p ++ [j]) <+: r) ∧
    (rowsA p i chs).length = countA chs
  | [], p, i => by simp [rowsA, paths, countA]
  | c :: rest, p, i => by
    obtain ⟨hn1, hp1, hc1⟩ := rowsL_spec c.2 (p ++ [i]) 0
    obtain ⟨hn2, hp2, hc2⟩ := rowsA_spec rest p (i + 1)
    have hfirst : ∀ r ∈ paths (rowsL (p ++ [i]) 0 c.2 ++ [(p ++ [i], "alt " ++ c.1)]), (p ++ [i]) <+: r := by
      intro r hr
      simp only [paths, List.map_append, List.map_cons, List.map_nil, List.mem_append, List.mem_singleton] at hr
      rcases hr with hr | hr
      · obtain ⟨j, _, hj⟩ := hp1 r hr
        exact prefix_trans_snoc (p ++ [i]) r j hj
      · rw [hr]; exact List.prefix_refl _
    refine ⟨?_, ?_, ?_⟩
    · simp only [rowsA, paths, List.map_append, List.map_cons, List.map_nil]
      rw [List.nodup_append]
      refine ⟨?_, hn2, ?_⟩
      · rw [List.nodup_append]
        refine ⟨hn1, by simp, ?_⟩
        intro a ha b hb
        simp at hb; rw [hb]
        obtain ⟨j, _, hj⟩ := hp1 a ha
        exact prefix_longer (p ++ [i]) a j hj
      · intro a ha b hb e
        subst e
        obtain ⟨j, hj, hjp⟩ := hp2 a hb
        have hpre := hfirst a (by simpa [paths] using ha)
        have := prefix_sibling p a i j hpre hjp
        omega
    · intro r hr
      simp only [rowsA, paths, List.map_append, List.mem_append] at hr
      rcases hr with hr | hr
      · exact ⟨i, Nat.le_refl _, hfirst r (by simpa [paths] using hr)⟩
      · obtain ⟨j, hj, hjp⟩ := hp2 r hr
        exact ⟨j, by omega, hjp⟩
    · simp [rowsA, countA, hc1, hc2]; omega
end

/-! ## PROPERTY THEOREMS (C17) -/

/-- **stmt_index_injective**: within one endpoint no two statement rows carry the same
    position path — for every statement tree, any depth, any number of siblings. -/
theorem stmt_index_injective (ss : List Stmt) : (paths (stmtRows ss)).Nodup :=
  (rowsL_spec ss [] 0).1

/-- **stmt_rows_census**: exactly one row per statement that the relational model represents
    (placeholders none, alternatives one per choice). -/
theorem stmt_rows_census (ss : List Stmt) : (stmtRows ss).length = countL ss :=
  (rowsL_spec ss [] 0).2.2

/-- **stmt_index_is_path**: the path of a top-level statement row starts with that statement's
    index in the endpoint, and every row's path extends its parent's. -/
theorem stmt_index_top (ss : List Stmt) : ∀ r ∈ paths (stmtRows ss), ∃ j, [j] <+: r := by
  intro r hr
  obtain ⟨j, _, hj⟩ := (rowsL_spec ss [] 0).2.1 r hr
  exact ⟨j, by simpa using hj⟩

/-- census of the flat relations: one `field` row per field, one `type` row per type … these
    follow from the definition by `List.length_map`; stated for the record. -/
theorem type_rows_has_type (app : String) (t : TypeD) :
    ("type", app ++ "|" ++ t.name ++ "|" ++ toString t.opt) ∈ typeRows app t := by
  simp [typeRows]

theorem field_rows_complete (app : String) (t : TypeD) (f : Field) (h : f ∈ t.fields) :
    ("field", app ++ "|" ++ t.name ++ "|" ++ f.name ++ "|" ++ f.desc) ∈ typeRows app t := by
  simp only [typeRows, List.mem_append, List.mem_flatMap]
  left; left; right
  exact ⟨f, h, by simp⟩

/-- the defect of the pinned commit, as a regression example: three siblings at depth 4 get
    three different paths -/
example : paths (stmtRows [.block "if" [.block "if" [.block "if" [.leaf "a", .leaf "b", .leaf "c"]]]]) =
    [[0, 0, 0, 0], [0, 0, 0, 1], [0, 0, 0, 2], [0, 0, 0], [0, 0], [0]] := by decide

end SyslModel.Relmod
