import SyslModel.Core.Proto
import SyslModel.Relmod.Model

namespace SyslModel.Relmod
open Lean (Json)
open SyslModel.Proto

instance : Inhabited Stmt := ⟨.placeholder⟩

partial def stmtOf (j : Json) : Stmt :=
  match strD j "k" with
  | "leaf" => .leaf (strD j "d")
  | "placeholder" => .placeholder
  | "alt" => .alt ((arrD j "alts").map (fun c => (strD c "cond", (arrD c "body").map stmtOf)))
  | _ => .block (strD j "d") ((arrD j "body").map stmtOf)

def fieldOf (j : Json) : Field :=
  { name := strD j "name", desc := strD j "desc", tags := strList j "tags", annos := strList j "annos" }

def typeOf (j : Json) : TypeD :=
  { name := strD j "name", kind := strD j "kind", opt := boolD j "opt", pk := strList j "pk",
    enumItems := strList j "items", fields := (arrD j "fields").map fieldOf,
    tags := strList j "tags", annos := strList j "annos" }

def epOf (j : Json) : Ep :=
  { name := strD j "name", placeholderEp := boolD j "placeholder", event := boolD j "event", desc := strD j "desc",
    params := (arrD j "params").map (fun p => { name := strD p "name", loc := strD p "loc", idx := natD p "idx", desc := strD p "desc" }),
    stmts := (arrD j "stmts").map stmtOf, tags := strList j "tags", annos := strList j "annos" }

def appOf (j : Json) : App :=
  { name := strD j "name", mixins := strList j "mixins", eps := (arrD j "eps").map epOf,
    types := (arrD j "types").map typeOf, views := strList j "views", tags := strList j "tags", annos := strList j "annos" }

def handle (op : String) (j : Json) : Option Json :=
  match op with
  | "relmod.normalize" =>
      let m := (arrD j "apps").map appOf
      some (Json.mkObj [("rows", jarr ((normalize m).map (fun r => jstrs [r.1, r.2])))])
  | _ => none

end SyslModel.Relmod
