/-
C08 — `Locate`: source locations.
`sourceCtxHelper.get` (pkg/parse/utils.go) turns the first and last ANTLR token of an element
(1-based line, 0-based column) into a zero-based start and end; the listener appends one such
location to an element for every declaration of it.  The harness' renderer records, for every
element it writes, the line and column at which the element starts; `adv` is the cursor that
recording amounts to.
Core Lean only.
-/
namespace SyslModel.Locate

structure Tok where
  line : Nat      -- 1-based (ANTLR)
  col : Nat       -- 0-based
  len : Nat       -- length of the token text
deriving Repr, DecidableEq

structure Loc where
  line : Nat
  col : Nat
deriving Repr, DecidableEq

structure Ctx where
  start : Loc
  stop : Loc
deriving Repr, DecidableEq

/-- `sourceCtxHelper.get` -/
def ctxOf (first last : Tok) : Ctx :=
  ⟨⟨first.line - 1, first.col⟩, ⟨last.line - 1, last.col + last.len⟩⟩

def Loc.le (a b : Loc) : Prop := a.line < b.line ∨ (a.line = b.line ∧ a.col ≤ b.col)

/-- token order in the input stream -/
def Tok.le (a b : Tok) : Prop := a.line < b.line ∨ (a.line = b.line ∧ a.col ≤ b.col)

/-- the cursor after writing some text: a newline starts the next line at column 0 -/
def adv (p : Loc) : List Char → Loc
  | [] => p
  | c :: cs => adv (if c = '\n' then ⟨p.line + 1, 0⟩ else ⟨p.line, p.col + 1⟩) cs

/-- position of the character at offset `off` of a text -/
def posAt (text : List Char) (off : Nat) : Loc := adv ⟨0, 0⟩ (text.take off)

/-- one declaration of the element named `key` -/
structure Decl where
  key : Nat
  loc : Ctx
deriving Repr, DecidableEq

/-- the listener on a (re)declaration: append the location to the element's list -/
def record (m : Nat → List Ctx) (d : Decl) : Nat → List Ctx :=
  fun k => if k = d.key then m k ++ [d.loc] else m k

def recordAll (ds : List Decl) : Nat → List Ctx := ds.foldl record (fun _ => [])

end SyslModel.Locate
