import SyslModel.Locate.Model

namespace SyslModel.Locate

/-! ## PROPERTY THEOREMS (C08) -/

/-- **start_is_zero_based**: the start of an element whose first token ANTLR places at 1-based
    line n, column c is (n-1, c) -/
theorem start_is_zero_based (first last : Tok) :
    (ctxOf first last).start = ⟨first.line - 1, first.col⟩ := rfl

/-- **end_not_before_start**: if the last token of an element is not before its first one, the
    recorded end is not before the recorded start -/
theorem end_not_before_start (first last : Tok) (h : first.le last) (h1 : 1 ≤ first.line) :
    (ctxOf first last).start.le (ctxOf first last).stop := by
  unfold Tok.le at h
  unfold Loc.le ctxOf
  simp only
  rcases h with h | ⟨h, hc⟩
  · by_cases e : first.line - 1 < last.line - 1
    · exact Or.inl e
    · omega
  · exact Or.inr ⟨by omega, by omega⟩

theorem adv_append (p : Loc) (a b : List Char) : adv p (a ++ b) = adv (adv p a) b := by
  induction a generalizing p with
  | nil => rfl
  | cons c cs ih => simp [adv, ih]

theorem adv_no_newline (p : Loc) (s : List Char) (h : ∀ c ∈ s, c ≠ '\n') : adv p s = ⟨p.line, p.col + s.length⟩ := by
  induction s generalizing p with
  | nil => simp [adv]
  | cons c cs ih =>
    have hc : c ≠ '\n' := h c (by simp)
    simp only [adv, hc, if_false]
    rw [ih _ (fun d hd => h d (by simp [hd]))]
    simp only [List.length_cons, Loc.mk.injEq, true_and]
    omega

theorem adv_line (p : Loc) (s : List Char) : (adv p s).line = p.line + s.count '\n' := by
  induction s generalizing p with
  | nil => simp [adv]
  | cons c cs ih =>
    by_cases hc : c = '\n'
    · subst hc; simp only [adv, if_true, ih, List.count_cons_self]; omega
    · simp only [adv, hc, if_false, ih]
      have : List.count '\n' (c :: cs) = List.count '\n' cs := by
        rw [List.count_cons]; simp [hc]
      rw [this]

theorem adv_ends_newline (p : Loc) (s : List Char) : (adv p (s ++ ['\n'])).col = 0 := by
  rw [adv_append]; simp [adv]

/-- **mark_is_position**: what the renderer records for an element written after the lines
    `written` (empty, or ending with a newline) and the indentation `ind` - the number of newlines
    written so far and the length of the indentation - is the position of the element's first
    character in the final text, whatever follows -/
theorem mark_is_position (written ind rest : List Char)
    (hw : written = [] ∨ ∃ w, written = w ++ ['\n']) (hi : ∀ c ∈ ind, c ≠ '\n') :
    posAt (written ++ ind ++ rest) (written.length + ind.length) = ⟨written.count '\n', ind.length⟩ := by
  unfold posAt
  have ht : (written ++ ind ++ rest).take (written.length + ind.length) = written ++ ind := by
    have : written.length + ind.length = (written ++ ind).length := by simp
    rw [this, List.take_left']
    rfl
  rw [ht, adv_append, adv_no_newline _ _ hi]
  have hl := adv_line ⟨0, 0⟩ written
  rcases hw with rfl | ⟨w, rfl⟩
  · simp [adv]
  · have hc := adv_ends_newline ⟨0, 0⟩ w
    simp only [Nat.zero_add] at hl
    cases h : adv ⟨0, 0⟩ (w ++ ['\n']) with
    | mk l c => rw [h] at hl hc; simp only at hl hc; simp [hl, hc]

theorem foldl_record_other (ds : List Decl) (m : Nat → List Ctx) (k : Nat) (h : ∀ d ∈ ds, d.key ≠ k) :
    (ds.foldl record m) k = m k := by
  induction ds generalizing m with
  | nil => rfl
  | cons d ds ih =>
    simp only [List.foldl_cons]
    rw [ih _ (fun e he => h e (by simp [he]))]
    simp [record, Ne.symm (h d (by simp))]

theorem foldl_record (ds : List Decl) (m : Nat → List Ctx) (k : Nat) :
    (ds.foldl record m) k = m k ++ (ds.filter (fun d => d.key = k)).map (·.loc) := by
  induction ds generalizing m with
  | nil => simp
  | cons d ds ih =>
    simp only [List.foldl_cons, ih]
    by_cases hk : d.key = k
    · simp [record, hk, List.filter_cons]
    · simp [record, Ne.symm hk, List.filter_cons, hk]

/-- **locations_per_declaration**: an element declared n times carries n locations, one per
    declaration, in declaration order - whatever other elements are declared in between -/
theorem locations_per_declaration (ds : List Decl) (k : Nat) :
    recordAll ds k = (ds.filter (fun d => d.key = k)).map (·.loc) := by
  simp [recordAll, foldl_record]

theorem locations_count (ds : List Decl) (k : Nat) :
    (recordAll ds k).length = (ds.filter (fun d => d.key = k)).length := by
  simp [locations_per_declaration]

/-- non-vacuity: an application re-opened in a second file, another element in between -/
example : recordAll [⟨1, ⟨⟨0, 0⟩, ⟨2, 10⟩⟩⟩, ⟨2, ⟨⟨1, 4⟩, ⟨1, 9⟩⟩⟩, ⟨1, ⟨⟨27, 0⟩, ⟨31, 13⟩⟩⟩] 1
    = [⟨⟨0, 0⟩, ⟨2, 10⟩⟩, ⟨⟨27, 0⟩, ⟨31, 13⟩⟩] := by decide

example : (ctxOf ⟨2, 4, 5⟩ ⟨6, 34, 1⟩).start.le (ctxOf ⟨2, 4, 5⟩ ⟨6, 34, 1⟩).stop :=
  end_not_before_start _ _ (Or.inl (by decide)) (by decide)

end SyslModel.Locate
