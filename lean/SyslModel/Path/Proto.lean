import SyslModel.Core.Proto
import SyslModel.Path.Model
import SyslModel.Gen.ChrootOps

namespace SyslModel.Path
open Lean (Json)
open SyslModel.Proto

def kindName : ArgKind → String
  | .checked => "checked" | .joinedOnly => "joinedOnly" | .raw => "raw"

def kindOf (s : String) : ArgKind :=
  if s = "checked" then .checked else if s = "joinedOnly" then .joinedOnly else .raw

def handle (op : String) (j : Json) : Option Json :=
  match op with
  | "path.all" =>
      let root := strD j "root"; let name := strD j "name"
      let rs := absSegs root
      let f := joinSegs rs (rawSegs name)
      some <| Json.mkObj [
        ("clean", Json.str (clean name)),
        ("join", Json.str (render f)),
        ("allowed", Json.bool (allowedSegs rs f)),
        ("rel", Json.str (rel root (render f))),
        ("inside", Json.bool (staysInside 0 (rawSegs name)))]
  | "path.op" =>
      let root := strD j "root"
      let kinds := (strList j "kinds").map kindOf
      let paths := strList j "paths"
      let op : OpSpec := { name := strD j "name", under := "", args := kinds }
      match runOp (absSegs root) op paths with
      | none => some (Json.mkObj [("denied", Json.bool true)])
      | some fs => some (Json.mkObj [("seen", jstrs (fs.map render))])
  | "path.optable" =>
      some <| Json.mkObj [("ops", jarr (SyslModel.Gen.chrootOps.map fun o =>
        Json.mkObj [("name", Json.str o.name), ("under", Json.str o.under),
                    ("kinds", jstrs (o.args.map kindName))]))]
  | _ => none

end SyslModel.Path
