/-
C18 — model of `pkg/syslutil/chroot_fs.go` (ChrootFs) on Unix.

Mirrors:
  * Go `path/filepath.Clean` (lexical, Unix)           → `pushSeg`, `cleanSegs`, `clean`
  * `(*ChrootFs).join` = `Abs(Join(root, name))`         → `joinSegs`, `join`
  * Go `path/filepath.Rel` for two absolute clean paths  → `relSegs`, `rel`
  * `(*ChrootFs).openAllowed`                            → `allowedSegs`, `allowed`
  * `wrapCall` / `wrapCallWithData` and each operation   → `ArgKind`, `OpSpec`, `runOp`

Paths are handled as lists of segments; strings only at the boundary
(`rawSegs` = split on '/', `render` = "/" ++ intercalate "/").
Core Lean only (this file is linked into the `oracle` executable).
-/
namespace SyslModel.Path

/-- split on '/', keeping empty pieces exactly like `strings.Split(s, "/")` -/
def rawSegs (s : String) : List String := s.splitOn "/"

def isRooted (s : String) : Bool := s.startsWith "/"

/-- One step of Go's `Clean` main loop.  The output is kept as a stack
    (head = last path element written so far). -/
def pushSeg (rooted : Bool) (stk : List String) (seg : String) : List String :=
  if seg = "" ∨ seg = "." then stk
  else if seg = ".." then
    match stk with
    | [] => if rooted then [] else [".."]
    | t :: rest => if t = ".." then ".." :: t :: rest else rest
  else seg :: stk

/-- run the loop from a given stack -/
def pushAll (rooted : Bool) (stk : List String) (segs : List String) : List String :=
  segs.foldl (pushSeg rooted) stk

/-- cleaned segments of a segment list -/
def cleanSegs (rooted : Bool) (segs : List String) : List String :=
  (pushAll rooted [] segs).reverse

/-- how an absolute clean path is written -/
def render (segs : List String) : String := "/" ++ "/".intercalate segs

/-- Go `filepath.Clean` (Unix) -/
def clean (s : String) : String :=
  if s = "" then "."
  else
    let o := cleanSegs (isRooted s) (rawSegs s)
    if isRooted s then render o
    else if o.isEmpty then "." else "/".intercalate o

/-- segments of an absolute path (after cleaning) -/
def absSegs (s : String) : List String := cleanSegs true (rawSegs s)

/-- `(*ChrootFs).join` on segments: root is absolute and clean, `name` is the raw split of any string
    (so a statement for all segment lists covers all strings).
    `Abs(Join(root, name))` = `Clean(root + "/" + name)`. -/
def joinSegs (root : List String) (name : List String) : List String :=
  (pushAll true root.reverse name).reverse

def join (root name : String) : String := render (joinSegs (absSegs root) (rawSegs name))

/-- Go `filepath.Rel` for two absolute clean paths, on segments
    (the result "." for equal paths is the empty list here). -/
def relSegs : List String → List String → List String
  | [], ts => ts
  | b :: bs, [] => List.replicate (bs.length + 1) ".."
  | b :: bs, t :: ts =>
      if b = t then relSegs bs ts else List.replicate (bs.length + 1) ".." ++ (t :: ts)

def rel (root full : String) : String :=
  match relSegs (absSegs root) (absSegs full) with
  | [] => "."
  | r => "/".intercalate r

/-- `openAllowed`: the relative path must not begin with a ".." element -/
def allowedSegs (root full : List String) : Bool :=
  (relSegs root full).head? != some ".."

def allowed (root full : String) : Bool := allowedSegs (absSegs root) (absSegs full)

/-! ### operations of the wrapper -/

/-- how a path argument of an operation reaches the underlying filesystem -/
inductive ArgKind where
  | checked      -- joined AND passed through openAllowed (closure parameter of wrapCall*)
  | joinedOnly   -- joined with `fs.join` but never range-checked
  | raw          -- handed over as given
deriving Repr, DecidableEq, BEq

structure OpSpec where
  name  : String
  under : String          -- method called on the underlying filesystem
  args  : List ArgKind    -- one entry per path argument, in order
deriving Repr, DecidableEq

/-- what the underlying filesystem sees for one argument; `none` = refused -/
def argSeen (root : List String) (k : ArgKind) (p : List String) : Option (List String) :=
  match k with
  | .checked =>
      let f := joinSegs root p
      if allowedSegs root f then some f else none
  | .joinedOnly => some (joinSegs root p)
  | .raw => some (cleanSegs true p)   -- only meaningful for absolute spellings

/-- run an operation: all arguments must be accepted; result = paths handed down -/
def runArgs (root : List String) : List ArgKind → List (List String) → Option (List (List String))
  | [], _ => some []
  | _ :: _, [] => none
  | k :: ks, p :: ps =>
      match argSeen root k p, runArgs root ks ps with
      | some f, some fs => some (f :: fs)
      | _, _ => none

def runOp (root : List String) (op : OpSpec) (paths : List String) : Option (List (List String)) :=
  runArgs root op.args (paths.map rawSegs)

/-- walk of `name` never rises above the starting directory (depth counted from 0) -/
def staysInside : Nat → List String → Bool
  | _, [] => true
  | d, s :: rest =>
      if s = "" ∨ s = "." then staysInside d rest
      else if s = ".." then (match d with | 0 => false | d' + 1 => staysInside d' rest)
      else staysInside (d + 1) rest

end SyslModel.Path
