/-
C18 — property theorems about the `Path` model.  Helper lemmas first, property
theorems (named in /verif/props/C18.json) after the marker.
-/
import SyslModel.Path.Model

namespace SyslModel.Path

/-- a segment that can appear in a cleaned absolute path -/
def Proper (s : String) : Prop := s ≠ "" ∧ s ≠ "." ∧ s ≠ ".."

def AllProper (l : List String) : Prop := ∀ s ∈ l, Proper s

instance (s : String) : Decidable (Proper s) := by unfold Proper; infer_instance
instance (l : List String) : Decidable (AllProper l) := by unfold AllProper; infer_instance

/-! ## helper lemmas -/

theorem pushSeg_true_proper (stk : List String) (seg : String) (h : AllProper stk) :
    AllProper (pushSeg true stk seg) := by
  unfold pushSeg
  split
  · exact h
  · split
    · cases stk with
      | nil => simp [AllProper]
      | cons t rest =>
        simp only
        split
        · rename_i ht
          exact absurd ht (h t (by simp)).2.2
        · intro s hs; exact h s (by simp [hs])
    · rename_i h1 h2
      intro s hs
      simp at hs
      rcases hs with rfl | hs
      · refine ⟨?_, ?_, h2⟩
        · intro e; exact h1 (Or.inl e)
        · intro e; exact h1 (Or.inr e)
      · exact h s hs

theorem pushAll_true_proper (segs : List String) (stk : List String) (h : AllProper stk) :
    AllProper (pushAll true stk segs) := by
  induction segs generalizing stk with
  | nil => simpa [pushAll] using h
  | cons a rest ih =>
    simp only [pushAll, List.foldl_cons]
    exact ih _ (pushSeg_true_proper stk a h)

theorem joinSegs_proper (root : List String) (n : List String) (h : AllProper root) :
    AllProper (joinSegs root n) := by
  unfold joinSegs
  intro s hs
  have := pushAll_true_proper n root.reverse (by intro s hs; exact h s (by simpa using hs))
  exact this s (by simpa using hs)

theorem relSegs_not_dotdot_prefix (root full : List String) (hf : ∀ s ∈ full, s ≠ "..")
    (h : (relSegs root full).head? ≠ some "..") : root <+: full := by
  induction root generalizing full with
  | nil => exact List.nil_prefix
  | cons b bs ih =>
    cases full with
    | nil => simp [relSegs, List.replicate_succ] at h
    | cons t ts =>
      unfold relSegs at h
      split at h
      · rename_i hbt
        subst hbt
        have := ih ts (fun s hs => hf s (by simp [hs])) h
        exact (List.cons_prefix_cons).2 ⟨rfl, this⟩
      · simp [List.replicate_succ] at h

/-- inside the root, the stack of the walk factors as (local stack) ++ (root stack) -/
theorem pushAll_inside (ns : List String) (loc base : List String) (hl : AllProper loc)
    (h : staysInside loc.length ns = true) :
    pushAll true (loc ++ base) ns = pushAll true loc ns ++ base := by
  induction ns generalizing loc with
  | nil => simp [pushAll]
  | cons s rest ih =>
    simp only [pushAll, List.foldl_cons]
    unfold staysInside at h
    by_cases h1 : s = "" ∨ s = "."
    · simp only [h1, ite_true] at h
      have e : ∀ st, pushSeg true st s = st := by intro st; simp [pushSeg, h1]
      rw [e, e]; exact ih loc hl h
    · simp only [h1, ite_false] at h
      by_cases h2 : s = ".."
      · simp only [h2, ite_true] at h
        cases loc with
        | nil => simp at h
        | cons t lt =>
          simp only [List.length_cons] at h
          have ht : t ≠ ".." := (hl t (by simp)).2.2
          subst h2
          have e1 : pushSeg true (t :: lt ++ base) ".." = lt ++ base := by
            simp [pushSeg, ht]
          have e2 : pushSeg true (t :: lt) ".." = lt := by
            simp [pushSeg, ht]
          rw [e1, e2]
          exact ih lt (fun s hs => hl s (by simp [hs])) h
      · simp only [h2, ite_false] at h
        have e : ∀ st, pushSeg true st s = s :: st := by
          intro st; simp [pushSeg, h1, h2]
        rw [e, e]
        have hl' : AllProper (s :: loc) := by
          intro x hx
          simp at hx
          rcases hx with rfl | hx
          · exact ⟨fun e => h1 (Or.inl e), fun e => h1 (Or.inr e), h2⟩
          · exact hl x hx
        have := ih (s :: loc) hl' (by simpa using h)
        simpa [pushAll] using this

/-! ## PROPERTY THEOREMS (C18) -/

/-- **confine**: for every clean absolute root and *every* string `n`, if the
    joined path passes `openAllowed` then the root is a segment-prefix of it. -/
theorem confine (root : List String) (n : List String) (hr : AllProper root)
    (ha : allowedSegs root (joinSegs root n) = true) : root <+: joinSegs root n := by
  have hp := joinSegs_proper root n hr
  apply relSegs_not_dotdot_prefix root _ (fun s hs => (hp s hs).2.2)
  simpa [allowedSegs] using ha

/-- the cleaned path never contains "", "." or ".." — so a segment prefix really is
    a directory prefix -/
theorem join_clean (root : List String) (n : List String) (hr : AllProper root) :
    AllProper (joinSegs root n) := joinSegs_proper root n hr

/-- **inside_ok**: a name whose walk never rises above the root is accepted and resolves
    to root ++ (its own normal form). -/
theorem inside_ok (root : List String) (n : List String) (hr : AllProper root)
    (hin : staysInside 0 n = true) :
    joinSegs root n = root ++ cleanSegs true n ∧
    allowedSegs root (joinSegs root n) = true := by
  have h := pushAll_inside n [] root.reverse (by intro s hs; simp at hs) (by simpa using hin)
  have e : joinSegs root n = root ++ cleanSegs true n := by
    unfold joinSegs cleanSegs
    simp only [List.nil_append] at h
    rw [h]; simp
  refine ⟨e, ?_⟩
  rw [e]
  have hp : AllProper (cleanSegs true n) := by
    intro s hs
    have := pushAll_true_proper n [] (by intro s hs; simp at hs)
    exact this s (by simpa [cleanSegs] using hs)
  -- relSegs root (root ++ x) = x
  have hrel : ∀ (r x : List String), relSegs r (r ++ x) = x := by
    intro r x
    induction r with
    | nil => simp [relSegs]
    | cons b bs ih => simp [relSegs, ih]
  simp only [allowedSegs, hrel]
  cases hx : cleanSegs true n with
  | nil => simp
  | cons a as =>
    have := (hp a (by simp [hx])).2.2
    simp [this]

/-- **spelling_indep**: two spellings that stay inside the root and have the same normal
    form resolve to the same file. -/
theorem spelling_indep (root : List String) (n₁ n₂ : List String) (hr : AllProper root)
    (h₁ : staysInside 0 n₁ = true) (h₂ : staysInside 0 n₂ = true)
    (he : cleanSegs true n₁ = cleanSegs true n₂) :
    joinSegs root n₁ = joinSegs root n₂ := by
  rw [(inside_ok root n₁ hr h₁).1, (inside_ok root n₂ hr h₂).1, he]

/-- one argument: a `checked` argument that is accepted is under the root -/
theorem argSeen_checked_confined (root : List String) (p : List String) (f : List String)
    (hr : AllProper root) (h : argSeen root .checked p = some f) : root <+: f := by
  unfold argSeen at h
  simp only at h
  split at h
  · rename_i ha
    cases h
    exact confine root p hr ha
  · cases h

/-- **ops_confined**: an operation all of whose path arguments are `checked` hands only
    paths under the root to the underlying filesystem, whatever strings it is given. -/
theorem runArgs_confined (root : List String) (hr : AllProper root) :
    ∀ (ks : List ArgKind) (ps : List (List String)) (fs : List (List String)),
      (∀ k ∈ ks, k = ArgKind.checked) → runArgs root ks ps = some fs →
      ∀ f ∈ fs, root <+: f := by
  intro ks
  induction ks with
  | nil =>
    intro ps fs _ h f hf
    simp [runArgs] at h; subst h; simp at hf
  | cons k ks ih =>
    intro ps fs hk h f hf
    cases ps with
    | nil => simp [runArgs] at h
    | cons p ps =>
      have hk0 : k = ArgKind.checked := hk k (by simp)
      subst hk0
      unfold runArgs at h
      split at h
      · rename_i f0 fs0 h0 h1
        cases h
        simp at hf
        rcases hf with rfl | hf
        · exact argSeen_checked_confined root p _ hr h0
        · exact ih ps fs0 (fun k hk' => hk k (by simp [hk'])) h1 f hf
      · cases h

theorem ops_confined (root : List String) (hr : AllProper root) (op : OpSpec)
    (hop : ∀ k ∈ op.args, k = ArgKind.checked) (ps : List String) (fs : List (List String))
    (h : runOp root op ps = some fs) : ∀ f ∈ fs, root <+: f :=
  runArgs_confined root hr op.args (ps.map rawSegs) fs hop h

/-- negative, for the record: a `joinedOnly` argument does escape — this is why
    `ops_all_checked` over the regenerated table is a real obligation. -/
theorem joinedOnly_escapes :
    ∃ fs, runArgs ["r"] [.checked, .joinedOnly] [["a"], ["..", "..", "x"]] = some fs ∧
      ¬ (∀ f ∈ fs, ["r"] <+: f) := by
  refine ⟨[["r", "a"], ["x"]], by decide, ?_⟩
  intro h
  have := h ["x"] (by simp)
  simp at this

/-- non-vacuity: a concrete root and name meeting the hypotheses of `confine`/`inside_ok`;
    and one that is refused -/
example : AllProper ["srv", "proj"] ∧
    allowedSegs ["srv", "proj"] (joinSegs ["srv", "proj"] ["a", "..", "b", "", ".", "c.sysl"]) = true ∧
    joinSegs ["srv", "proj"] ["a", "..", "b", "", ".", "c.sysl"] = ["srv", "proj", "b", "c.sysl"] ∧
    allowedSegs ["srv", "proj"] (joinSegs ["srv", "proj"] ["..", "x"]) = false ∧
    staysInside 0 ["a", "..", "b", "", ".", "c.sysl"] = true := by decide

end SyslModel.Path
