/-
C14 — the calls of an endpoint: `ProcessCalls` (ints_builder.go) walks the statement list of an endpoint and
collects every call statement, descending into every block (if / else / for each / while / group) and every
choice of a `one of`; a `return`, an action or any other leaf contributes nothing and does not end the walk.
Core Lean only.
-/
import SyslModel.Ints.Model

namespace SyslModel.Ints

inductive Stmt where
  | call (c : Call)
  | ret
  | action
  | block (body : List Stmt)
  | alt (choices : List (List Stmt))

instance : Inhabited Stmt := ⟨.action⟩

mutual
def flat : Stmt → List Call
  | .call c => [c]
  | .ret => []
  | .action => []
  | .block b => flatL b
  | .alt cs => flatLL cs
def flatL : List Stmt → List Call
  | [] => []
  | s :: ss => flat s ++ flatL ss
def flatLL : List (List Stmt) → List Call
  | [] => []
  | b :: bs => flatL b ++ flatLL bs
end

end SyslModel.Ints
