import SyslModel.Core.Proto
import SyslModel.Ints.Model
import SyslModel.Ints.Stmts

namespace SyslModel.Ints
open Lean (Json)
open SyslModel.Proto

/-- a statement tree as the harness writes it: {k: call|ret|action|block|alt, app, ep, body, alts} -/
partial def stmtOf (j : Json) : Stmt :=
  match strD j "k" with
  | "call" => .call ⟨strD j "app", strD j "ep"⟩
  | "ret" => .ret
  | "block" => .block ((arrD j "body").map stmtOf)
  | "alt" => .alt ((arrD j "alts").map fun a => (asArr a).map stmtOf)
  | _ => .action

def cfgOf (j : Json) : Cfg :=
  { apps := (arrD j "apps").map (fun a =>
      { name := strD a "name", human := boolD a "human",
        eps := (arrD a "eps").map (fun e =>
          { name := strD e "name", hidden := boolD e "hidden",
            -- the statement tree when it is given (the calls are then the model's own flattening of it),
            -- else a list of calls
            calls := match arr? e "stmts" with
              | some ss => flatL (ss.toList.map stmtOf)
              | none => (arrD e "calls").map (fun k => match asArr k with
                | [x, y] => ⟨asStr x, asStr y⟩
                | _ => ⟨"", ""⟩) }) })
    seeds := strList j "seeds"
    excludes := strList j "excludes"
    passthru := strList j "passthru" }

def handle (op : String) (j : Json) : Option Json :=
  match op with
  | "ints.build" =>
      let c := cfgOf j
      let st := build c
      some (Json.mkObj [
        ("final", jstrs st.finalApps),
        ("deps", jarr (st.deps.map (fun d => jstrs [d.src, d.ep, d.tgt, d.tep]))),
        ("arrows", jarr ((arrows st).map (fun p => jstrs [p.1, p.2])))])
  | _ => none

end SyslModel.Ints
