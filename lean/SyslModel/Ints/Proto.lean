import SyslModel.Core.Proto
import SyslModel.Ints.Model

namespace SyslModel.Ints
open Lean (Json)
open SyslModel.Proto

def cfgOf (j : Json) : Cfg :=
  { apps := (arrD j "apps").map (fun a =>
      { name := strD a "name", human := boolD a "human",
        eps := (arrD a "eps").map (fun e =>
          { name := strD e "name", hidden := boolD e "hidden",
            calls := (arrD e "calls").map (fun k => match asArr k with
              | [x, y] => ⟨asStr x, asStr y⟩
              | _ => ⟨"", ""⟩) }) })
    seeds := strList j "seeds"
    excludes := strList j "excludes"
    passthru := strList j "passthru" }

def handle (op : String) (j : Json) : Option Json :=
  match op with
  | "ints.build" =>
      let c := cfgOf j
      let st := build c
      some (Json.mkObj [
        ("final", jstrs st.finalApps),
        ("deps", jarr (st.deps.map (fun d => jstrs [d.src, d.ep, d.tgt, d.tep]))),
        ("arrows", jarr ((arrows st).map (fun p => jstrs [p.1, p.2])))])
  | _ => none

end SyslModel.Ints
