/-
C14 — model of pkg/integrationdiagram/ints_builder.go (`MakeBuilderfromStmt`).

An application is (name, human?, endpoints in sorted order); an endpoint is (name, hidden?,
calls in source order — the flattening of `ProcessCalls` over every statement kind).
The three passes are mirrored:
  pass 1  ProcessExcludeAndPassthrough from the seed applications, walking pass-through targets
          (with the visited set on (application, endpoint) that makes the walk terminate),
  pass 2  MyCallers over all applications,
  pass 3  IndirectCalls among FinalApps.
Dependencies are de-duplicated by (source, endpoint, target, target endpoint) like `AddCall`.
Core Lean only.
-/
namespace SyslModel.Ints

structure Call where
  app : String
  ep  : String
deriving Repr, DecidableEq

structure Ep where
  name   : String
  hidden : Bool
  calls  : List Call
deriving Repr, DecidableEq

structure App where
  name  : String
  human : Bool
  eps   : List Ep          -- sorted by name, collector endpoint removed
deriving Repr, DecidableEq

structure Dep where
  src : String
  ep  : String
  tgt : String
  tep : String
deriving Repr, DecidableEq

structure Cfg where
  apps     : List App      -- sorted by name
  seeds    : List String   -- action statements of the project endpoint, in order
  excludes : List String
  passthru : List String
deriving Repr

def Cfg.app? (c : Cfg) (n : String) : Option App := c.apps.find? (fun a => a.name == n)
def Cfg.human (c : Cfg) (n : String) : Bool := match c.app? n with | some a => a.human | none => false
def Cfg.ep? (c : Cfg) (a e : String) : Option Ep :=
  match c.app? a with
  | some x => x.eps.find? (fun p => p.name == e)
  | none => none
def Cfg.hidden (c : Cfg) (a e : String) : Bool := match c.ep? a e with | some p => p.hidden | none => false
def Cfg.callsOf (c : Cfg) (a e : String) : List Call := match c.ep? a e with | some p => p.calls | none => []

structure St where
  finalApps : List String
  deps      : List Dep
deriving Repr, DecidableEq

def addCall (st : St) (d : Dep) : St :=
  if d ∈ st.deps then st else { st with deps := st.deps ++ [d] }

/-- seed applications: named by an action statement, existing, not human -/
def seedApps (c : Cfg) : List String :=
  c.seeds.filter (fun n => match c.app? n with | some a => !a.human | none => false)

/-- every (source, endpoint, call) of an application, endpoints in sorted order -/
def workOf (c : Cfg) (a : App) : List (String × String × Call) :=
  a.eps.flatMap (fun e => (c.callsOf a.name e.name).map (fun cl => (a.name, e.name, cl)))

/-- pass 1 with the recursive pass-through walk unfolded into a work list (depth first, the
    callee's calls before the caller's remaining ones, exactly the Go recursion order).
    `rem` = pass-through endpoints not walked yet. -/
def pass1 (c : Cfg) : (rem : List (String × String)) → (work : List (String × String × Call)) → St → St
  | _, [], st => st
  | rem, (src, ep, cl) :: w, st =>
    if c.excludes.contains cl.app || c.human cl.app then pass1 c rem w st
    else
      let st1 := if c.hidden cl.app cl.ep then st else addCall st ⟨src, ep, cl.app, cl.ep⟩
      let st2 := { st1 with finalApps := st1.finalApps ++ [cl.app] }
      if h : c.passthru.contains cl.app ∧ (cl.app, cl.ep) ∈ rem then
        pass1 c (rem.erase (cl.app, cl.ep))
          ((c.callsOf cl.app cl.ep).map (fun k => (cl.app, cl.ep, k)) ++ w) st2
      else pass1 c rem w st2
termination_by rem w => (rem.length, w.length)
decreasing_by
  · apply Prod.Lex.right; simp
  · apply Prod.Lex.left
    rw [List.length_erase_of_mem h.2]
    have := List.length_pos_of_mem h.2
    omega
  · apply Prod.Lex.right; simp

def pass2 (c : Cfg) (seedSet : List String) : List (String × String × Call) → St → St
  | [], st => st
  | (src, ep, cl) :: w, st =>
    if c.excludes.contains src || !(seedSet.contains cl.app) || c.human cl.app then pass2 c seedSet w st
    else
      let st1 := if c.hidden cl.app cl.ep then st else addCall st ⟨src, ep, cl.app, cl.ep⟩
      pass2 c seedSet w { st1 with finalApps := st1.finalApps ++ [src] }

def pass3 (c : Cfg) (finalSet : List String) : List (String × String × Call) → St → St
  | [], st => st
  | (src, ep, cl) :: w, st =>
    if !(finalSet.contains cl.app) || c.human cl.app then pass3 c finalSet w st
    else
      let st1 := if c.hidden cl.app cl.ep then st else addCall st ⟨src, ep, cl.app, cl.ep⟩
      pass3 c finalSet w st1

def allPassthruEps (c : Cfg) : List (String × String) :=
  (c.apps.flatMap (fun a => a.eps.map (fun e => (a.name, e.name)))).eraseDups

def build (c : Cfg) : St :=
  let seeds := seedApps c
  let st0 : St := { finalApps := seeds, deps := [] }
  let w1 := seeds.flatMap (fun n => match c.app? n with | some a => workOf c a | none => [])
  let st1 := pass1 c (allPassthruEps c) w1 st0
  let wAll := c.apps.flatMap (workOf c)
  let st2 := pass2 c seeds wAll st1
  let w3 := st2.finalApps.flatMap (fun n => match c.app? n with | some a => workOf c a | none => [])
  pass3 c st2.finalApps w3 st2

/-- arrows of the plain view: one per ordered pair of distinct applications -/
def arrows (st : St) : List (String × String) :=
  ((st.deps.filter (fun d => d.src != d.tgt)).map (fun d => (d.src, d.tgt))).eraseDups

/-- is (t, te) called from endpoint e of application a in the model? -/
def Cfg.isCall (c : Cfg) (d : Dep) : Prop := (⟨d.tgt, d.tep⟩ : Call) ∈ c.callsOf d.src d.ep

end SyslModel.Ints
