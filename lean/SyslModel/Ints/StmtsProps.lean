import SyslModel.Ints.Stmts

namespace SyslModel.Ints

/-! ## PROPERTY THEOREMS (C14: every call among the statements is collected, in source order) -/

/-- **flatL_append**: the calls of a statement list are those of any prefix followed by those of the rest -/
theorem flatL_append (a b : List Stmt) : flatL (a ++ b) = flatL a ++ flatL b := by
  induction a with
  | nil => simp [flatL]
  | cons s ss ih => simp [flatL, ih, List.append_assoc]

theorem flatLL_append (a b : List (List Stmt)) : flatLL (a ++ b) = flatLL a ++ flatLL b := by
  induction a with
  | nil => simp [flatLL]
  | cons s ss ih => simp [flatLL, ih, List.append_assoc]

/-- **calls_after_return_kept**: a `return` anywhere in a statement list takes nothing away: what follows it
    is still collected -/
theorem calls_after_return_kept (pre post : List Stmt) :
    flatL (pre ++ Stmt.ret :: post) = flatL pre ++ flatL post := by
  rw [flatL_append]; simp [flatL, flat]

/-- **call_in_list_collected**: a call statement at any position of a list is collected, between the calls
    before it and those after it -/
theorem call_in_list_collected (pre post : List Stmt) (c : Call) :
    flatL (pre ++ Stmt.call c :: post) = flatL pre ++ c :: flatL post := by
  rw [flatL_append]; simp [flatL, flat]

/-- **block_and_choices_descended**: a block contributes the calls of its body, a `one of` those of every
    choice, first to last -/
theorem block_and_choices_descended (pre post body : List Stmt) (choices : List (List Stmt)) :
    flatL (pre ++ Stmt.block body :: post) = flatL pre ++ flatL body ++ flatL post ∧
    flatL (pre ++ Stmt.alt choices :: post) = flatL pre ++ flatLL choices ++ flatL post := by
  constructor <;> (rw [flatL_append]; simp [flatL, flat, List.append_assoc])

example : flatL [.call ⟨"A", "a"⟩, .ret, .block [.ret, .call ⟨"B", "b"⟩], .alt [[.call ⟨"C", "c"⟩], [.ret, .call ⟨"D", "d"⟩]]]
    = [⟨"A", "a"⟩, ⟨"B", "b"⟩, ⟨"C", "c"⟩, ⟨"D", "d"⟩] := by decide

end SyslModel.Ints
