/-
C14 — theorems about the integration-diagram builder model.
-/
import SyslModel.Ints.Model

namespace SyslModel.Ints

abbrev Item := String × String × Call

def depOf (i : Item) : Dep := ⟨i.1, i.2.1, i.2.2.app, i.2.2.ep⟩

/-! ## helper lemmas -/

theorem addCall_mem (st : St) (d x : Dep) : x ∈ (addCall st d).deps ↔ x ∈ st.deps ∨ x = d := by
  unfold addCall
  split
  · rename_i h
    constructor
    · intro hx; exact Or.inl hx
    · rintro (hx | rfl)
      · exact hx
      · exact h
  · simp

theorem addCall_final (st : St) (d : Dep) : (addCall st d).finalApps = st.finalApps := by
  unfold addCall; split <;> rfl

/-- generic invariant of pass 1: `Q` holds of every processed item when it holds of the initial
    work and is closed under spawning the calls of a walked pass-through endpoint -/
theorem pass1_gen (c : Cfg) (Q : Item → Prop)
    (hspawn : ∀ (src ep : String) (cl k : Call), Q (src, ep, cl) → c.excludes.contains cl.app = false →
      c.human cl.app = false → k ∈ c.callsOf cl.app cl.ep → Q (cl.app, cl.ep, k))
    (rem : List (String × String)) (w : List Item) (st : St) (hw : ∀ i ∈ w, Q i) :
    (∀ d ∈ (pass1 c rem w st).deps, d ∈ st.deps ∨
        ∃ i, Q i ∧ c.excludes.contains i.2.2.app = false ∧ c.human i.2.2.app = false ∧ d = depOf i) ∧
    (∀ a ∈ (pass1 c rem w st).finalApps, a ∈ st.finalApps ∨
        ∃ i, Q i ∧ c.excludes.contains i.2.2.app = false ∧ c.human i.2.2.app = false ∧ a = i.2.2.app) := by
  fun_induction pass1 c rem w st with
  | case1 rem st => exact ⟨fun d hd => Or.inl hd, fun a ha => Or.inl ha⟩
  | case2 rem src ep cl w st hskip ih =>
    exact ih (fun i hi => hw i (by simp [hi]))
  | case3 rem src ep cl w st hskip st1 st2 hwalk ih =>
    have hq : Q (src, ep, cl) := hw _ (by simp)
    have hex : c.excludes.contains cl.app = false := by
      simp only [Bool.or_eq_true, not_or, Bool.not_eq_true] at hskip; exact hskip.1
    have hhu : c.human cl.app = false := by
      simp only [Bool.or_eq_true, not_or, Bool.not_eq_true] at hskip; exact hskip.2
    have hw' : ∀ i ∈ (c.callsOf cl.app cl.ep).map (fun k => (cl.app, cl.ep, k)) ++ w, Q i := by
      intro i hi
      simp at hi
      rcases hi with ⟨k, hk, rfl⟩ | hi
      · exact hspawn src ep cl k hq hex hhu hk
      · exact hw i (by simp [hi])
    obtain ⟨a, b⟩ := ih hw'
    constructor
    · intro d hd
      rcases a d hd with h | h
      · -- d ∈ st2.deps = st1.deps
        have : d ∈ st1.deps := h
        simp only [st1] at this
        split at this
        · exact Or.inl this
        · rcases (addCall_mem st _ d).1 this with h' | rfl
          · exact Or.inl h'
          · exact Or.inr ⟨(src, ep, cl), hq, hex, hhu, rfl⟩
      · exact Or.inr h
    · intro x hx
      rcases b x hx with h | h
      · have : x ∈ st1.finalApps ++ [cl.app] := h
        simp at this
        rcases this with h' | rfl
        · left
          simp only [st1] at h'
          split at h'
          · exact h'
          · rw [addCall_final] at h'; exact h'
        · exact Or.inr ⟨(src, ep, cl), hq, hex, hhu, rfl⟩
      · exact Or.inr h
  | case4 rem src ep cl w st hskip st1 st2 hwalk ih =>
    have hq : Q (src, ep, cl) := hw _ (by simp)
    have hex : c.excludes.contains cl.app = false := by
      simp only [Bool.or_eq_true, not_or, Bool.not_eq_true] at hskip; exact hskip.1
    have hhu : c.human cl.app = false := by
      simp only [Bool.or_eq_true, not_or, Bool.not_eq_true] at hskip; exact hskip.2
    obtain ⟨a, b⟩ := ih (fun i hi => hw i (by simp [hi]))
    constructor
    · intro d hd
      rcases a d hd with h | h
      · have : d ∈ st1.deps := h
        simp only [st1] at this
        split at this
        · exact Or.inl this
        · rcases (addCall_mem st _ d).1 this with h' | rfl
          · exact Or.inl h'
          · exact Or.inr ⟨(src, ep, cl), hq, hex, hhu, rfl⟩
      · exact Or.inr h
    · intro x hx
      rcases b x hx with h | h
      · have : x ∈ st1.finalApps ++ [cl.app] := h
        simp at this
        rcases this with h' | rfl
        · left
          simp only [st1] at h'
          split at h'
          · exact h'
          · rw [addCall_final] at h'; exact h'
        · exact Or.inr ⟨(src, ep, cl), hq, hex, hhu, rfl⟩
      · exact Or.inr h

end SyslModel.Ints
