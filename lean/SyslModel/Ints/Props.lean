/-
C14 — theorems about the integration-diagram builder model.
-/
import SyslModel.Ints.Model

namespace SyslModel.Ints

abbrev Item := String × String × Call

def depOf (i : Item) : Dep := ⟨i.1, i.2.1, i.2.2.app, i.2.2.ep⟩

/-! ## helper lemmas -/

theorem addCall_mem (st : St) (d x : Dep) : x ∈ (addCall st d).deps ↔ x ∈ st.deps ∨ x = d := by
  unfold addCall
  split
  · rename_i h
    constructor
    · intro hx; exact Or.inl hx
    · rintro (hx | rfl)
      · exact hx
      · exact h
  · simp

theorem addCall_final (st : St) (d : Dep) : (addCall st d).finalApps = st.finalApps := by
  unfold addCall; split <;> rfl

/-- generic invariant of pass 1: `Q` holds of every processed item when it holds of the initial
    work and is closed under spawning the calls of a walked pass-through endpoint -/
theorem pass1_gen (c : Cfg) (Q : Item → Prop)
    (hspawn : ∀ (src ep : String) (cl k : Call), Q (src, ep, cl) → c.excludes.contains cl.app = false →
      c.human cl.app = false → k ∈ c.callsOf cl.app cl.ep → Q (cl.app, cl.ep, k))
    (rem : List (String × String)) (w : List Item) (st : St) (hw : ∀ i ∈ w, Q i) :
    (∀ d ∈ (pass1 c rem w st).deps, d ∈ st.deps ∨
        ∃ i, Q i ∧ c.excludes.contains i.2.2.app = false ∧ c.human i.2.2.app = false ∧ d = depOf i) ∧
    (∀ a ∈ (pass1 c rem w st).finalApps, a ∈ st.finalApps ∨
        ∃ i, Q i ∧ c.excludes.contains i.2.2.app = false ∧ c.human i.2.2.app = false ∧ a = i.2.2.app) := by
  fun_induction pass1 c rem w st with
  | case1 rem st => exact ⟨fun d hd => Or.inl hd, fun a ha => Or.inl ha⟩
  | case2 rem src ep cl w st hskip ih =>
    exact ih (fun i hi => hw i (by simp [hi]))
  | case3 rem src ep cl w st hskip st1 st2 hwalk ih =>
    have hq : Q (src, ep, cl) := hw _ (by simp)
    have hex : c.excludes.contains cl.app = false := by
      simp only [Bool.or_eq_true, not_or, Bool.not_eq_true] at hskip; exact hskip.1
    have hhu : c.human cl.app = false := by
      simp only [Bool.or_eq_true, not_or, Bool.not_eq_true] at hskip; exact hskip.2
    have hw' : ∀ i ∈ (c.callsOf cl.app cl.ep).map (fun k => (cl.app, cl.ep, k)) ++ w, Q i := by
      intro i hi
      simp at hi
      rcases hi with ⟨k, hk, rfl⟩ | hi
      · exact hspawn src ep cl k hq hex hhu hk
      · exact hw i (by simp [hi])
    obtain ⟨a, b⟩ := ih hw'
    constructor
    · intro d hd
      rcases a d hd with h | h
      · -- d ∈ st2.deps = st1.deps
        have : d ∈ st1.deps := h
        simp only [st1] at this
        split at this
        · exact Or.inl this
        · rcases (addCall_mem st _ d).1 this with h' | rfl
          · exact Or.inl h'
          · exact Or.inr ⟨(src, ep, cl), hq, hex, hhu, rfl⟩
      · exact Or.inr h
    · intro x hx
      rcases b x hx with h | h
      · have : x ∈ st1.finalApps ++ [cl.app] := h
        simp at this
        rcases this with h' | rfl
        · left
          simp only [st1] at h'
          split at h'
          · exact h'
          · rw [addCall_final] at h'; exact h'
        · exact Or.inr ⟨(src, ep, cl), hq, hex, hhu, rfl⟩
      · exact Or.inr h
  | case4 rem src ep cl w st hskip st1 st2 hwalk ih =>
    have hq : Q (src, ep, cl) := hw _ (by simp)
    have hex : c.excludes.contains cl.app = false := by
      simp only [Bool.or_eq_true, not_or, Bool.not_eq_true] at hskip; exact hskip.1
    have hhu : c.human cl.app = false := by
      simp only [Bool.or_eq_true, not_or, Bool.not_eq_true] at hskip; exact hskip.2
    obtain ⟨a, b⟩ := ih (fun i hi => hw i (by simp [hi]))
    constructor
    · intro d hd
      rcases a d hd with h | h
      · have : d ∈ st1.deps := h
        simp only [st1] at this
        split at this
        · exact Or.inl this
        · rcases (addCall_mem st _ d).1 this with h' | rfl
          · exact Or.inl h'
          · exact Or.inr ⟨(src, ep, cl), hq, hex, hhu, rfl⟩
      · exact Or.inr h
    · intro x hx
      rcases b x hx with h | h
      · have : x ∈ st1.finalApps ++ [cl.app] := h
        simp at this
        rcases this with h' | rfl
        · left
          simp only [st1] at h'
          split at h'
          · exact h'
          · rw [addCall_final] at h'; exact h'
        · exact Or.inr ⟨(src, ep, cl), hq, hex, hhu, rfl⟩
      · exact Or.inr h


theorem pass1_mono (c : Cfg) (rem : List (String × String)) (w : List Item) (st : St) :
    (∀ d ∈ st.deps, d ∈ (pass1 c rem w st).deps) := by
  fun_induction pass1 c rem w st with
  | case1 rem st => exact fun d hd => hd
  | case2 rem src ep cl w st hskip ih => exact ih
  | case3 rem src ep cl w st hskip st1 st2 hwalk ih =>
    intro d hd
    apply ih
    show d ∈ st1.deps
    simp only [st1]
    split
    · exact hd
    · exact (addCall_mem st _ d).2 (Or.inl hd)
  | case4 rem src ep cl w st hskip st1 st2 hwalk ih =>
    intro d hd
    apply ih
    show d ∈ st1.deps
    simp only [st1]
    split
    · exact hd
    · exact (addCall_mem st _ d).2 (Or.inl hd)

/-- every work item that passes the exclusion / human / hidden tests ends up as a dependency -/
theorem pass1_complete (c : Cfg) (rem : List (String × String)) (w : List Item) (st : St) :
    ∀ i ∈ w, c.excludes.contains i.2.2.app = false → c.human i.2.2.app = false →
      c.hidden i.2.2.app i.2.2.ep = false → depOf i ∈ (pass1 c rem w st).deps := by
  fun_induction pass1 c rem w st with
  | case1 rem st => intro i hi; cases hi
  | case2 rem src ep cl w st hskip ih =>
    intro i hi hex hhu hhi
    simp at hi
    rcases hi with rfl | hi
    · simp only [Bool.or_eq_true] at hskip
      rcases hskip with h | h
      · rw [hex] at h; cases h
      · rw [hhu] at h; cases h
    · exact ih i hi hex hhu hhi
  | case3 rem src ep cl w st hskip st1 st2 hwalk ih =>
    intro i hi hex hhu hhi
    simp at hi
    rcases hi with rfl | hi
    · apply pass1_mono
      show depOf (src, ep, cl) ∈ st1.deps
      simp only [st1, hhi]
      exact (addCall_mem st _ _).2 (Or.inr rfl)
    · exact ih i (by simp [hi]) hex hhu hhi
  | case4 rem src ep cl w st hskip st1 st2 hwalk ih =>
    intro i hi hex hhu hhi
    simp at hi
    rcases hi with rfl | hi
    · apply pass1_mono
      show depOf (src, ep, cl) ∈ st1.deps
      simp only [st1, hhi]
      exact (addCall_mem st _ _).2 (Or.inr rfl)
    · exact ih i hi hex hhu hhi

theorem pass2_gen (c : Cfg) (seedSet : List String) (w : List Item) (st : St) :
    (∀ d ∈ (pass2 c seedSet w st).deps, d ∈ st.deps ∨
        ∃ i ∈ w, c.excludes.contains i.1 = false ∧ seedSet.contains i.2.2.app = true ∧ d = depOf i) ∧
    (∀ a ∈ (pass2 c seedSet w st).finalApps, a ∈ st.finalApps ∨
        ∃ i ∈ w, c.excludes.contains i.1 = false ∧ a = i.1) ∧
    (∀ d ∈ st.deps, d ∈ (pass2 c seedSet w st).deps) := by
  induction w generalizing st with
  | nil => exact ⟨fun d hd => Or.inl hd, fun a ha => Or.inl ha, fun d hd => hd⟩
  | cons i w ih =>
    obtain ⟨src, ep, cl⟩ := i
    simp only [pass2]
    split
    · obtain ⟨a, b, m⟩ := ih st
      refine ⟨?_, ?_, m⟩
      · intro d hd
        rcases a d hd with h | ⟨i, hi, h⟩
        · exact Or.inl h
        · exact Or.inr ⟨i, by simp [hi], h⟩
      · intro x hx
        rcases b x hx with h | ⟨i, hi, h⟩
        · exact Or.inl h
        · exact Or.inr ⟨i, by simp [hi], h⟩
    · rename_i hcond
      simp only [Bool.or_eq_true, not_or, Bool.not_eq_true, Bool.not_eq_eq_eq_not, Bool.not_true] at hcond
      obtain ⟨⟨hex, hseed⟩, _⟩ := hcond
      have hseed' : seedSet.contains cl.app = true := by
        cases hq : seedSet.contains cl.app <;> simp_all
      obtain ⟨a, b, m⟩ := ih { (if c.hidden cl.app cl.ep then st else addCall st ⟨src, ep, cl.app, cl.ep⟩) with
          finalApps := (if c.hidden cl.app cl.ep then st else addCall st ⟨src, ep, cl.app, cl.ep⟩).finalApps ++ [src] }
      refine ⟨?_, ?_, ?_⟩
      · intro d hd
        rcases a d hd with h | ⟨i, hi, h⟩
        · simp only at h
          split at h
          · exact Or.inl h
          · rcases (addCall_mem st _ d).1 h with h' | rfl
            · exact Or.inl h'
            · exact Or.inr ⟨(src, ep, cl), by simp, hex, hseed', rfl⟩
        · exact Or.inr ⟨i, by simp [hi], h⟩
      · intro x hx
        rcases b x hx with h | ⟨i, hi, h⟩
        · simp only at h
          simp at h
          rcases h with h | h
          · left
            split at h
            · exact h
            · rw [addCall_final] at h; exact h
          · exact Or.inr ⟨(src, ep, cl), by simp, hex, h⟩
        · exact Or.inr ⟨i, by simp [hi], h⟩
      · intro d hd
        apply m
        simp only
        split
        · exact hd
        · exact (addCall_mem st _ d).2 (Or.inl hd)

theorem pass3_gen (c : Cfg) (finalSet : List String) (w : List Item) (st : St) :
    (∀ d ∈ (pass3 c finalSet w st).deps, d ∈ st.deps ∨
        ∃ i ∈ w, finalSet.contains i.2.2.app = true ∧ d = depOf i) ∧
    (pass3 c finalSet w st).finalApps = st.finalApps ∧
    (∀ d ∈ st.deps, d ∈ (pass3 c finalSet w st).deps) := by
  induction w generalizing st with
  | nil => exact ⟨fun d hd => Or.inl hd, rfl, fun d hd => hd⟩
  | cons i w ih =>
    obtain ⟨src, ep, cl⟩ := i
    simp only [pass3]
    split
    · obtain ⟨a, b, m⟩ := ih st
      refine ⟨?_, b, m⟩
      intro d hd
      rcases a d hd with h | ⟨i, hi, h⟩
      · exact Or.inl h
      · exact Or.inr ⟨i, by simp [hi], h⟩
    · rename_i hcond
      simp only [Bool.or_eq_true, not_or, Bool.not_eq_true, Bool.not_eq_eq_eq_not, Bool.not_true] at hcond
      have hfin : finalSet.contains cl.app = true := by
        cases hq : finalSet.contains cl.app <;> simp_all
      obtain ⟨a, b, m⟩ := ih (if c.hidden cl.app cl.ep then st else addCall st ⟨src, ep, cl.app, cl.ep⟩)
      refine ⟨?_, ?_, ?_⟩
      · intro d hd
        rcases a d hd with h | ⟨i, hi, h⟩
        · split at h
          · exact Or.inl h
          · rcases (addCall_mem st _ d).1 h with h' | rfl
            · exact Or.inl h'
            · exact Or.inr ⟨(src, ep, cl), by simp, hfin, rfl⟩
        · exact Or.inr ⟨i, by simp [hi], h⟩
      · rw [b]; split
        · rfl
        · exact addCall_final _ _
      · intro d hd
        apply m
        split
        · exact hd
        · exact (addCall_mem st _ d).2 (Or.inl hd)

/-- items of `workOf` are real calls of the model -/
theorem workOf_isCall (c : Cfg) (a : App) : ∀ i ∈ workOf c a, i.2.2 ∈ c.callsOf i.1 i.2.1 := by
  intro i hi
  simp only [workOf, List.mem_flatMap, List.mem_map] at hi
  obtain ⟨e, _, k, hk, rfl⟩ := hi
  exact hk

theorem workOf_src (c : Cfg) (a : App) : ∀ i ∈ workOf c a, i.1 = a.name := by
  intro i hi
  simp only [workOf, List.mem_flatMap, List.mem_map] at hi
  obtain ⟨e, _, k, _, rfl⟩ := hi
  rfl

theorem app?_name (c : Cfg) (n : String) (a : App) (h : c.app? n = some a) : a.name = n := by
  unfold Cfg.app? at h
  have := List.find?_some h
  simpa using this

/-! ## PROPERTY THEOREMS (C14) -/

/-- **ints_sound**: every dependency the builder records (hence every arrow drawn from it)
    is a call statement of the source application's endpoint to the target, in the model. -/
theorem ints_sound (c : Cfg) : ∀ d ∈ (build c).deps, c.isCall d := by
  intro d hd
  unfold build at hd
  simp only at hd
  -- pass 3
  rcases (pass3_gen c _ _ _).1 d hd with h3 | ⟨i, hi, _, rfl⟩
  · -- pass 2
    rcases (pass2_gen c _ _ _).1 d h3 with h2 | ⟨i, hi, _, _, rfl⟩
    · -- pass 1
      have Q : ∀ i ∈ (seedApps c).flatMap (fun n => match c.app? n with | some a => workOf c a | none => []),
          (fun (i : Item) => i.2.2 ∈ c.callsOf i.1 i.2.1) i := by
        intro i hi
        simp only [List.mem_flatMap] at hi
        obtain ⟨n, _, hin⟩ := hi
        cases hq : c.app? n with
        | none => simp [hq] at hin
        | some a => simp only [hq] at hin; exact workOf_isCall c a i hin
      rcases (pass1_gen c (fun i => i.2.2 ∈ c.callsOf i.1 i.2.1)
          (fun src ep cl k _ _ _ hk => hk) _ _ _ Q).1 d h2 with h1 | ⟨i, hq, _, _, rfl⟩
      · cases h1
      · exact hq
    · simp only [List.mem_flatMap] at hi
      obtain ⟨a, _, hia⟩ := hi
      exact workOf_isCall c a i hia
  · simp only [List.mem_flatMap] at hi
    obtain ⟨n, _, hin⟩ := hi
    cases hq : c.app? n with
    | none => simp [hq] at hin
    | some a => simp only [hq] at hin; exact workOf_isCall c a i hin

/-- **ints_complete**: every call from a seed (listed) application to an application that is
    not excluded and not a human actor, to an endpoint that is not hidden, is recorded. -/
theorem ints_complete (c : Cfg) (n : String) (a : App) (hs : n ∈ seedApps c) (ha : c.app? n = some a)
    (e : Ep) (he : e ∈ a.eps) (cl : Call) (hc : cl ∈ c.callsOf a.name e.name)
    (hex : c.excludes.contains cl.app = false) (hhu : c.human cl.app = false)
    (hhi : c.hidden cl.app cl.ep = false) :
    (⟨a.name, e.name, cl.app, cl.ep⟩ : Dep) ∈ (build c).deps := by
  unfold build
  simp only
  apply (pass3_gen c _ _ _).2.2
  apply (pass2_gen c _ _ _).2.2
  have : (a.name, e.name, cl) ∈ (seedApps c).flatMap (fun n => match c.app? n with | some a => workOf c a | none => []) := by
    simp only [List.mem_flatMap]
    refine ⟨n, hs, ?_⟩
    simp only [ha, workOf, List.mem_flatMap, List.mem_map]
    exact ⟨e, he, cl, hc, rfl⟩
  exact pass1_complete c _ _ _ _ this hex hhu hhi

/-- **ints_no_excluded**: when no listed application is itself on the exclude list, no
    recorded dependency (hence no arrow) touches an excluded application. -/
theorem ints_no_excluded (c : Cfg) (hseed : ∀ s ∈ c.seeds, c.excludes.contains s = false) :
    ∀ d ∈ (build c).deps, c.excludes.contains d.src = false ∧ c.excludes.contains d.tgt = false := by
  have hsa : ∀ s ∈ seedApps c, c.excludes.contains s = false := by
    intro s hs
    simp only [seedApps, List.mem_filter] at hs
    exact hseed s hs.1
  let w1 : List Item := (seedApps c).flatMap (fun n => match c.app? n with | some a => workOf c a | none => [])
  let st0 : St := { finalApps := seedApps c, deps := [] }
  let s1 : St := pass1 c (allPassthruEps c) w1 st0
  let s2 : St := pass2 c (seedApps c) (c.apps.flatMap (workOf c)) s1
  let w3 : List Item := s2.finalApps.flatMap (fun n => match c.app? n with | some a => workOf c a | none => [])
  have hb : build c = pass3 c s2.finalApps w3 s2 := rfl
  -- work of pass 1 has non-excluded sources
  have Q1 : ∀ i ∈ w1, (fun (i : Item) => c.excludes.contains i.1 = false) i := by
    intro i hi
    simp only [w1, List.mem_flatMap] at hi
    obtain ⟨n, hn, hin⟩ := hi
    cases hq : c.app? n with
    | none => simp [hq] at hin
    | some a =>
      simp only [hq] at hin
      have := workOf_src c a i hin
      show c.excludes.contains i.1 = false
      rw [this, app?_name c n a hq]
      exact hsa n hn
  have P1 := pass1_gen c (fun i => c.excludes.contains i.1 = false)
      (fun src ep cl k _ hex _ _ => hex) (allPassthruEps c) w1 st0 Q1
  have D1 : ∀ d ∈ s1.deps, c.excludes.contains d.src = false ∧ c.excludes.contains d.tgt = false := by
    intro d hd
    rcases P1.1 d hd with h | ⟨i, hq, hex, _, rfl⟩
    · cases h
    · exact ⟨hq, hex⟩
  have F1 : ∀ x ∈ s1.finalApps, c.excludes.contains x = false := by
    intro x hx
    rcases P1.2 x hx with h | ⟨i, _, hex, _, rfl⟩
    · exact hsa x h
    · exact hex
  have F2 : ∀ x ∈ s2.finalApps, c.excludes.contains x = false := by
    intro x hx
    rcases (pass2_gen c (seedApps c) (c.apps.flatMap (workOf c)) s1).2.1 x hx with h | ⟨j, _, hex, rfl⟩
    · exact F1 x h
    · exact hex
  have hseedset : ∀ x, (seedApps c).contains x = true → c.excludes.contains x = false := by
    intro x hx; exact hsa x (by simpa using hx)
  intro d hd
  rw [hb] at hd
  rcases (pass3_gen c s2.finalApps w3 s2).1 d hd with h3 | ⟨i, hi, hfin, rfl⟩
  · rcases (pass2_gen c (seedApps c) (c.apps.flatMap (workOf c)) s1).1 d h3 with h2 | ⟨i, _, hex, hs, rfl⟩
    · exact D1 d h2
    · exact ⟨hex, hseedset _ hs⟩
  · simp only [w3, List.mem_flatMap] at hi
    obtain ⟨n, hn, hin⟩ := hi
    cases hq : c.app? n with
    | none => simp [hq] at hin
    | some a =>
      simp only [hq] at hin
      have hsrc := workOf_src c a i hin
      refine ⟨?_, F2 _ (by simpa [depOf] using hfin)⟩
      show c.excludes.contains i.1 = false
      rw [hsrc, app?_name c n a hq]
      exact F2 n hn

/-- the excluded point of `ints_no_excluded`: a listed application that is itself excluded IS
    drawn (pass 1 does not test the source) -/
theorem excluded_seed_is_drawn :
    let c : Cfg := { apps := [⟨"A", false, [⟨"e", false, [⟨"B", "f"⟩]⟩]⟩, ⟨"B", false, [⟨"f", false, []⟩]⟩],
                     seeds := ["A"], excludes := ["A"], passthru := [] }
    (build c).deps = [⟨"A", "e", "B", "f"⟩] := by
  simp [build, seedApps, Cfg.app?, workOf, Cfg.callsOf, Cfg.ep?, allPassthruEps, pass1, pass2, pass3,
    Cfg.human, Cfg.hidden, addCall, List.eraseDups]

end SyslModel.Ints
