import SyslModel.Export.Model

namespace SyslModel.Export

theorem mem_insertSorted (x y : String) (l : List String) : y ∈ insertSorted x l ↔ y = x ∨ y ∈ l := by
  induction l with
  | nil => simp [insertSorted]
  | cons z zs ih =>
    simp only [insertSorted]
    split
    · simp
    · simp only [List.mem_cons, ih]
      constructor
      · rintro (h | h | h)
        · exact Or.inr (Or.inl h)
        · exact Or.inl h
        · exact Or.inr (Or.inr h)
      · rintro (h | h | h)
        · exact Or.inr (Or.inl h)
        · exact Or.inl h
        · exact Or.inr (Or.inr h)

theorem mem_sortNames (y : String) (l : List String) : y ∈ sortNames l ↔ y ∈ l := by
  induction l with
  | nil => simp [sortNames]
  | cons x xs ih =>
    simp only [sortNames, List.foldr_cons] at ih ⊢
    rw [mem_insertSorted, ih]; simp

theorem length_insertSorted (x : String) (l : List String) : (insertSorted x l).length = l.length + 1 := by
  induction l with
  | nil => simp [insertSorted]
  | cons z zs ih => simp only [insertSorted]; split <;> simp [ih]

theorem length_sortNames (l : List String) : (sortNames l).length = l.length := by
  induction l with
  | nil => simp [sortNames]
  | cons x xs ih => simp only [sortNames, List.foldr_cons] at ih ⊢; rw [length_insertSorted, ih]; simp

/-! ## PROPERTY THEOREMS (C12) -/

/-- **properties_exact**: the schema of a tuple has one property per declared field, named after
    it, in declaration order - no field is dropped, none is invented -/
theorem properties_exact (fs : List Field) : (exportTuple fs).properties.map (·.1) = fs.map (·.name) := by
  simp [exportTuple, List.map_map, Function.comp_def]

/-- **required_exact**: a name is listed under `required` exactly when a non-optional field has
    that name - for every number of fields (not only the first two) -/
theorem required_exact (fs : List Field) (n : String) :
    n ∈ (exportTuple fs).required ↔ ∃ f ∈ fs, f.opt = false ∧ f.name = n := by
  simp only [exportTuple, mem_sortNames, List.mem_map, List.mem_filter]
  constructor
  · rintro ⟨f, ⟨hf, ho⟩, rfl⟩; exact ⟨f, hf, by simpa using ho, rfl⟩
  · rintro ⟨f, hf, ho, rfl⟩; exact ⟨f, ⟨hf, by simp [ho]⟩, rfl⟩

/-- the `required` list has one entry per non-optional field (no entry is lost to sorting) -/
theorem required_count (fs : List Field) : (exportTuple fs).required.length = (fs.filter (!·.opt)).length := by
  simp [exportTuple, length_sortNames]

/-- **array_ness_kept**: a sequence field, optional or not, is an array whose items are the
    element's schema; a non-sequence field is never an array -/
theorem array_ness_kept (f : Field) :
    (f.seq = true → fieldSchema f = .array (kindSchema f.kind)) ∧
    (f.seq = false → ∀ s, fieldSchema f ≠ .array s) := by
  constructor
  · intro h; simp [fieldSchema, h]
  · intro h s; simp only [fieldSchema, h]; cases f.kind <;> simp [kindSchema]

/-- **reference_target_kept**: a reference becomes a `$ref` to the schema of the same name -/
theorem reference_target_kept (t u : String) (h : kindSchema (.ref t) = kindSchema (.ref u)) : t = u := by
  simpa [kindSchema] using h

theorem insertByNum_perm (x : Int × String) (l : List (Int × String)) : (insertByNum x l).Perm (x :: l) := by
  induction l with
  | nil => exact List.Perm.refl _
  | cons y ys ih =>
    unfold insertByNum
    split
    · exact List.Perm.refl _
    · exact (List.Perm.cons y ih).trans (List.Perm.swap x y ys)

theorem sortByNum_perm (items : List (Int × String)) : (items.foldr insertByNum []).Perm items := by
  induction items with
  | nil => exact List.Perm.refl _
  | cons x xs ih => exact (insertByNum_perm x _).trans (List.Perm.cons x ih)

theorem insertByNum_sorted (x : Int × String) (l : List (Int × String))
    (h : l.Pairwise (fun a b => a.1 ≤ b.1)) : (insertByNum x l).Pairwise (fun a b => a.1 ≤ b.1) := by
  induction l with
  | nil => simp [insertByNum]
  | cons y ys ih =>
    unfold insertByNum
    have hy := List.pairwise_cons.mp h
    split
    · rename_i hxy
      refine List.pairwise_cons.mpr ⟨?_, h⟩
      intro z hz
      cases hz with
      | head => exact hxy
      | tail _ hz' => exact Int.le_trans hxy (hy.1 z hz')
    · rename_i hxy
      refine List.pairwise_cons.mpr ⟨?_, ih hy.2⟩
      intro z hz
      have := (insertByNum_perm x ys).mem_iff.mp hz
      cases this with
      | head => omega
      | tail _ hz' => exact hy.1 z hz'

/-- **enum_values_exact** (C12): the enum schema lists every declared value exactly once, whatever numbers the
    values carry (dense, sparse, offset, declared in any order) -/
theorem enum_values_exact (items : List (Int × String)) : (exportEnum items).Perm (items.map (·.2)) :=
  (sortByNum_perm items).map _

/-- **enum_values_in_number_order**: and lists them by ascending number -/
theorem enum_values_in_number_order (items : List (Int × String)) :
    (items.foldr insertByNum []).Pairwise (fun a b => a.1 ≤ b.1) := by
  induction items with
  | nil => exact List.Pairwise.nil
  | cons x xs ih => exact insertByNum_sorted x _ ih

example : exportEnum [(7, "NEW"), (2, "PAID"), (40, "SENT"), (3, "LOST")] = ["PAID", "LOST", "NEW", "SENT"] := by decide

/-- non-vacuity: three non-optional fields are all required, sorted -/
example : (exportTuple [⟨"name", .prim "string", false, false⟩, ⟨"kind", .ref "K", false, false⟩, ⟨"age", .prim "int", false, true⟩,
    ⟨"owner", .ref "O", true, false⟩]).required = ["kind", "name", "owner"] := by decide

end SyslModel.Export
