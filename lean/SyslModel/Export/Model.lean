/-
C12 — `Export`: how a tuple type becomes an OpenAPI schema.
`exportType` (pkg/exporter/openapi3.go) turns every field into a property keyed by its name, and
lists the names of the non-optional fields, sorted, under `required`; an enum becomes a string
schema listing its names in the order of their numbers; `syslwrapper` resolves references without
unfolding them (a reference is a name, so recursive types end).
Core Lean only.
-/
namespace SyslModel.Export

inductive Kind where
  | prim (name : String)
  | ref (target : String)
deriving Repr, DecidableEq

structure Field where
  name : String
  kind : Kind
  seq : Bool
  opt : Bool
deriving Repr, DecidableEq

/-- (type, format) of a primitive -/
def primSchema : String → String × String
  | "int" => ("integer", "int64")
  | "float" => ("number", "float")
  | "decimal" => ("number", "double")
  | "bool" => ("boolean", "")
  | "date" => ("string", "date")
  | "datetime" => ("string", "date-time")
  | "uuid" => ("string", "uuid")
  | "bytes" => ("string", "byte")
  | _ => ("string", "")

inductive Schema where
  | prim (type format : String)
  | ref (target : String)
  | array (items : Schema)
deriving Repr, DecidableEq

def kindSchema : Kind → Schema
  | .prim n => .prim (primSchema n).1 (primSchema n).2
  | .ref t => .ref t   -- written `#/components/schemas/<t>`

def fieldSchema (f : Field) : Schema := if f.seq then .array (kindSchema f.kind) else kindSchema f.kind

def insertSorted (x : String) : List String → List String
  | [] => [x]
  | y :: ys => if x ≤ y then x :: y :: ys else y :: insertSorted x ys

def sortNames (l : List String) : List String := l.foldr insertSorted []

structure ObjectSchema where
  properties : List (String × Schema)
  required : List String
deriving Repr, DecidableEq

def exportTuple (fs : List Field) : ObjectSchema :=
  { properties := fs.map fun f => (f.name, fieldSchema f),
    required := sortNames ((fs.filter (!·.opt)).map (·.name)) }

/-- an enum's values in the order of their numbers -/
def insertByNum (x : Int × String) : List (Int × String) → List (Int × String)
  | [] => [x]
  | y :: ys => if x.1 ≤ y.1 then x :: y :: ys else y :: insertByNum x ys

def exportEnum (items : List (Int × String)) : List String := (items.foldr insertByNum []).map (·.2)

end SyslModel.Export
