import SyslModel.Core.Proto
import SyslModel.Export.Model

namespace SyslModel.Export
open Lean (Json)
open SyslModel.Proto

def handle (op : String) (j : Json) : Option Json :=
  match op with
  | "export.enum" =>
      -- items: [[number, name]] as declared; the names the enum schema lists
      let items := (arrD j "items").map (fun e => match asArr e with
        | [n, s] => (((n.getInt?).toOption.getD 0 : Int), asStr s)
        | _ => (0, ""))
      some (Json.mkObj [("values", jarr ((exportEnum items).map Json.str))])
  | "export.required" =>
      -- fields: [[name, optional]]; the `required` list of the object schema
      let fs : List Field := (arrD j "fields").map (fun e => match asArr e with
        | [n, o] => ⟨asStr n, .prim "string", false, (o.getBool?).toOption.getD false⟩
        | _ => ⟨"", .prim "string", false, false⟩)
      some (Json.mkObj [("required", jarr ((exportTuple fs).required.map Json.str))])
  | _ => none

end SyslModel.Export
