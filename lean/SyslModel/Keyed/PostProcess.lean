/-
C07 — post-processing order.  `(*Parser).postProcess` visits the applications of the module and,
for each, copies the types of the applications it mixes in (`-| X`) *as they are at that moment*.
The module keeps its applications in a Go map, so the visiting order is whatever the names are
sorted into (parse.go) - or, without the sort, any permutation.
-/
import SyslModel.Range.Props

namespace SyslModel.Keyed

structure App where
  name : Nat
  mixins : List Nat
  types : List Nat
deriving DecidableEq, Repr

def typesOf (apps : List App) (n : Nat) : List Nat :=
  match apps.find? (fun a => a.name == n) with
  | some a => a.types
  | none => []

/-- visit one application: add the current types of each of its mixins (no duplicates) -/
def visit (apps : List App) (n : Nat) : List App :=
  apps.map fun a =>
    if a.name == n then
      { a with types := a.mixins.foldl (fun ts m => ts ++ (typesOf apps m).filter (fun t => !ts.contains t)) a.types }
    else a

def postProcess (order : List Nat) (apps : List App) : List App := order.foldl visit apps

/-- **mixin_order_matters**: with a chain A -| B -| C the result depends on the visiting order -/
theorem mixin_order_matters :
    ∃ (apps : List App) (o₁ o₂ : List Nat), o₁.Perm o₂ ∧ postProcess o₁ apps ≠ postProcess o₂ apps :=
  ⟨[⟨1, [2], [10]⟩, ⟨2, [3], [20]⟩, ⟨3, [], [30]⟩], [1, 2, 3], [3, 2, 1],
    (by decide), by decide⟩

/-- **postprocess_sorted_indep**: visiting in sorted order gives the same module whatever order
    the map handed the names out in -/
theorem postprocess_sorted_indep (v₁ v₂ : List Nat) (h : v₁.Perm v₂) (apps : List App) :
    postProcess (Range.collectSort v₁) apps = postProcess (Range.collectSort v₂) apps := by
  rw [Range.collectSort_perm v₁ v₂ h]

end SyslModel.Keyed
