/-
C07 — `Keyed`: per-instance state kept in one process-global map.
pkg/grammar/lexer_impl.go keeps the indentation state of every lexer in `lexerStates`, a map
shared by all goroutines and keyed by the lexer instance: `ls(l)` is get-or-create, the lexer
methods mutate the state they get, `DeleteLexerState(l)` removes the entry when the parse ends.
Each goroutine only ever uses the key of its own lexer.  A schedule is any interleaving of the
goroutines' operations, i.e. any list of (key, operation).
Core Lean only.
-/
namespace SyslModel.Keyed

abbrev Key := Nat
/-- abstract lexer state (the indentation stack etc.) -/
abbrev LSt := List Nat
abbrev Map := Key → Option LSt

inductive Op where
  /-- `ls(l)` followed by a mutation of the state it returned; the new state is observed -/
  | use (f : LSt → LSt)
  /-- `DeleteLexerState(l)` -/
  | del

def upd (m : Map) (k : Key) (v : Option LSt) : Map := fun k' => if k' = k then v else m k'

/-- one operation on the shared map: new map and what the caller saw -/
def step (m : Map) (k : Key) : Op → Map × Option LSt
  | .use f => let s' := f ((m k).getD []); (upd m k (some s'), some s')
  | .del => (upd m k none, none)

/-- run a schedule; the trace records, per operation, the key and what its caller saw -/
def run (m : Map) : List (Key × Op) → Map × List (Key × Option LSt)
  | [] => (m, [])
  | (k, op) :: rest =>
    let (m', o) := step m k op
    let (m'', tr) := run m' rest
    (m'', (k, o) :: tr)

/-- what the goroutine owning key `k` saw -/
def seenBy (k : Key) (tr : List (Key × Option LSt)) : List (Option LSt) :=
  (tr.filter (fun e => e.1 == k)).map (·.2)

/-- the operations of the goroutine owning key `k` -/
def opsOf (k : Key) (sched : List (Key × Op)) : List (Key × Op) := sched.filter (fun e => e.1 == k)

end SyslModel.Keyed
