/-
C07 — non-interference of keyed state under every interleaving.
-/
import SyslModel.Keyed.Model

namespace SyslModel.Keyed

theorem step_other (m : Map) (k k' : Key) (op : Op) (h : k' ≠ k) : (step m k op).1 k' = m k' := by
  cases op <;> simp [step, upd, h]

theorem step_congr (m₁ m₂ : Map) (k : Key) (op : Op) (h : m₁ k = m₂ k) :
    (step m₁ k op).2 = (step m₂ k op).2 ∧ (step m₁ k op).1 k = (step m₂ k op).1 k := by
  cases op <;> simp [step, upd, h]

/-- generalised statement: two maps that agree at `k` stay in agreement at `k`, and the owner of
    `k` sees the same things, when one runs the whole schedule and the other only `k`'s part -/
theorem run_project (k : Key) (sched : List (Key × Op)) (m₁ m₂ : Map) (h : m₁ k = m₂ k) :
    seenBy k (run m₁ sched).2 = seenBy k (run m₂ (opsOf k sched)).2 ∧
    (run m₁ sched).1 k = (run m₂ (opsOf k sched)).1 k := by
  induction sched generalizing m₁ m₂ with
  | nil => simp [run, opsOf, seenBy, h]
  | cons e rest ih =>
    obtain ⟨k', op⟩ := e
    by_cases hk : k' = k
    · subst hk
      have hc := step_congr m₁ m₂ k' op h
      have := ih (step m₁ k' op).1 (step m₂ k' op).1 hc.2
      simp only [opsOf, List.filter_cons, beq_self_eq_true, if_true, run, seenBy, List.map_cons] at this ⊢
      refine ⟨?_, this.2⟩
      rw [hc.1]
      exact congrArg _ this.1
    · have hne : (k' == k) = false := by simp [hk]
      have h' : (step m₁ k' op).1 k = m₂ k := by rw [step_other m₁ k' k op (Ne.symm hk)]; exact h
      have := ih (step m₁ k' op).1 m₂ h'
      simp only [opsOf, List.filter_cons, hne, run, seenBy] at this ⊢
      simpa using this

/-! ## PROPERTY THEOREMS (C07) -/

/-- **keyed_noninterference**: under every interleaving of the goroutines' operations on the
    shared map, the goroutine that owns key `k` sees exactly what it sees when it runs alone, and
    leaves the same state under its key -/
theorem keyed_noninterference (k : Key) (sched : List (Key × Op)) (m : Map) :
    seenBy k (run m sched).2 = seenBy k (run m (opsOf k sched)).2 ∧
    (run m sched).1 k = (run m (opsOf k sched)).1 k :=
  run_project k sched m m rfl

/-- two interleavings of the same per-goroutine operation lists are indistinguishable to every
    goroutine -/
theorem interleaving_indep (s₁ s₂ : List (Key × Op)) (m : Map) (k : Key)
    (h : opsOf k s₁ = opsOf k s₂) :
    seenBy k (run m s₁).2 = seenBy k (run m s₂).2 ∧ (run m s₁).1 k = (run m s₂).1 k := by
  have a := keyed_noninterference k s₁ m
  have b := keyed_noninterference k s₂ m
  rw [h] at a
  exact ⟨a.1.trans b.1.symm, a.2.trans b.2.symm⟩

theorem run_append (m : Map) (s₁ s₂ : List (Key × Op)) :
    (run m (s₁ ++ s₂)).1 = (run (run m s₁).1 s₂).1 := by
  induction s₁ generalizing m with
  | nil => rfl
  | cons e rest ih => obtain ⟨k, op⟩ := e; simp [run, ih]

/-- **deleted_is_fresh**: once a parse has deleted its entry, whatever else ran, a later lexer
    that happens to get the same key starts from the empty state -/
theorem deleted_is_fresh (m : Map) (s₁ s₂ : List (Key × Op)) (k : Key) (f : LSt → LSt)
    (hno : opsOf k s₂ = []) :
    (step (run m (s₁ ++ [(k, Op.del)] ++ s₂)).1 k (Op.use f)).2 = some (f []) := by
  have h1 : (run m (s₁ ++ [(k, Op.del)] ++ s₂)).1 k = none := by
    rw [run_append]
    have := (keyed_noninterference k s₂ (run m (s₁ ++ [(k, Op.del)])).1).2
    rw [this, hno]
    simp only [run]
    rw [run_append]
    simp [run, step, upd]
  simp only [step, h1, Option.getD_none]

/-- **undeleted_leaks**: without the delete, a later lexer with the same key inherits the old
    state - why every function that creates a lexer must defer `DeleteLexerState` -/
theorem undeleted_leaks :
    ∃ (m : Map) (s : List (Key × Op)) (k : Key),
      (step (run m s).1 k (Op.use id)).2 ≠ some (id []) :=
  ⟨fun _ => none, [(7, Op.use (fun _ => [4, 8]))], 7, by simp [run, step, upd]⟩

/-- non-vacuity: a schedule with three goroutines interleaved, one of which deletes and re-creates -/
example :
    seenBy 1 (run (fun _ => none)
      [(1, Op.use (1 :: ·)), (2, Op.use (2 :: ·)), (1, Op.use (3 :: ·)), (3, Op.del), (2, Op.del), (1, Op.del), (1, Op.use (9 :: ·))]).2
      = [some [1], some [3, 1], none, some [9]] := by
  simp [seenBy, run, step, upd]

end SyslModel.Keyed
