#!/usr/bin/env python3
"""confirm_mutation.py <PROP> <k> : confirm a sub-agent mutation in its scratch worktree /tmp/mut/<PROP>:
 patch applies + builds; demo (commands taken from its README: first `cp`/`mkdir` lines and first `go test`/`go run` line)
 FAILS with the patch and PASSES without; pinned suite passes with the patch. Then copy into /verif/seeded/."""
import os, re, subprocess, sys, shutil, json
prop, k = sys.argv[1], sys.argv[2]
wt = f"/tmp/mut/{prop}"
patch = f"/tmp/mut/{prop}.{k}.patch.diff"
demo = f"/tmp/mut/{prop}.{k}.demo"
env = dict(os.environ, GOFLAGS="-mod=mod", GOPROXY="off", GOSUMDB="off", GOTOOLCHAIN="local", W=wt, WT=wt)
def sh(c, cwd=wt):
    p = subprocess.run(["bash", "-o", "pipefail", "-c", c], cwd=cwd, env=env, stdout=subprocess.PIPE, stderr=subprocess.STDOUT, text=True)
    return p.returncode, p.stdout
def clean():
    sh("git checkout -- . && git clean -fdq")
log = []
clean()
rc, out = sh(f"git apply {patch}")
log.append(f"apply rc={rc} {out}")
if rc: print("\n".join(log)); sys.exit(1)
rc, out = sh("go build ./...")
log.append(f"build rc={rc} {out[-500:]}")
readme = open(os.path.join(demo, "README.txt")).read() if os.path.exists(os.path.join(demo, "README.txt")) else ""
cmds, run = [], None
for line in readme.split("\n"):
    l = line.strip().lstrip("$ ").strip()
    l = re.sub(r"\s+#.*$", "", l)
    if re.match(r"^(cp|mkdir) ", l) and l not in cmds: cmds.append(l)
    if run is None and re.match(r"^(go test|go run|\(cd .*go (test|run))", l): run = l
log.append(f"demo setup={cmds} run={run}")
for c in cmds: sh(c)
rc_with, out_with = sh(run) if run else (None, "no run command found")
log.append(f"WITH patch: rc={rc_with}\n{out_with[-1200:]}")
sh(f"git apply -R {patch}")
rc_wo, out_wo = sh(run) if run else (None, "")
log.append(f"WITHOUT patch: rc={rc_wo}\n{out_wo[-600:]}")
clean()
sh(f"git apply {patch}")
rc_b, out_b = subprocess.run(["python3", "/verif/tools/baseline_check.py", wt], env=env, stdout=subprocess.PIPE, stderr=subprocess.STDOUT, text=True).returncode, ""
log.append(f"baseline with patch rc={rc_b}")
clean()
ok = (rc_with not in (0, None)) and rc_wo == 0 and rc_b == 0
log.append(f"CONFIRMED={ok}")
dst = f"/verif/seeded/{prop}-agent{k}"
os.makedirs(dst, exist_ok=True)
shutil.copy(patch, os.path.join(dst, "patch.diff"))
if os.path.isdir(demo): shutil.copytree(demo, os.path.join(dst, "demo"), dirs_exist_ok=True)
mt = f"/tmp/mut/{prop}.{k}.meta.txt"
open(os.path.join(dst, "confirm.log"), "w").write("\n".join(log))
meta = {"id": f"{prop}-agent{k}", "property": prop.rstrip("bcdef"), "origin": "independent sub-agent given only the property text and a scratch worktree",
        "needs": open(mt).read() if os.path.exists(mt) else "", "ran": "tools/confirm_mutation.py: patch applies and builds; demo fails with / passes without; pinned suite (1458) passes with the patch",
        "confirmed": ok, "detected_by": "TBD"}
json.dump(meta, open(os.path.join(dst, "meta.json"), "w"), indent=1)
print("\n".join(log[-4:]))
