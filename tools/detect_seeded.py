#!/usr/bin/env python3
"""detect_seeded.py [ids...]: for every directory under /verif/seeded (or the given ones) apply its patch to /repo,
run the property's quick check, record in meta.json what detected it, and undo the patch.
/repo must be clean; nothing is ever committed there."""
import json, os, subprocess, sys, glob, re
V = "/verif"
def sh(c, cwd=V):
    p = subprocess.run(c, shell=True, cwd=cwd, stdout=subprocess.PIPE, stderr=subprocess.STDOUT, text=True)
    return p.returncode, p.stdout
assert sh("git -C /repo status --short")[1].strip() == "", "/repo is not clean"
ids = sys.argv[1:] or sorted(os.path.basename(d) for d in glob.glob(V + "/seeded/*"))
for sid in ids:
    d = f"{V}/seeded/{sid}"
    mp = f"{d}/meta.json"
    if not os.path.exists(f"{d}/patch.diff"):
        continue
    meta = json.load(open(mp)) if os.path.exists(mp) else {"id": sid}
    prop = meta.get("property") or sid.split("-")[0]
    rc, out = sh(f"git -C /repo apply --check {d}/patch.diff")
    if rc != 0:
        meta["detected_by"] = meta.get("detected_by") if meta.get("detected_by") not in (None, "TBD") else []
        meta["current_tree"] = "patch no longer applies to the current tree (the code it changes was rewritten by a later fix): " + out.strip().split("\n")[0]
        json.dump(meta, open(mp, "w"), indent=1)
        print(sid, "DOES-NOT-APPLY")
        continue
    sh(f"git -C /repo apply {d}/patch.diff")
    evf = f"{V}/evidence/{prop}.json"
    saved = open(evf).read() if os.path.exists(evf) else None
    try:
        rc, out = sh(f"./check {prop} --tier quick")
    finally:
        sh("git -C /repo checkout -- .")
        sh("git -C /repo clean -fdq")
    ev = {}
    try:
        ev = json.load(open(f"{V}/evidence/{prop}.json"))
    except Exception:
        pass
    if saved is not None:
        open(evf, "w").write(saved)   # the committed evidence stays the one of the unchanged tree
    viol = re.findall(r"VIOLATION property=\S+ replay=(\S+)( no-failing-input-found)?", out)
    sigs = set()
    for path, _ in viol:
        try:
            r = json.load(open(path))
            if r.get("sig"): sigs.add("harness: " + r["sig"])
            for b in r.get("broken_obligations", []):
                sigs.add("obligation: " + b["obligation"][:160])
        except Exception:
            pass
    nf = any(x[1] for x in viol)
    meta["detected_by"] = sorted(sigs) if rc == 1 else []
    meta["check_result"] = {"exit": rc, "violations": len(viol), "no_failing_input_found": nf, "summary": out.strip().split("\n")[-1]}
    meta.pop("current_tree", None)
    json.dump(meta, open(mp, "w"), indent=1)
    print(sid, "exit", rc, "violations", len(viol), "nfif" if nf else "", flush=True)
