#!/usr/bin/env python3
"""baseline_check.py <repo_dir>: run the pinned test suite (go test -json ./...) in <repo_dir>
and report which tests of BASELINE.json's stable_pass list did not pass. Exit 0 iff none."""
import json, os, subprocess, sys
d = sys.argv[1] if len(sys.argv) > 1 else "/repo"
base = json.load(open("/root/.vp/BASELINE.json"))
env = dict(os.environ, GOFLAGS="-mod=mod", GOPROXY="off", GOSUMDB="off", GOTOOLCHAIN="local")
p = subprocess.run(["go", "test", "-json", "-vet=off", "-count=1", "-timeout", "25m", "./..."], cwd=d, env=env,
                   stdout=subprocess.PIPE, stderr=subprocess.STDOUT, text=True)
passed = set()
for line in p.stdout.split("\n"):
    try:
        e = json.loads(line)
    except Exception:
        continue
    if e.get("Action") == "pass" and e.get("Test"):
        passed.add(f"{e['Package']}::{e['Test']}")
missing = [t for t in base["stable_pass"] if t not in passed]
print(f"stable_pass={len(base['stable_pass'])} passed_now={len(passed)} missing={len(missing)}")
for t in missing[:40]:
    print("  NOT PASSING:", t)
sys.exit(1 if missing else 0)
