#!/bin/sh
# confirm_mutation.sh <worktree> <patch> : apply patch in the scratch worktree, build, run the pinned
# suite, and undo. Prints BUILD-OK / BASELINE-OK lines.
export GOFLAGS=-mod=mod GOPROXY=off GOSUMDB=off GOTOOLCHAIN=local
WT=$1; P=$2
git -C $WT checkout -- . && git -C $WT clean -fdq
git -C $WT apply $P || { echo "APPLY-FAIL $P"; exit 1; }
(cd $WT && go build ./... ) && echo "BUILD-OK $P" || echo "BUILD-FAIL $P"
python3 /verif/tools/baseline_check.py $WT | head -5 && echo "BASELINE-OK $P"
git -C $WT checkout -- . && git -C $WT clean -fdq
