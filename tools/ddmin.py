#!/usr/bin/env python3
"""line-based delta debugging for sysl texts: ddmin.py <file> <substring expected in `sysl pb` stderr>"""
import subprocess, sys, tempfile, os
src = open(sys.argv[1]).read().split("\n")
needle = sys.argv[2]
def fails(lines):
    with tempfile.TemporaryDirectory() as d:
        p = os.path.join(d, "m.sysl")
        open(p, "w").write("\n".join(lines) + "\n")
        r = subprocess.run(["/verif/.cache/sysl", "pb", "--mode", "textpb", "-o", os.path.join(d, "o"), "m.sysl"], cwd=d, capture_output=True, text=True)
        return needle in (r.stderr + r.stdout)
assert fails(src), "original does not fail"
n = 2
while len(src) >= 2:
    chunk = max(1, len(src) // n)
    reduced = False
    for i in range(0, len(src), chunk):
        cand = src[:i] + src[i + chunk:]
        if cand and fails(cand):
            src = cand; n = max(n - 1, 2); reduced = True; break
    if not reduced:
        if chunk == 1: break
        n = min(n * 2, len(src))
changed = True
while changed:
    changed = False
    for i in range(len(src)):
        cand = src[:i] + src[i+1:]
        if cand and fails(cand):
            src = cand; changed = True; break
print("\n".join(src))
